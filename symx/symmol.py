"""SecondQuantizedMolecule objects built on a custom IntegralSolver whose integrals are supplied by the
harness (symbolic or concrete): Tangelo's own seam, no PySCF call.  Conventions:
  h[i][j]            one-electron integrals (real symmetric)
  eri[i][j][k][l]    chemists' (ij|kl) with the 8-fold symmetry
  what Tangelo's solvers return as two-body array (openfermion order): g[p,q,r,s] = (ps|qr)
"""
import numpy as np

from . import shim
from .num import Sym


def _arr(data, symbolic):
    if symbolic:
        return shim.SymArray(data)
    return np.array(data, dtype=float)


def of_two_body(eri, n, symbolic):
    g = [[[[eri[p][s][q][r] for s in range(n)] for r in range(n)] for q in range(n)] for p in range(n)]
    return _arr(g, symbolic)


def make_solver_class():
    from tangelo.toolboxes.molecular_computation.integral_solver import IntegralSolver

    class SymIntegralSolver(IntegralSolver):
        """integrals handed over by the harness; occupation pattern aufbau for (n_electrons, spin)"""

        def __init__(self, n_mos, n_electrons, spin, const, h, eri, symbolic, uhf=False, h_b=None, eri_ab=None, eri_bb=None):
            self.n, self.ne, self.spin2 = n_mos, n_electrons, spin
            self.const, self.h, self.eri = const, h, eri
            self.symbolic, self.uhf_ = symbolic, uhf
            self.h_b = h_b if h_b is not None else h
            self.eri_ab = eri_ab if eri_ab is not None else eri
            self.eri_bb = eri_bb if eri_bb is not None else eri
            self.calls = 0

        def set_physical_data(self, mol):
            mol.n_electrons = self.ne
            mol.n_atoms = len(mol.xyz)

        def compute_mean_field(self, sqmol):
            n = self.n
            na, nb = (self.ne + self.spin2) // 2, (self.ne - self.spin2) // 2
            sqmol.mf_energy = 0.0
            sqmol.n_mos, sqmol.n_sos = n, 2 * n
            if self.uhf_:
                sqmol.mo_energies = [np.arange(n, dtype=float), np.arange(n, dtype=float)]
                sqmol.mo_occ = [np.array([1. if i < na else 0. for i in range(n)]), np.array([1. if i < nb else 0. for i in range(n)])]
                self.mo_coeff = (np.eye(n), np.eye(n))
            else:
                sqmol.mo_energies = np.arange(n, dtype=float)
                sqmol.mo_occ = np.array([float((i < na) + (i < nb)) for i in range(n)])
                self.mo_coeff = np.eye(n)

        def get_integrals(self, sqmol, mo_coeff=None):
            self.calls += 1
            n = self.n
            if self.uhf_:
                return (self.const, [_arr(self.h, self.symbolic), _arr(self.h_b, self.symbolic)],
                        [of_two_body(self.eri, n, self.symbolic), of_two_body(self.eri_ab, n, self.symbolic),
                         of_two_body(self.eri_bb, n, self.symbolic)])
            return self.const, _arr(self.h, self.symbolic), of_two_body(self.eri, n, self.symbolic)

    return SymIntegralSolver


_CLS = None


def molecule(n_mos, n_electrons, spin, const, h, eri, symbolic, frozen=None, uhf=False, **kw):
    """a real SecondQuantizedMolecule on top of the harness-supplied integrals"""
    global _CLS
    if _CLS is None:
        _CLS = make_solver_class()
    from tangelo import SecondQuantizedMolecule
    xyz = [["H", (0., 0., float(i))] for i in range(max(1, n_electrons))]
    q = 0
    solver = _CLS(n_mos, n_electrons, spin, const, h, eri, symbolic, uhf=uhf, **kw)
    return SecondQuantizedMolecule(xyz, q, spin, solver=solver, frozen_orbitals=frozen, uhf=uhf)


MODS = ("tangelo.toolboxes.molecular_computation.molecule", "tangelo.toolboxes.molecular_computation.coefficients",
        "tangelo.toolboxes.molecular_computation.frozen_orbitals", "tangelo.toolboxes.molecular_computation.rdms",
        "tangelo.toolboxes.qubit_mappings.mapping_transform")
