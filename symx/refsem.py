"""Reference semantics (the oracle): textbook definitions of the gates, Pauli
operators and measurements, written independently of Tangelo.  Works on exact
symbolic numbers (num.Sym) and on Python complex numbers alike.

Conventions: a state on n qubits is a list of 2^n amplitudes; the index of basis
state |b_0 b_1 ... b_{n-1}> is int("b_0 b_1 ... b_{n-1}", 2): qubit 0 is the FIRST
character of the bitstring / the most significant bit of the index.
"""
import math

from . import num
from .num import Sym

EXACT = True          # True: lift all constants to exact Sym values


def C(x):
    """constant -> number of the active arithmetic"""
    if EXACT:
        return x if isinstance(x, Sym) else Sym.of(x)
    if isinstance(x, Sym):
        return complex(x)
    return x


def ZERO():
    return C(0)


def ONE():
    return C(1)


def IMAG():
    return C(1j)


def rsqrt2():
    return C(1 / math.sqrt(2))


def n_cis(x):
    if isinstance(x, Sym):
        return num.cis(x)
    if EXACT:
        return num.cis(Sym.of(x))
    return complex(math.cos(x), math.sin(x))


def n_cos(x):
    if isinstance(x, Sym):
        return x.cos()
    if EXACT:
        return Sym.of(x).cos()
    return math.cos(x)


def n_sin(x):
    if isinstance(x, Sym):
        return x.sin()
    if EXACT:
        return Sym.of(x).sin()
    return math.sin(x)


def n_conj(x):
    return x.conjugate() if hasattr(x, "conjugate") else x


def is_zero(x):
    if isinstance(x, Sym):
        return x.p.is_zero()
    return x == 0


ONE_QUBIT = {"H", "X", "Y", "Z", "S", "T", "SDAG", "RX", "RY", "RZ", "PHASE"}
BASE_OF = {"CNOT": "X", "CX": "X", "CY": "Y", "CZ": "Z", "CH": "H", "CRX": "RX", "CRY": "RY", "CRZ": "RZ",
           "CPHASE": "PHASE", "CSWAP": "SWAP"}


def matrix1(name, theta=None):
    """documented 2x2 matrix of a one-qubit gate"""
    o, z, i = ONE(), ZERO(), IMAG()
    if name == "H":
        r = rsqrt2()
        return [[r, r], [r, -r]]
    if name == "X":
        return [[z, o], [o, z]]
    if name == "Y":
        return [[z, -i], [i, z]]
    if name == "Z":
        return [[o, z], [z, -o]]
    if name == "S":
        return [[o, z], [z, i]]
    if name == "SDAG":
        return [[o, z], [z, -i]]
    if name == "T":
        return [[o, z], [z, n_cis(math.pi / 4)]]
    if name == "RX":      # exp(-i theta X / 2)
        c, s = n_cos(theta / 2), n_sin(theta / 2)
        return [[c, -i * s], [-i * s, c]]
    if name == "RY":      # exp(-i theta Y / 2)
        c, s = n_cos(theta / 2), n_sin(theta / 2)
        return [[c, -s], [s, c]]
    if name == "RZ":      # exp(-i theta Z / 2)
        return [[n_cis(-theta / 2), z], [z, n_cis(theta / 2)]]
    if name == "PHASE":   # diag(1, e^{i theta})
        return [[o, z], [z, n_cis(theta)]]
    raise KeyError(name)


def _bit(idx, q, n):
    return (idx >> (n - 1 - q)) & 1


def apply_1q(state, n, M, t, controls=()):
    new = list(state)
    mask = 1 << (n - 1 - t)
    for i0 in range(len(state)):
        if i0 & mask:
            continue
        if controls and not all(_bit(i0, c, n) for c in controls):
            continue
        i1 = i0 | mask
        a0, a1 = state[i0], state[i1]
        new[i0] = M[0][0] * a0 + M[0][1] * a1
        new[i1] = M[1][0] * a0 + M[1][1] * a1
    return new


def apply_gate(state, n, name, targets, controls=None, param=None):
    """apply one Tangelo gate (by its documented meaning) to a state"""
    name = name.upper()
    controls = list(controls) if controls else []
    base = name
    if controls:
        if name not in BASE_OF:
            raise KeyError(f"{name} with controls")
        base = BASE_OF[name]
    if base in ONE_QUBIT:
        return apply_1q(state, n, matrix1(base, param), targets[0], controls)
    if base == "SWAP":
        a, b = targets
        new = list(state)
        for i in range(len(state)):
            if controls and not all(_bit(i, c, n) for c in controls):
                continue
            ba, bb = _bit(i, a, n), _bit(i, b, n)
            if ba != bb:
                j = i ^ (1 << (n - 1 - a)) ^ (1 << (n - 1 - b))
                new[j] = state[i]
        return new
    if base == "XX":      # exp(-i theta XX / 2)
        a, b = targets
        c, s = n_cos(param / 2), n_sin(param / 2)
        mi = -IMAG() * s
        new = list(state)
        for i in range(len(state)):
            j = i ^ (1 << (n - 1 - a)) ^ (1 << (n - 1 - b))
            new[i] = c * state[i] + mi * state[j]
        return new
    raise KeyError(name)


def basis_state(n, idx=0):
    st = [ZERO() for _ in range(2 ** n)]
    st[idx] = ONE()
    return st


def run_gates(gates, n, state=None):
    """gates: iterable of objects with .name .target .control .parameter (Tangelo Gate) or tuples"""
    st = list(state) if state is not None else basis_state(n)
    for g in gates:
        if isinstance(g, tuple):
            name, tg, ct, pa = (list(g) + [None, None])[:4]
        else:
            name, tg, ct, pa = g.name, g.target, g.control, g.parameter
        st = apply_gate(st, n, name, tg, ct, pa if pa != "" else None)
    return st


def unitary(gates, n):
    """list of columns U|e_j>"""
    return [run_gates(gates, n, basis_state(n, j)) for j in range(2 ** n)]


# ---------------------------------------------------------------- Pauli operators
def apply_pauli_word(state, n, word):
    """word: iterable of (qubit, 'X'|'Y'|'Z')"""
    new = [ZERO() for _ in state]
    i_ = IMAG()
    for idx, a in enumerate(state):
        if is_zero(a):
            continue
        j = idx
        ph = ONE()
        for q, p in word:
            b = _bit(idx, q, n)
            if p in "XY":
                j ^= 1 << (n - 1 - q)
            if p == "Y":
                ph = ph * (i_ if b == 0 else -i_)
            elif p == "Z":
                if b:
                    ph = -ph
        new[j] = new[j] + ph * a
    return new


def inner(a, b):
    s = ZERO()
    for x, y in zip(a, b):
        s = s + n_conj(x) * y
    return s


def apply_qubit_operator(state, n, terms):
    """terms: dict word->coef (openfermion convention)"""
    out = [ZERO() for _ in state]
    for word, coef in terms.items():
        v = apply_pauli_word(state, n, word)
        out = [o + coef * x for o, x in zip(out, v)]
    return out


def expectation(state, n, terms):
    return inner(state, apply_qubit_operator(state, n, terms))


def probabilities(state):
    return [a * n_conj(a) for a in state]


def bitstring(idx, n):
    return format(idx, f"0{n}b")


def project(state, n, qubit, value):
    """unnormalised projection on qubit=value, and its probability"""
    new = [a if _bit(i, qubit, n) == value else ZERO() for i, a in enumerate(state)]
    p = ZERO()
    for a in new:
        p = p + a * n_conj(a)
    return new, p


# ---------------------------------------------------------------- density matrices (n <= 3)
def dm_from_state(state):
    return [[a * n_conj(b) for b in state] for a in state]


def dm_apply_unitary_gate(rho, n, name, targets, controls=None, param=None):
    dim = len(rho)
    # U rho U^dag : apply to columns then rows
    cols = [apply_gate([rho[i][j] for i in range(dim)], n, name, targets, controls, param) for j in range(dim)]
    # cols[j][i] = (U rho)[i][j]
    rows = []
    for i in range(dim):
        r = [n_conj(x) for x in apply_gate([n_conj(cols[j][i]) for j in range(dim)], n, name, targets, controls, param)]
        rows.append(r)
    return rows


def dm_apply_pauli(rho, n, word):
    dim = len(rho)
    cols = [apply_pauli_word([rho[i][j] for i in range(dim)], n, word) for j in range(dim)]
    rows = []
    for i in range(dim):
        r = [n_conj(x) for x in apply_pauli_word([n_conj(cols[j][i]) for j in range(dim)], n, word)]
        rows.append(r)
    return rows


def dm_add(a, b, ca=1, cb=1):
    return [[ca * x + cb * y for x, y in zip(ra, rb)] for ra, rb in zip(a, b)]


def dm_scale(a, c):
    return [[c * x for x in r] for r in a]


def dm_pauli_channel(rho, n, q, px, py, pz):
    out = dm_scale(rho, 1 - px - py - pz)
    for p, w in ((px, "X"), (py, "Y"), (pz, "Z")):
        out = dm_add(out, dm_scale(dm_apply_pauli(rho, n, [(q, w)]), p))
    return out


def dm_depolarize(rho, n, qubits, p):
    """rho -> (1-p) rho + p * (I/2^k (x) tr_k rho) = (1-p) rho + p/4^k sum_{P in Pauli^k} P rho P"""
    import itertools
    k = len(qubits)
    acc = None
    for ws in itertools.product("IXYZ", repeat=k):
        word = [(q, w) for q, w in zip(qubits, ws) if w != "I"]
        t = dm_apply_pauli(rho, n, word) if word else rho
        acc = t if acc is None else dm_add(acc, t)
    mixed = dm_scale(acc, C(1) / (4 ** k))
    return dm_add(dm_scale(rho, 1 - p), dm_scale(mixed, p))


def dm_expectation(rho, n, terms):
    dim = len(rho)
    tot = ZERO()
    for word, coef in terms.items():
        # tr(P rho) = sum_j (P rho)[j][j]
        s = ZERO()
        for j in range(dim):
            col = apply_pauli_word([rho[i][j] for i in range(dim)], n, word)
            s = s + col[j]
        tot = tot + coef * s
    return tot
