"""sympy expression -> exact Sym (for comparing the sympy backend's symbolic output with the oracle)"""
from fractions import Fraction as F

from . import num
from .num import Sym, SymEscape


def to_sym(expr, symmap):
    """symmap: sympy Symbol name -> Sym (symbolic mode) or float (concrete mode)"""
    import sympy
    e = sympy.sympify(expr)
    if e.is_Number:
        if e.is_Rational:
            return Sym.of(F(int(e.p), int(e.q)))
        return Sym.of(float(e))
    if e is sympy.I:
        return Sym(num.I_POLY)
    if e is sympy.pi:
        return num.sym_pi()
    if e.is_Symbol:
        if e.name not in symmap:
            raise SymEscape(f"unknown sympy symbol {e.name}")
        return Sym.of(symmap[e.name])
    if e.is_Add:
        out = Sym.of(0)
        for a in e.args:
            out = out + to_sym(a, symmap)
        return out
    if e.is_Mul:
        out = Sym.of(1)
        for a in e.args:
            out = out * to_sym(a, symmap)
        return out
    if e.is_Pow:
        b, ex = e.args
        if ex.is_Integer:
            return to_sym(b, symmap) ** int(ex)
        if ex == sympy.Rational(1, 2):
            return to_sym(b, symmap).sqrt()
        if ex == sympy.Rational(-1, 2):
            return Sym.of(1) / to_sym(b, symmap).sqrt()
        raise SymEscape(f"sympy power {e}")
    if isinstance(e, sympy.cos):
        return to_sym(e.args[0], symmap).cos()
    if isinstance(e, sympy.sin):
        return to_sym(e.args[0], symmap).sin()
    if isinstance(e, sympy.exp):
        return to_sym(e.args[0], symmap).exp()
    if isinstance(e, sympy.conjugate):
        return to_sym(e.args[0], symmap).conjugate()
    if isinstance(e, sympy.Abs):
        return abs(to_sym(e.args[0], symmap))
    if isinstance(e, sympy.re):
        return to_sym(e.args[0], symmap).real
    if isinstance(e, sympy.im):
        return to_sym(e.args[0], symmap).imag
    raise SymEscape(f"cannot convert sympy expression {type(e).__name__}: {e}")


def to_number(expr, symmap, symbolic):
    import sympy
    if symbolic:
        return to_sym(expr, symmap)
    subs = {sympy.Symbol(k, real=True): v for k, v in symmap.items()}
    return complex(sympy.N(sympy.sympify(expr).subs(subs)))
