"""Path exploration: every place where control flow can depend on a symbolic value
ends in decide(), which asks z3 which alternatives are feasible under the current
path condition, follows one and queues the others (re-execution per path)."""
from fractions import Fraction as F

from . import num, smt
from .num import Poly, Sym, SymEscape
from .smt import Cons

TINY_MAX = F(1, 10 ** 6)


class Infeasible(Exception):
    pass


class PathBudget(Exception):
    pass


class Path:
    def __init__(self, prefix=(), policy=None):
        self.prefix = list(prefix)
        self.decisions = []
        self.pc = []            # formulas
        self.todo = []
        self.policy = dict(threshold="assume", truth="assume", mod_range=(-4, 4), feas_timeout_ms=5000)
        if policy:
            self.policy.update(policy)
        self.assumptions = []   # strings
        self.n_feas_queries = 0
        self.notes = []


PATH = None


def note_sym():
    pass


def current():
    return PATH


def decide(alts, label=""):
    """alts: list of (formula | True, result).  Returns the result of the chosen alternative."""
    P = PATH
    if P is None:
        raise SymEscape(f"control flow depends on a symbolic value outside an exploration ({label})")
    i = len(P.decisions)
    known = None
    if label in _EXCLUSIVE:
        # alternatives of these decisions are mutually exclusive: one that is already (syntactically) part of
        # the path condition is the only feasible one -> no solver query, no duplicate in the path condition
        keys = _pc_keys(P)
        for j, (f, _) in enumerate(alts):
            if f is not True and f is not False and _fkey(f) in keys:
                known = j
                break
    if known is not None:
        choice = known
        P.decisions.append(choice)
        return alts[choice][1]
    if i < len(P.prefix):
        choice = P.prefix[i]
    else:
        feas = []
        for j, (f, _) in enumerate(alts):
            if f is True:
                feas.append(j)
                continue
            if f is False:
                continue
            verdict, _, _, _, _ = smt.solve(P.pc + [f], timeout_ms=P.policy["feas_timeout_ms"], want_model=False)
            P.n_feas_queries += 1
            if verdict != "unsat":
                feas.append(j)
        if not feas:
            raise Infeasible(label)
        choice = feas[0]
        for j in feas[1:]:
            P.todo.append(P.decisions + [j])
    P.decisions.append(choice)
    f = alts[choice][0]
    if f is not True:
        P.pc.append(f)
    return alts[choice][1]


_EXCLUSIVE = ("bool", "threshold", "truth")


def _fkey(f):
    """hashable syntactic key of a formula"""
    if isinstance(f, Cons):
        return ("C", f.op, f.p.key())
    if isinstance(f, bool):
        return f
    if f[0] in ("and", "or"):
        return (f[0], tuple(_fkey(x) for x in f[1]))
    if f[0] == "not":
        return ("not", _fkey(f[1]))
    if f[0] == "cneq":
        return ("cneq", f[1].key(), f[2].key())
    return ("id", id(f))


def _pc_keys(P):
    """keys of the path condition; syntactic duplicates are dropped from P.pc on the way"""
    keys = P.__dict__.setdefault("_keys", set())
    nk = P.__dict__.get("_nk", 0)
    if nk < len(P.pc):
        new = []
        for f in P.pc[nk:]:
            k = _fkey(f)
            if k not in keys:
                keys.add(k)
                new.append(f)
        P.pc[nk:] = new
        P._nk = len(P.pc)
    return keys


def assume(f, why=""):
    """add a constraint to the path condition (harness-level precondition)"""
    P = PATH
    if P is None:
        raise SymEscape("assume outside exploration")
    P.pc.append(f)
    if why:
        P.assumptions.append(why)


class SymBool:
    """truth value of a formula; bool() forks"""
    __slots__ = ("f",)

    def __init__(self, f):
        self.f = f

    def __bool__(self):
        return decide([(self.f, True), (smt.f_not(self.f) if not isinstance(self.f, Cons) else self.f.negate(), False)], "bool")

    def __invert__(self):
        return SymBool(smt.f_not(self.f))

    def __and__(self, o):
        if isinstance(o, SymBool):
            return SymBool(smt.f_and(self.f, o.f))
        return self if o else False

    __rand__ = __and__

    def __or__(self, o):
        if isinstance(o, SymBool):
            return SymBool(smt.f_or(self.f, o.f))
        return True if o else self

    __ror__ = __or__

    def __eq__(self, o):
        return bool(self) == bool(o)

    def __hash__(self):
        return hash(bool(self))

    def __repr__(self):
        return f"SymBool({self.f})"


def _const_truth(v, op):
    return {"==": v == 0, "!=": v != 0, ">": v > 0, ">=": v >= 0, "<": v < 0, "<=": v <= 0}[op]


def cons_truth(p, op):
    """truth of  p op 0  for a REAL poly p: bool when decidable syntactically, else a (possibly
    policy-driven) decision."""
    if not p.t:
        return _const_truth(0, op)
    cv = p.const_value()
    if cv is not None:
        return _const_truth(cv.real, op)
    mb = _monomial_bounds(p)
    if mb is not None:
        return _const_truth(mb[0], op)          # sign fixed by the declared variable bounds: no decision
    P = PATH
    if P is not None and P.policy.get("threshold") == "assume" and op in (">", ">=", "<", "<="):
        ctx = num.ctx()
        p0t, margin = {}, F(0)
        for (k, vs), c in p.t.items():
            tv = [v for v, e in vs if ctx.kind[v] == "real" and ctx.info[v].get("tiny")]
            if not tv:
                p0t[(k, vs)] = c
            elif k == 0 and len(tv) == len(vs) and all(e > 0 for v, e in vs):
                m = abs(c)
                for v, e in vs:
                    m *= F(ctx.info[v]["value"]) ** int(e)
                margin += m
            else:
                margin = None
                break
        if margin is None or margin == 0:
            c = p.t.get(num.ONE_M)
            if margin == 0 and c is not None and 0 < abs(c) <= TINY_MAX:
                p0t = dict(p.t)
                del p0t[num.ONE_M]
                margin = abs(c)
            else:
                margin = None
        if margin is not None and margin <= TINY_MAX:
            p0 = Poly(p0t)
            if not p0.t:
                if p.const_value() is not None:
                    return _const_truth(p.const_value().real, op)
                # p consists of tiny literals only: its value is known exactly
                val = F(0)
                for (k, vs), c in p.t.items():
                    if k != 0 or not all(ctx.kind[v] == "real" and ctx.info[v].get("tiny") and e > 0 for v, e in vs):
                        return SymBool(Cons(p, op))
                    m = c
                    for v, e in vs:
                        m *= F(ctx.info[v]["value"]) ** int(e)
                    val += m
                return _const_truth(val, op)
            cv0 = p0.const_value()
            if cv0 is not None:
                if abs(cv0.real) > float(margin):
                    return _const_truth(cv0.real, op)
                return SymBool(Cons(p, op))
            a = margin
            hi = Cons(p0.sub(Poly.const(a)), ">")       # p0 > margin   => p > 0
            lo = Cons(p0.add(Poly.const(a)), "<")       # p0 < -margin  => p < 0
            mb = _monomial_bounds(p0)
            if mb is not None and mb[1] > a:
                return _const_truth(mb[0], op)      # |p0| > margin already follows from the variable bounds
            msg = f"threshold-assume: |{_short(p0)}| > {float(a):.3g} (sliver below a drop threshold excluded)"
            if msg not in P.assumptions:
                P.assumptions.append(msg)
            if p0.key() in ctx.__dict__.get("nonneg", ()) or _syntactic_nonneg(p0):
                # p0 is |z|^2 by construction: only the upper alternative exists
                P.pc.append(hi)
                return _const_truth(1, op)
            return decide([(hi, _const_truth(1, op)), (lo, _const_truth(-1, op))], "threshold")
    return SymBool(Cons(p, op))


def _short(p):
    s = repr(p)
    return s if len(s) < 80 else s[:77] + "..."


def compare(a, b, op):
    # |x| compared with a non-negative constant: use squares, no sign fork
    if a._abs_of is not None and a._p is None:
        r = _known_const(b.p)
        if r is not None:
            if r < 0:
                return _const_truth(1, op)        # |x| - r > 0 always
            if r == 0 and a._abs_of.const_value() is None:
                # |x| op 0 is decided on x itself (no squares): |x| > 0 <=> x != 0, |x| <= 0 <=> x == 0
                if op in (">=", "<"):
                    return op == ">="
                re_, im_ = a._abs_of.real(), a._abs_of.imag()
                z = Cons(re_, "==") if not im_.t else (Cons(im_, "==") if not re_.t else smt.f_and(Cons(re_, "=="), Cons(im_, "==")))
                return SymBool(z) if op in ("<=", "==") else SymBool(smt.f_not(z) if not isinstance(z, Cons) else z.negate())
            sq = a._abs_of.mul(a._abs_of.conj())
            num.ctx().__dict__.setdefault("nonneg", set()).add(sq.key())
            return cons_truth(sq.sub(b.p.mul(b.p)), op)
    if b._abs_of is not None and b._p is None:
        r = _known_const(a.p)
        if r is not None:
            flip = {"<": ">", "<=": ">=", ">": "<", ">=": "<=", "==": "==", "!=": "!="}[op]
            return compare(b, a, flip)
    d = a.p.sub(b.p)
    if op in ("==", "!="):
        if not d.t:
            return op == "=="
        cv = d.const_value()
        if cv is not None:
            return (cv == 0) == (op == "==")
        d = _snap_round_const(d)
        re, im = d.real(), d.imag()
        if not im.t:
            f = Cons(re, "==")
        elif not re.t:
            f = Cons(im, "==")
        else:
            f = smt.f_and(Cons(re, "=="), Cons(im, "=="))
        return SymBool(f) if op == "==" else SymBool(smt.f_not(f) if not isinstance(f, Cons) else f.negate())
    if not d.is_real():
        raise TypeError("ordering comparison of complex symbolic values")
    return cons_truth(d, op)


def _snap_round_const(d):
    """round(x, nd) is modelled as n/10^nd with an integer variable n, while Python's round returns the FLOAT
    nearest to n/10^nd.  When such a value is compared (==, !=) with a float constant r (e.g. the rounded
    parameter of a gate with a concrete angle), r is replaced by the decimal m/10^nd it denotes, so that the
    comparison means n == m as it does in Python.  d = (+-1/scale)*n + const."""
    tab = num.ctx().__dict__.get("_rounds")
    if not tab or len(d.t) != 2 or num.ONE_M not in d.t:
        return d
    c = d.t[num.ONE_M]
    for (k, vs), coef in d.t.items():
        if vs and k == 0 and len(vs) == 1 and vs[0][1] == 1:
            for (_x, n, scale) in tab.values():
                if n == vs[0][0] and abs(coef) == 1 / scale:
                    m = round(c * scale)
                    if abs(c * scale - m) <= F(1, 1000):
                        return Poly({(k, vs): coef, num.ONE_M: F(m) / scale}) if m else Poly({(k, vs): coef})
    return d


def _monomial_bounds(p):
    """(sign, lower bound of |p|) for a single real monomial all of whose variables are kept away from zero by their
    declared bounds (lo > 0, hi < 0, or info['absmin'] -- set by a harness together with the matching assumption -- for
    even powers); None when not applicable.  The bounds are side constraints of every query, so this only saves queries."""
    if len(p.t) != 1:
        return None
    (k, vs), c = next(iter(p.t.items()))
    if k != 0 or not vs:
        return None
    ctx = num.ctx()
    sign = 1 if c > 0 else -1
    low = abs(c)
    for v, e in vs:
        if ctx.kind[v] != "real":
            return None
        info = ctx.info[v]
        e = int(e)
        lo, hi = info.get("lo"), info.get("hi")
        if lo is not None and lo > 0:
            sg, m, big = 1, lo, hi
        elif hi is not None and hi < 0:
            sg, m, big = -1, -hi, (-lo if lo is not None else None)
        elif e % 2 == 0 and info.get("absmin"):
            sg, m = 1, F(info["absmin"])
            big = max(abs(lo), abs(hi)) if lo is not None and hi is not None else None
        else:
            return None
        if e % 2:
            sign *= sg
        if e > 0:
            low *= m ** e
        elif big:
            low *= F(1) / (big ** (-e))
        else:
            low = F(0)
    return sign, low


def _syntactic_nonneg(p):
    """single monomial with positive coefficient over variables known to be >= 0"""
    if len(p.t) != 1:
        return False
    (k, vs), c = next(iter(p.t.items()))
    ctx = num.ctx()
    return k == 0 and c > 0 and all(ctx.kind[v] == "real" and ((ctx.info[v].get("lo") is not None and ctx.info[v]["lo"] >= 0)
                                                                 or int(e) % 2 == 0) for v, e in vs)


def _known_const(p):
    """value of a poly that is a rational constant or a tiny literal variable, else None"""
    r = p.rational_value()
    if r is not None:
        return r
    if len(p.t) == 1:
        (k, vs), c = next(iter(p.t.items()))
        ctx = num.ctx()
        if k == 0 and len(vs) == 1 and vs[0][1] == 1 and ctx.info[vs[0][0]].get("tiny"):
            return c * F(ctx.info[vs[0][0]]["value"])
    return None


def sym_truth(x):
    p = x.p
    if not p.t:
        return False
    cv = p.const_value()
    if cv is not None:
        return cv != 0
    P = PATH
    if P is None:
        raise SymEscape("truth value of a symbolic number outside exploration")
    re, im = p.real(), p.imag()
    nz = Cons(re, "!=") if not im.t else (Cons(im, "!=") if not re.t else smt.f_or(Cons(re, "!="), Cons(im, "!=")))
    if P.policy.get("truth") == "assume":
        msg = f"generic-nonzero: {_short(p)} != 0"
        if msg not in P.assumptions:
            P.assumptions.append(msg)
        P.pc.append(nz)
        return True
    z = smt.f_not(nz) if not isinstance(nz, Cons) else nz.negate()
    return decide([(nz, True), (z, False)], "truth")


# ---------------------------------------------------------------- non-polynomial operations
def sym_abs(x):
    p = x.p
    if not p.t:
        return Sym(Poly())
    cv = p.const_value()
    if cv is not None and p.is_real():
        return Sym(p if cv.real >= 0 else p.neg())
    return Sym(None, abs_of=p)


def resolve_abs(a):
    """|a| as a Poly (called lazily when the absolute value is used arithmetically)"""
    if a.is_real():
        pos = cons_truth(a, ">=")
        return a if bool(pos) else a.neg()
    sq = a.mul(a.conj())
    return sym_sqrt(Sym(sq)).p


_SQRT_TABLE_KEY = "_sqrt_table"


def sym_sqrt(x):
    p = x.p
    if not p.t:
        return Sym(Poly())
    r = p.rational_value()
    if r is not None:
        if r < 0:
            raise SymEscape("sqrt of negative constant")
        import math
        n, d = r.numerator, r.denominator
        sn, sd = math.isqrt(n), math.isqrt(d)
        if sn * sn == n and sd * sd == d:
            return Sym(Poly.const(F(sn, sd)))
        r2 = r * 2
        n, d = r2.numerator, r2.denominator
        sn, sd = math.isqrt(n), math.isqrt(d)
        if sn * sn == n and sd * sd == d:
            # sqrt(r) = sqrt(2r)/sqrt(2) = sqrt(2r) * sqrt(2)/2
            k = num.N // 4
            s2h = Poly.w(k).add(Poly.w(-k)).scale(F(1, 2))     # cos(pi/4) = sqrt(2)/2
            return Sym(s2h.scale(F(sn, sd)))
    if not p.is_real():
        raise SymEscape("sqrt of a non-real symbolic value")
    # monomial perfect squares with a known non-negative root
    ctx = num.ctx()
    if len(p.t) == 1:
        (k, vs), c = next(iter(p.t.items()))
        import math
        if k == 0 and c > 0 and all(ctx.kind[v] == "real" and F(e).denominator == 1 and int(e) % 2 == 0 and
                                    ctx.info[v].get("lo") is not None and ctx.info[v]["lo"] >= 0 for v, e in vs):
            sn, sd = math.isqrt(c.numerator), math.isqrt(c.denominator)
            if sn * sn == c.numerator and sd * sd == c.denominator:
                return Sym(Poly({(0, tuple((v, int(e) // 2) for v, e in vs)): F(sn, sd)}))
    tab = ctx.__dict__.setdefault(_SQRT_TABLE_KEY, {})
    key = p.key()
    if key in tab:
        return Sym(Poly.var(tab[key]))
    root = ctx.__dict__.get("_known_roots", {}).get(key)
    if root is not None:
        return Sym(root)
    v = ctx.fresh("sqrt", lo=F(0))
    tab[key] = v
    vp = Poly.var(v)
    ctx.defs.append(Cons(vp.mul(vp).sub(p), "=="))
    ctx.__dict__.setdefault("_sqrt_of_var", {})[v] = p
    return Sym(vp)


def declare_root(square_poly, root_poly):
    """harness-level cancellation rule: sqrt(square_poly) = root_poly (root known >= 0)"""
    num.ctx().__dict__.setdefault("_known_roots", {})[square_poly.key()] = root_poly


def expand_radicals(p):
    """rewrite positive even powers of sqrt variables by their radicands (v^2 -> radicand)"""
    ctx = num.ctx()
    sq = ctx.__dict__.get("_sqrt_of_var")
    if not sq:
        return p
    for _ in range(64):
        out, changed = {}, False
        acc = Poly()
        for (k, vs), c in p.t.items():
            hit = None
            for v, e in vs:
                if v in sq and e >= 2 and (hit is None or v > hit[0]):
                    hit = (v, e)        # latest-created radical first: its radicand may contain earlier ones
            if hit is None:
                n = out.get((k, vs), 0) + c
                if n == 0:
                    out.pop((k, vs), None)
                else:
                    out[(k, vs)] = n
                continue
            v, e = hit
            rest = tuple((a, b - 2 if a == v else b) for a, b in vs if not (a == v and b == 2))
            acc = acc.add(Poly({(k, rest): c}).mul(sq[v]))
            changed = True
        p = Poly(out).add(acc)
        if not changed:
            break
    return p


def collapse_radicals(q):
    """if q = const * v^e * radicand(v) for a sqrt variable v, return const * v^(e+2)"""
    ctx = num.ctx()
    sq = ctx.__dict__.get("_sqrt_of_var")
    if not sq or not q.t:
        return q
    for v, r in sq.items():
        if not r.t:
            continue
        groups = {}
        for (k, vs), c in q.t.items():
            e = 0
            rest = []
            for a, b in vs:
                if a == v:
                    e = b
                else:
                    rest.append((a, b))
            groups.setdefault(e, {})[(k, tuple(rest))] = c
        if len(groups) != 1:
            continue
        (e, cof), = groups.items()
        cof = Poly(cof)
        m0 = next(iter(r.t))
        if m0 not in cof.t:
            continue
        ratio = cof.t[m0] / r.t[m0]
        if cof.sub(r.scale(ratio)).is_zero():
            ne = e + 2
            return Poly({(0, ((v, ne),) if ne else ()): ratio})
    return q


def fresh_inverse(q):
    q2 = collapse_radicals(q)
    if q2 is not q:
        return num.poly_inverse(q2)
    ctx = num.ctx()
    tab = ctx.__dict__.setdefault("_inv_table", {})
    key = q.key()
    if key in tab:
        return tab[key]
    if q.is_real():
        v = ctx.fresh("inv", nonzero=True)
        vp = Poly.var(v)
        ctx.defs.append(Cons(vp.mul(q).sub(Poly.const(1)), "=="))
        ctx.assumed.append(f"division: {_short(q)} != 0")
        tab[key] = vp
        return vp
    n2 = q.mul(q.conj())
    out = q.conj().mul(fresh_inverse(n2) if len(n2.t) > 1 or n2.variables() else num.poly_inverse(n2))
    tab[key] = out
    return out


def _const_positive(m):
    """m as Poly must be a positive 'constant': rational or rational multiple of pi"""
    p = m.p if isinstance(m, Sym) else num.lift(m)
    r = p.rational_value()
    if r is not None and r > 0:
        return p
    if len(p.t) == 1:
        (k, vs), c = next(iter(p.t.items()))
        if k == 0 and vs == ((num.ctx().pi, 1),) and c > 0:
            return p
    raise SymEscape(f"modulus {m!r} is not a positive constant")


def sym_floordiv(a, m):
    a = Sym.of(a)
    mp = _const_positive(m)
    if not a.p.variables() - {num.ctx().pi}:
        cv, mv = a.p.const_value(), mp.const_value()
        if cv is not None and mv is not None:
            import math
            return math.floor(cv.real / mv.real)
        import math
        return math.floor(a.p.evaluate({num.ctx().pi: math.pi}).real / mp.evaluate({num.ctx().pi: math.pi}).real)
    P = PATH
    lo, hi = (P.policy["mod_range"] if P else (-4, 4))
    if P is not None:
        msg = f"floor-division/modulo quotients explored in [{lo}, {hi}] only (inputs with other quotients are outside the claim)"
        if msg not in P.assumptions:
            P.assumptions.append(msg)
    alts = []
    for k in range(lo, hi + 1):
        r = a.p.sub(mp.scale(k))
        alts.append((smt.f_and(Cons(r, ">="), Cons(r.sub(mp), "<")), k))
    return decide(alts, "floordiv")


def sym_mod(a, m):
    a = Sym.of(a)
    if a._abs_of is not None and a._p is None:
        a = Sym(resolve_abs(a._abs_of))
    k = sym_floordiv(a, m)
    mp = _const_positive(m)
    return Sym(a.p.sub(mp.scale(k)))


def sym_round(x, nd=None):
    """round(x, nd) = n / 10^nd with integer n, |x*10^nd - n| <= 1/2"""
    cv = x.p.const_value()
    if cv is not None and x.p.rational_value() is not None:
        return round(float(x.p.rational_value()), nd)
    ctx = num.ctx()
    scale = F(10) ** (nd or 0)
    # round is a function: the same argument gets the same integer variable; the table also lets
    # harnesses state lemmas about rounded values (symx.circ.link_rounds)
    tab = ctx.__dict__.setdefault("_rounds", {})
    key = (x.p.key(), scale)
    if key in tab:
        return Sym(Poly.var(tab[key][1]).scale(1 / scale))
    n = ctx.fresh("round", integer=True)
    tab[key] = (x.p, n, scale)
    npoly = Poly.var(n)
    d = x.p.scale(scale).sub(npoly)
    ctx.defs.append(Cons(d.add(Poly.const(F(1, 2))), ">="))
    ctx.defs.append(Cons(d.sub(Poly.const(F(1, 2))), "<="))
    return Sym(npoly.scale(1 / scale))


def sym_trunc(x):
    """int(x) = t with integer t, truncation toward zero: x >= 0 -> t <= x < t+1 ; x < 0 -> t-1 < x <= t (sign forked)"""
    r = x.p.rational_value()
    if r is not None:
        import math
        return math.trunc(r)
    ctx = num.ctx()
    tab = ctx.__dict__.setdefault("_truncs", {})
    key = x.p.key()
    if key in tab:
        return Sym(Poly.var(tab[key]))
    nonneg = bool(cons_truth(x.p.real(), ">="))
    t = ctx.fresh("trunc", integer=True)
    tab[key] = t
    d = x.p.real().sub(Poly.var(t))                 # x - t
    if nonneg:
        ctx.defs.append(Cons(d, ">="))
        ctx.defs.append(Cons(d.sub(Poly.const(F(1))), "<"))
        ctx.defs.append(Cons(Poly.var(t), ">="))
    else:
        ctx.defs.append(Cons(d, "<="))
        ctx.defs.append(Cons(d.add(Poly.const(F(1))), ">"))
        ctx.defs.append(Cons(Poly.var(t), "<="))
    return Sym(Poly.var(t))


def sym_arccos(x):
    rule = num.ctx().__dict__.get("_arccos_rules", {}).get(x.p.key())
    if rule is not None:
        return Sym(rule)
    r = x.p.rational_value()
    if r is not None:
        import math
        return math.acos(float(r))
    raise SymEscape("arccos of a symbolic value without a cancellation rule")


def sym_arctan2(y, x):
    raise SymEscape("arctan2 of symbolic values")


def declare_arccos(cos_poly, angle_poly):
    """harness-level cancellation rule: arccos(cos_poly) = angle_poly (the harness guarantees angle in [0, pi])"""
    num.ctx().__dict__.setdefault("_arccos_rules", {})[cos_poly.key()] = angle_poly


def declare_angle(value_poly, angle_poly):
    """harness-level cancellation rule: np.angle(value_poly) = angle_poly (the harness guarantees
    value = rho * exp(i*angle) with rho > 0 and angle in (-pi, pi])"""
    num.ctx().__dict__.setdefault("_angle_rules", {})[value_poly.key()] = angle_poly


def sym_angle(x):
    """np.angle of a symbolic complex number: constants exactly, otherwise only through a declared rule"""
    p = x.p
    if not p.t:
        return 0.0
    rule = num.ctx().__dict__.get("_angle_rules", {}).get(p.key())
    if rule is not None:
        return Sym(rule)
    cv = p.const_value()
    if cv is not None:
        import cmath
        return cmath.phase(cv)
    raise SymEscape("np.angle of a symbolic value without a cancellation rule")


# ---------------------------------------------------------------- the explorer
def explore(fn, policy=None, max_paths=256, on_path=None):
    """Run fn() once per feasible path. fn receives nothing; it uses the module-level
    context.  Returns list of dict(pc, result|error, decisions, assumptions)."""
    global PATH
    todo = [[]]
    out = []
    while todo:
        if len(out) >= max_paths:
            out.append(dict(pc=[], error=("budget", f"more than {max_paths} paths"), decisions=None, assumptions=[]))
            break
        prefix = todo.pop()
        num.reset_ctx()
        PATH = Path(prefix, policy)
        rec = dict(decisions=None)
        try:
            res = fn()
            rec["result"] = res
        except Infeasible as e:
            rec["error"] = ("infeasible", str(e))
        except SymEscape as e:
            import traceback
            tb = traceback.extract_tb(e.__traceback__)
            where = ""
            for fr in reversed(tb):
                if "/tangelo/" in fr.filename and "/verif/" not in fr.filename:
                    where = f"{fr.filename}:{fr.lineno}"
                    break
            rec["error"] = ("escape", f"{e} @ {where}")
        except Exception as e:
            import traceback
            tb = traceback.extract_tb(e.__traceback__)
            where = ""
            for fr in reversed(tb):
                if "/tangelo/" in fr.filename and "/verif/" not in fr.filename:
                    where = f"{fr.filename}:{fr.lineno}"
                    break
            rec["error"] = ("exception", f"{type(e).__name__}: {e} @ {where}")
            rec["traceback"] = traceback.format_exc(limit=12)
        rec["pc"] = list(PATH.pc)
        rec["decisions"] = list(PATH.decisions)
        rec["assumptions"] = list(PATH.assumptions) + list(num.ctx().assumed)
        rec["ctx"] = num.ctx()
        rec["feas_queries"] = PATH.n_feas_queries
        todo += PATH.todo
        out.append(rec)
        if on_path:
            on_path(rec)
    PATH = None
    return out
