"""Exact symbolic numbers that are pushed through the real Tangelo code.

A value is an element of   Q(w)[x_1..x_k, 1/x_j][E_a^q]   where
  * w = exp(i*pi/N)  (N = 64; w^N = -1; basis 1..w^(N-1) over Q, so i, sqrt(2),
    cos(pi/8).. are exact),
  * x_j are real solver variables (inputs), possibly with negative exponents
    when declared non-zero (PI is one of them),
  * E_a = exp(i*a) for an "atom" a = monomial of real variables (an angle), with
    RATIONAL exponents q: exp(i*q*a).
Distinct monomials are linearly independent functions of the inputs, hence the
sparse dict {monomial: Fraction} is a unique normal form: an identity holds for
all inputs iff the difference is the empty dict.  The SMT layer (smt.py)
expands E_a^q into cos/sin variables with c^2+s^2=1 and hands impl/spec to z3.

Control flow on symbolic values goes through path.SymBool (forking explorer).
"""
import math
import numbers
from fractions import Fraction as F

N = 64                 # w = exp(i*pi/N)
HALF = N // 2          # w^HALF = i


class SymEscape(Exception):
    """A symbolic value reached code the engine cannot follow (float(), C code..).
    The obligation becomes INCONCLUSIVE; it is never reported as pass or violation."""


# ---------------------------------------------------------------- variables
class Ctx:
    """Per-execution table of solver variables."""

    def __init__(self):
        self.names = []      # index -> name
        self.kind = []       # 'real' | 'exp'
        self.info = []       # real: dict(nonzero, lo, hi, integer) ; exp: atom (tuple of (var,int))
        self.by_name = {}
        self.exp_of_atom = {}
        self.defs = []       # extra constraints: list of Cons (defining constraints of fresh vars)
        self.assumed = []    # human-readable assumptions taken by policies
        self.pi = self.real("pi", nonzero=True, lo=F(314159265358979, 10**14), hi=F(314159265358980, 10**14))
        self.fresh_n = 0

    def real(self, name, nonzero=False, lo=None, hi=None, integer=False):
        if name in self.by_name:
            return self.by_name[name]
        self.names.append(name)
        self.kind.append("real")
        self.info.append(dict(nonzero=nonzero, lo=lo, hi=hi, integer=integer))
        self.by_name[name] = len(self.names) - 1
        return len(self.names) - 1

    def expvar(self, atom):
        """variable standing for exp(i*atom), atom = tuple(sorted((realvar, intexp)))"""
        if atom in self.exp_of_atom:
            return self.exp_of_atom[atom]
        nm = "E[" + "*".join(f"{self.names[v]}^{e}" if e != 1 else self.names[v] for v, e in atom) + "]"
        self.names.append(nm)
        self.kind.append("exp")
        self.info.append(atom)
        self.exp_of_atom[atom] = len(self.names) - 1
        return len(self.names) - 1

    def fresh(self, prefix, **kw):
        self.fresh_n += 1
        return self.real(f"{prefix}!{self.fresh_n}", **kw)


CTX = Ctx()


def reset_ctx():
    global CTX
    CTX = Ctx()
    return CTX


def ctx():
    return CTX


# ---------------------------------------------------------------- polynomials
# monomial = (k, vars) ; k in [0,N) exponent of w ; vars = tuple(sorted((varid, exp)))
ONE_M = (0, ())


def _mono_mul(m1, m2):
    """returns (sign, monomial)"""
    k = m1[0] + m2[0]
    v1, v2 = m1[1], m2[1]
    if not v1:
        v = v2
    elif not v2:
        v = v1
    else:
        d = dict(v1)
        for a, e in v2:
            n = d.get(a, 0) + e
            if n == 0:
                d.pop(a, None)
            else:
                d[a] = n
        v = tuple(sorted(d.items()))
    sign = 1
    k %= 2 * N
    if k >= N:
        k -= N
        sign = -1
    return sign, (k, v)


class Poly:
    __slots__ = ("t",)

    def __init__(self, t=None):
        self.t = t if t is not None else {}

    # -- constructors
    @staticmethod
    def const(q):
        return Poly({ONE_M: F(q)}) if q != 0 else Poly()

    @staticmethod
    def var(v, e=1):
        return Poly({(0, ((v, e),)): F(1)})

    @staticmethod
    def w(k):
        """w^k"""
        k %= 2 * N
        s = 1
        if k >= N:
            k -= N
            s = -1
        return Poly({(k, ()): F(s)})

    def copy(self):
        return Poly(dict(self.t))

    # -- ring operations
    def add(a, b):
        if not b.t:
            return a
        if not a.t:
            return b
        t = dict(a.t)
        for m, c in b.t.items():
            n = t.get(m, 0) + c
            if n == 0:
                t.pop(m, None)
            else:
                t[m] = n
        return Poly(t)

    def neg(a):
        return Poly({m: -c for m, c in a.t.items()})

    def sub(a, b):
        return a.add(b.neg())

    def scale(a, q):
        if q == 0:
            return Poly()
        return Poly({m: c * q for m, c in a.t.items()})

    def mul(a, b):
        if not a.t or not b.t:
            return Poly()
        if len(a.t) > len(b.t):
            a, b = b, a
        t = {}
        for m1, c1 in a.t.items():
            for m2, c2 in b.t.items():
                s, m = _mono_mul(m1, m2)
                n = t.get(m, 0) + (c1 * c2 if s == 1 else -(c1 * c2))
                if n == 0:
                    t.pop(m, None)
                else:
                    t[m] = n
        return Poly(t)

    def conj(a):
        t = {}
        for (k, vs), c in a.t.items():
            nv = tuple((v, -e) if CTX.kind[v] == "exp" else (v, e) for v, e in vs)
            if k == 0:
                m, s = (0, nv), 1
            else:
                m, s = (N - k, nv), -1      # w^-k = -w^(N-k)
            n = t.get(m, 0) + (c if s == 1 else -c)
            if n == 0:
                t.pop(m, None)
            else:
                t[m] = n
        return Poly(t)

    def real(a):
        return a.add(a.conj()).scale(F(1, 2))

    def imag(a):
        # (a - conj a) / (2i) ;  1/i = -i = -w^HALF
        d = a.sub(a.conj()).scale(F(1, 2))
        return d.mul(Poly.w(-HALF))

    def is_zero(a):
        return not a.t

    def is_real(a):
        return a.sub(a.conj()).is_zero()

    def const_value(a):
        """complex value if the poly has no variables, else None"""
        z = 0j
        for (k, vs), c in a.t.items():
            if vs:
                return None
            z += float(c) * complex(math.cos(math.pi * k / N), math.sin(math.pi * k / N)) if k else float(c)
        return z

    def rational_value(a):
        """Fraction if the poly is a rational constant, else None"""
        if not a.t:
            return F(0)
        if len(a.t) == 1 and ONE_M in a.t:
            return a.t[ONE_M]
        return None

    def variables(a):
        s = set()
        for (k, vs) in a.t:
            for v, e in vs:
                s.add(v)
        return s

    def key(a):
        return tuple(sorted(a.t.items()))

    def evaluate(a, val):
        """numeric evaluation; val: varid -> float (real vars) ; exp vars computed from atoms"""
        z = 0j
        for (k, vs), c in a.t.items():
            t = complex(float(c))
            if k:
                t *= complex(math.cos(math.pi * k / N), math.sin(math.pi * k / N))
            for v, e in vs:
                if CTX.kind[v] == "real":
                    t *= val[v] ** int(e)
                else:
                    ang = 1.0
                    for rv, re_ in CTX.info[v]:
                        ang *= val[rv] ** int(re_)
                    ang *= float(e)
                    t *= complex(math.cos(ang), math.sin(ang))
            z += t
        return z

    def __repr__(a):
        if not a.t:
            return "0"
        out = []
        for (k, vs), c in sorted(a.t.items(), key=lambda kv: (kv[0][1], kv[0][0]))[:40]:
            s = str(c)
            if k:
                s += f"*w^{k}" if k != HALF else "*i"
            for v, e in vs:
                s += f"*{CTX.names[v]}" + (f"^{e}" if e != 1 else "")
            out.append(s)
        if len(a.t) > 40:
            out.append(f"...({len(a.t)} terms)")
        return " + ".join(out)


I_POLY = Poly.w(HALF)

# ---------------------------------------------------------------- float lifting
TINY_LITERAL = 1e-6
_COS = [math.cos(math.pi * k / N) for k in range(N)]
_LIFT_CACHE = {}


def _simple_rational(r, maxden=96, maxnum=4096, tol=4e-15):
    fr = F(r).limit_denominator(maxden)
    if abs(fr.numerator) <= maxnum and abs(float(fr) - r) <= tol * max(1.0, abs(r)):
        return fr
    return None


def lift_float(x):
    """float -> Poly, recognising exact rationals, rational multiples of pi, and
    rational multiples of cos(k*pi/N) (sqrt(2)/2 ...).  Anything else is the
    exact binary rational of the float (real-number semantics of the code)."""
    x = float(x)
    if x == 0.0:
        return Poly()
    if abs(x) <= TINY_LITERAL:
        # tiny literals (drop thresholds such as 1e-10) stay identifiable: a variable with a fixed value
        v = CTX.real(f"tiny[{abs(x)!r}]", lo=F(abs(x)), hi=F(abs(x)), nonzero=True)
        CTX.info[v]["value"] = abs(x)
        CTX.info[v]["tiny"] = True
        return Poly({(0, ((v, 1),)): F(1 if x > 0 else -1)})
    c = _LIFT_CACHE.get(x)
    if c is not None:
        return c
    res = None
    if x != x or x in (math.inf, -math.inf):
        raise SymEscape(f"non-finite float {x} mixed with symbolic value")
    fr = F(x).limit_denominator(10 ** 6)
    if float(fr) == x:
        res = Poly.const(fr)
    if res is None:
        # a float within a few ulp of a simple rational IS that rational in real-number semantics
        # (e.g. sqrt(.5)*sqrt(.5) = 0.5000000000000001, 0.1+0.2)
        r = _simple_rational(x, maxden=64, maxnum=4096, tol=1e-15)
        if r is not None:
            res = Poly.const(r)
    if res is None:
        r = _simple_rational(x / math.pi, maxden=64)
        if r is not None and abs(r) <= 256:
            res = Poly({(0, ((CTX.pi, 1),)): r})
    if res is None:
        for k in range(1, HALF):
            r = _simple_rational(x / _COS[k], maxden=64, maxnum=256)
            if r is not None:
                # cos(k pi/N) = (w^k + w^-k)/2
                res = Poly.w(k).add(Poly.w(-k)).scale(r / 2)
                break
    if res is None:
        res = Poly.const(F(x))
    # the pi-poly depends on CTX.pi index, which is constant (0) by construction
    _LIFT_CACHE[x] = res
    return res


def lift(x):
    """anything numeric -> Poly (or None if x is not a number we understand)"""
    if isinstance(x, Sym):
        return x.p
    if isinstance(x, bool):
        return Poly.const(int(x))
    if isinstance(x, numbers.Integral):
        return Poly.const(int(x))
    if isinstance(x, F):
        return Poly.const(x)
    if isinstance(x, numbers.Real):
        return lift_float(float(x))
    if isinstance(x, numbers.Complex):
        z = complex(x)
        re, im = lift_float(z.real), lift_float(z.imag)
        return re.add(im.mul(I_POLY)) if im.t else re
    try:
        import sympy
        if isinstance(x, sympy.Basic) and x.is_number:
            return lift(complex(x))
    except Exception:
        pass
    return None


# ---------------------------------------------------------------- Sym
def _is_arraylike(o):
    return hasattr(o, "__array__") or isinstance(o, (list, tuple))


class Sym:
    """A complex (often real) exact symbolic number. Immutable."""
    __slots__ = ("_p", "_abs_of")
    __array_priority__ = 1000.0

    def __init__(self, p, abs_of=None):
        self._p = p
        self._abs_of = abs_of      # if set: this value IS |abs_of| (a Poly); _p resolved lazily

    @property
    def p(self):
        if self._p is None:
            from . import path
            self._p = path.resolve_abs(self._abs_of)
        return self._p

    # ---- helpers
    @staticmethod
    def of(x):
        if isinstance(x, Sym):
            return x
        if hasattr(x, "ndim") and hasattr(x, "item") and getattr(x, "ndim", 1) == 0:
            return Sym.of(x.item())       # 0-d numpy array (e.g. np.sum over an object array subclass)
        p = lift(x)
        if p is None:
            raise TypeError(f"cannot lift {type(x)} to Sym")
        return Sym(p)

    def _arr(self, o, f):
        """elementwise operation with a numpy array / list operand"""
        if not _is_arraylike(o):
            return NotImplemented
        import numpy as _np
        from .shim import SymArray
        a = _np.asarray(o, dtype=object)
        out = _np.empty(a.shape, dtype=object)
        of, af = out.reshape(-1), a.reshape(-1)
        for i in range(len(af)):
            of[i] = f(af[i])
        return out.view(SymArray)

    def _co(self, o):
        if isinstance(o, Sym):
            return o.p
        if isinstance(o, numbers.Number):      # includes numpy scalars (which also expose __array__)
            return lift(o)
        if _is_arraylike(o):
            return None
        return lift(o)

    # ---- arithmetic
    def __add__(self, o):
        q = self._co(o)
        if q is None:
            return self._arr(o, lambda x: self + x)
        return Sym(self.p.add(q))
    __radd__ = __add__

    def __sub__(self, o):
        q = self._co(o)
        if q is None:
            return self._arr(o, lambda x: self - x)
        return Sym(self.p.sub(q))

    def __rsub__(self, o):
        q = self._co(o)
        if q is None:
            return self._arr(o, lambda x: x - self)
        return Sym(q.sub(self.p))

    def __neg__(self):
        return Sym(self.p.neg())

    def __pos__(self):
        return self

    def __mul__(self, o):
        q = self._co(o)
        if q is None:
            return self._arr(o, lambda x: self * x)
        return Sym(self.p.mul(q))
    __rmul__ = __mul__

    def __truediv__(self, o):
        q = self._co(o)
        if q is None:
            return self._arr(o, lambda x: self / x)
        return Sym(self.p.mul(poly_inverse(q)))

    def __rtruediv__(self, o):
        q = self._co(o)
        if q is None:
            return self._arr(o, lambda x: x / self)
        return Sym(q.mul(poly_inverse(self.p)))

    def __pow__(self, e):
        if isinstance(e, Sym):
            r = e.p.rational_value()
            if r is None:
                raise SymEscape("symbolic exponent")
            e = r
        if isinstance(e, float) and e == int(e):
            e = int(e)
        if isinstance(e, numbers.Integral):
            e = int(e)
            if e == 2 and self._abs_of is not None:
                a = self._abs_of
                sq = a.mul(a.conj())
                CTX.__dict__.setdefault("nonneg", set()).add(sq.key())
                return Sym(sq)
            if e < 0:
                return Sym.of(1) / (self ** (-e))
            out, base = Poly.const(1), self.p
            while e:
                if e & 1:
                    out = out.mul(base)
                base = base.mul(base) if e > 1 else base
                e >>= 1
            return Sym(out)
        if e == 0.5 or e == F(1, 2):
            return self.sqrt()
        raise SymEscape(f"power {e!r} of symbolic value")

    def __rpow__(self, b):
        r = self.p.rational_value()
        if r is not None and r.denominator == 1:
            return Sym.of(b) ** int(r)
        raise SymEscape("symbolic exponent")

    def __mod__(self, m):
        from . import path
        return path.sym_mod(self, m)

    def __rmod__(self, a):
        from . import path
        return path.sym_mod(Sym.of(a), self)

    def __floordiv__(self, m):
        from . import path
        return path.sym_floordiv(self, m)

    def __round__(self, nd=None):
        from . import path
        return path.sym_round(self, nd)

    # ---- complex structure
    def conjugate(self):
        return Sym(self.p.conj())
    conj = conjugate

    @property
    def real(self):
        return Sym(self.p.real())

    @property
    def imag(self):
        return Sym(self.p.imag())

    def is_real(self):
        return self.p.is_real()

    def __abs__(self):
        from . import path
        return path.sym_abs(self)

    # ---- numpy ufunc method names (object arrays dispatch to these)
    def sqrt(self):
        from . import path
        return path.sym_sqrt(self)

    def exp(self):
        """exp(z) only for purely imaginary z = i*theta"""
        th = self.p.mul(Poly.w(-HALF))      # z / i
        if not th.is_real():
            raise SymEscape("exp of a value that is not purely imaginary")
        return Sym(cis_poly(th))

    def cos(self):
        e = cis_poly(self._need_real("cos"))
        return Sym(e.add(e.conj()).scale(F(1, 2)))

    def sin(self):
        e = cis_poly(self._need_real("sin"))
        return Sym(e.sub(e.conj()).scale(F(1, 2)).mul(Poly.w(-HALF)))

    def _need_real(self, what):
        if not self.p.is_real():
            raise SymEscape(f"{what} of non-real symbolic value")
        return self.p

    def arccos(self):
        from . import path
        return path.sym_arccos(self)

    def arctan2(self, other):
        from . import path
        return path.sym_arctan2(self, other)

    def __bool__(self):
        from . import path
        return path.sym_truth(self)

    # ---- comparisons (delegated to path: produce SymBool or bool)
    def _cmp(self, o, op):
        from . import path
        q = self._co(o)
        if q is None:
            return NotImplemented
        return path.compare(self, Sym(q) if not isinstance(o, Sym) else o, op)

    def __lt__(self, o): return self._cmp(o, "<")
    def __le__(self, o): return self._cmp(o, "<=")
    def __gt__(self, o): return self._cmp(o, ">")
    def __ge__(self, o): return self._cmp(o, ">=")

    def __eq__(self, o):
        if isinstance(o, str) or o is None:
            return False
        r = self._cmp(o, "==")
        return False if r is NotImplemented else r

    def __ne__(self, o):
        if isinstance(o, str) or o is None:
            return True
        r = self._cmp(o, "!=")
        return True if r is NotImplemented else r

    def __hash__(self):
        v = self.p.const_value()
        if v is None:
            raise SymEscape("hash() of a symbolic value")
        return hash(v if abs(v.imag) > 0 else v.real)

    # ---- realisation
    def _const(self, what):
        v = self.p.const_value()
        if v is None:
            raise SymEscape(f"{what}() of a symbolic value: {self!r}")
        return v

    def __float__(self):
        v = self._const("float")
        if abs(v.imag) > 1e-300:
            raise TypeError("can't convert complex to float")
        return v.real

    def __complex__(self):
        return self._const("complex")

    def __int__(self):
        if self.p.const_value() is None:
            from . import path
            if path.PATH is not None:
                # int() must return an int: the symbolic truncation is only available through shim.sym_int
                raise SymEscape(f"int() of a symbolic value: {self!r}")
        return int(self.__float__())

    def __index__(self):
        r = self.p.rational_value()
        if r is None or r.denominator != 1:
            raise SymEscape("index() of a symbolic value")
        return int(r)

    def __repr__(self):
        return f"Sym({self.p!r})"

    def __format__(self, spec):
        v = self.p.const_value()
        if v is None:
            return format(repr(self), "")
        return format(v.real if abs(v.imag) == 0 else v, spec)

    def __deepcopy__(self, memo):
        return self

    def __copy__(self):
        return self


def poly_inverse(q):
    """1/q for single-term polys whose variables are exp vars or non-zero reals,
    and for constants; otherwise a fresh variable with q*v = 1."""
    if not q.t:
        raise ZeroDivisionError("division by an exactly-zero symbolic value")
    if len(q.t) == 1:
        (k, vs), c = next(iter(q.t.items()))
        ok = True
        for v, e in vs:
            if CTX.kind[v] != "exp" and not CTX.info[v]["nonzero"]:
                # a division executes only when the divisor is non-zero: record it as a path assumption
                CTX.info[v]["nonzero"] = True
                msg = f"division by {CTX.names[v]}: assumed non-zero"
                if msg not in CTX.assumed:
                    CTX.assumed.append(msg)
        if ok:
            nv = tuple((v, -e) for v, e in vs)
            out = Poly({(0, nv): 1 / c})
            return out.mul(Poly.w(-k)) if k else out
    cv = None
    if not q.variables():
        # constant in Q(w): invert via conjugate products is overkill; use norm trick for real constants
        r = q.rational_value()
        if r is not None:
            return Poly.const(1 / r)
        # q * conj(q) is real in Q(w+w^-1); try a few steps
        qq = q.mul(q.conj())
        r = qq.rational_value()
        if r is not None:
            return q.conj().scale(1 / r)
        # general element: solve linear system numerically-exactly via rational linear algebra
        inv = _cyclo_inverse(q)
        if inv is not None:
            return inv
    from . import path
    return path.fresh_inverse(q)


def _cyclo_inverse(q):
    """inverse of a constant element of Q(w) by solving q*x = 1 (N x N rational system)."""
    col = {}
    rows = {}
    for j in range(N):
        prod = q.mul(Poly.w(j))
        for (k, vs), c in prod.t.items():
            rows.setdefault(k, {})[j] = c
    # Gaussian elimination on N x N
    A = [[rows.get(i, {}).get(j, F(0)) for j in range(N)] + [F(1) if i == 0 else F(0)] for i in range(N)]
    n = N
    r = 0
    piv = []
    for c in range(n):
        p = None
        for i in range(r, n):
            if A[i][c] != 0:
                p = i
                break
        if p is None:
            return None
        A[r], A[p] = A[p], A[r]
        inv = 1 / A[r][c]
        A[r] = [a * inv for a in A[r]]
        for i in range(n):
            if i != r and A[i][c] != 0:
                f = A[i][c]
                A[i] = [a - f * b for a, b in zip(A[i], A[r])]
        piv.append(c)
        r += 1
    out = Poly()
    for i, c in enumerate(piv):
        if A[i][n] != 0:
            out = out.add(Poly.w(c).scale(A[i][n]))
    return out


def cis_poly(th):
    """exp(i*th) for a REAL poly th that is a Q-linear form over atoms and pi."""
    out = Poly.const(1)
    for (k, vs), c in th.t.items():
        if k != 0:
            raise SymEscape("angle with irrational algebraic constant part (not a multiple of pi)")
        if any(CTX.kind[v] == "exp" for v, e in vs):
            raise SymEscape("angle depending on a trigonometric value (nested trig)")
        if vs == ((CTX.pi, 1),):
            kk = c * N
            if kk.denominator != 1:
                raise SymEscape(f"angle {c}*pi is not a multiple of pi/{N}")
            out = out.mul(Poly.w(int(kk)))
            continue
        atom = vs            # () = the constant-radian atom
        ev = CTX.expvar(atom)
        out = out.mul(Poly({(0, ((ev, c),)): F(1)}))
    return out


def cis(x):
    """exp(i*x) for Sym or float"""
    if isinstance(x, Sym):
        if not x.p.is_real():
            raise SymEscape("cis of non-real")
        return Sym(cis_poly(x.p))
    return complex(math.cos(x), math.sin(x))


def cos(x):
    return x.cos() if isinstance(x, Sym) else math.cos(x)


def sin(x):
    return x.sin() if isinstance(x, Sym) else math.sin(x)


def sqrt(x):
    if isinstance(x, Sym):
        return x.sqrt()
    return math.sqrt(x) if not isinstance(x, complex) else x ** 0.5


def conj(x):
    return x.conjugate() if hasattr(x, "conjugate") else x


def is_sym(x):
    return isinstance(x, Sym)


def real_var(name, **kw):
    return Sym(Poly.var(CTX.real(name, **kw)))


PI = math.pi


def sym_pi():
    return Sym(Poly.var(CTX.pi))
