"""Textbook second quantisation on occupation-number vectors (the oracle for C03/C05/C12).

Written from the definitions, independent of Tangelo and openfermion:

  * a determinant is an occupation vector f = (f_0 .. f_{n-1}), f_p in {0,1};  |f> = prod_{p: f_p=1, ascending} a_p^+ |0>
  * a_p^+ |f> = (1-f_p) (-1)^{sum_{k<p} f_k} |f + e_p>,      a_p |f> = f_p (-1)^{sum_{k<p} f_k} |f - e_p>
  * an operator is a dict  {((p,1),(q,0),..): coef}  (1 = creation, 0 = annihilation; the RIGHTMOST factor acts first),
    the same layout as FermionOperator.terms, so the `.terms` of an operator built by the real code can be applied here.
  * spin-orbital orderings: interleaved (up_then_down=False): index 2*i+s ; up_then_down=True: index i + s*n_orbs
    (i = spatial orbital, s = 0 alpha/up, 1 beta/down).
  * N = sum_p n_p,  S_z = 1/2 sum_i (n_{i,alpha} - n_{i,beta}),  S_+ = sum_i a^+_{i alpha} a_{i beta},  S_- = (S_+)^+,
    S^2 = S_- S_+ + S_z (S_z + 1).
  * Slater-Condon rules for H = E0 + sum h_pq a_p^+ a_q + 1/2 sum <pq|rs> a_p^+ a_q^+ a_s a_r  given by SPATIAL integrals
    h[i][j] and chemists' (ij|kl).

The bit operations go through a small "bit algebra" B so that the same definitions run on Python ints (PyBits) and on
solver terms (symx.paulibv.Z3Bits).
"""
from fractions import Fraction as F


class PyBits:
    """bit algebra on Python bools / 0-1 ints"""
    TRUE, FALSE = True, False

    @staticmethod
    def not_(a):
        return not a

    @staticmethod
    def and_(a, b):
        return bool(a) and bool(b)

    @staticmethod
    def xor(a, b):
        return bool(a) != bool(b)


# ---------------------------------------------------------------- orderings
def so_index(i, s, n_orbs, up_then_down=False):
    """spin-orbital index of spatial orbital i with spin s (0 = alpha/up, 1 = beta/down)"""
    return i + s * n_orbs if up_then_down else 2 * i + s


def so_split(p, n_so, up_then_down=False):
    """(spatial orbital, spin) of spin-orbital index p"""
    n_orbs = n_so // 2
    return (p % n_orbs, p // n_orbs) if up_then_down else (p // 2, p % 2)


def interleaved_to_updown(p, n_so):
    """position, in the all-up-then-all-down ordering, of interleaved index p.  n_so even: alpha i -> i, beta i -> n/2+i."""
    half = (n_so + 1) // 2
    return p // 2 + (p % 2) * half


def reorder_vector(f, n_so=None):
    """interleaved occupation vector -> up-then-down occupation vector"""
    f = list(f)
    n = len(f)
    g = [0] * n
    for p in range(n):
        g[interleaved_to_updown(p, n)] = f[p]
    return tuple(g)


def relabel_terms(terms, n_so):
    """operator written with interleaved indices -> same operator with up-then-down indices"""
    out = {}
    for term, c in terms.items():
        t = tuple((interleaved_to_updown(p, n_so), d) for p, d in term)
        out[t] = out.get(t, 0) + c
    return out


# ---------------------------------------------------------------- ladder action
def apply_ladder(bits, p, dagger, B=PyBits):
    """a_p^+ (dagger=1) or a_p (dagger=0) on |bits>.  Returns (cond, parity, newbits): the result is
    [cond] (-1)^parity |newbits>  (zero when cond is false)."""
    bits = list(bits)
    par = B.FALSE
    for k in range(p):
        par = B.xor(par, bits[k])
    if dagger:
        cond = B.not_(bits[p])
        bits[p] = B.TRUE
    else:
        cond = bits[p]
        bits[p] = B.FALSE
    return cond, par, bits


def apply_monomial(bits, term, B=PyBits):
    """product of ladder operators (rightmost first) on |bits> -> (cond, parity, newbits)"""
    cond, par = B.TRUE, B.FALSE
    cur = list(bits)
    for p, d in reversed(term):
        c, s, cur = apply_ladder(cur, p, d, B)
        cond = B.and_(cond, c)
        par = B.xor(par, s)
    return cond, par, cur


def flip_mask(term, n):
    """which occupation bits a monomial changes WHEN it does not annihilate the state (concrete 0/1 tuple)"""
    m = [0] * n
    for p, d in term:
        m[p] ^= 1
    return tuple(m)


def apply_operator(terms, f):
    """operator dict on a concrete determinant f (tuple of 0/1) -> {f': coefficient}"""
    out = {}
    f = tuple(int(x) for x in f)
    for term, c in terms.items():
        cond, par, g = apply_monomial([bool(x) for x in f], term)
        if not cond:
            continue
        g = tuple(int(x) for x in g)
        v = -c if par else c
        if g in out:
            out[g] = out[g] + v
        else:
            out[g] = v
    return out


# ---------------------------------------------------------------- operator algebra on dicts (no re-ordering at all)
def op_add(a, b, ca=1, cb=1):
    out = {}
    for src, k in ((a, ca), (b, cb)):
        for t, c in src.items():
            out[t] = out.get(t, 0) + k * c
    return out


def op_scale(a, k):
    return {t: k * c for t, c in a.items()}


def op_mul(a, b):
    """operator product: monomials are concatenated (a's factors to the left: b acts first)"""
    out = {}
    for ta, ca in a.items():
        for tb, cb in b.items():
            t = tuple(ta) + tuple(tb)
            out[t] = out.get(t, 0) + ca * cb
    return out


def op_dagger(a, conj=lambda c: c.conjugate() if hasattr(c, "conjugate") else c):
    return {tuple((p, 1 - d) for p, d in reversed(t)): conj(c) for t, c in a.items()}


# ---------------------------------------------------------------- symmetry operators
def number_terms(n_orbs, up_then_down=False):
    return {((p, 1), (p, 0)): F(1) for p in range(2 * n_orbs)}


def sz_terms(n_orbs, up_then_down=False):
    out = {}
    for i in range(n_orbs):
        a, b = so_index(i, 0, n_orbs, up_then_down), so_index(i, 1, n_orbs, up_then_down)
        out[((a, 1), (a, 0))] = F(1, 2)
        out[((b, 1), (b, 0))] = F(-1, 2)
    return out


def s_plus_terms(n_orbs, up_then_down=False):
    return {((so_index(i, 0, n_orbs, up_then_down), 1), (so_index(i, 1, n_orbs, up_then_down), 0)): F(1) for i in range(n_orbs)}


def s_minus_terms(n_orbs, up_then_down=False):
    return {((so_index(i, 1, n_orbs, up_then_down), 1), (so_index(i, 0, n_orbs, up_then_down), 0)): F(1) for i in range(n_orbs)}


def s2_terms(n_orbs, up_then_down=False):
    """S^2 = S_- S_+ + S_z (S_z + 1) as a (not normal-ordered) operator dict"""
    sz = sz_terms(n_orbs, up_then_down)
    return op_add(op_add(op_mul(s_minus_terms(n_orbs, up_then_down), s_plus_terms(n_orbs, up_then_down)), op_mul(sz, sz)), sz)


def n_electrons(f):
    return sum(int(x) for x in f)


def n_alpha_beta(f, up_then_down=False):
    n = len(f)
    na = sum(int(f[p]) for p in range(n) if so_split(p, n, up_then_down)[1] == 0)
    return na, n_electrons(f) - na


def sz_value(f, up_then_down=False):
    na, nb = n_alpha_beta(f, up_then_down)
    return F(na - nb, 2)


def s2_apply(f, up_then_down=False):
    """S^2 |f> as {f': coef}, from S_- S_+ + S_z(S_z+1) applied step by step"""
    n_orbs = len(f) // 2
    out = {}
    for g, c in apply_operator(s_plus_terms(n_orbs, up_then_down), f).items():
        for h, d in apply_operator(s_minus_terms(n_orbs, up_then_down), g).items():
            out[h] = out.get(h, 0) + c * d
    m = sz_value(f, up_then_down)
    f = tuple(int(x) for x in f)
    out[f] = out.get(f, 0) + m * (m + 1)
    return {k: v for k, v in out.items() if v != 0}


# ---------------------------------------------------------------- molecular Hamiltonians
def molecular_hamiltonian_terms(const, h, eri, n_orbs, up_then_down=False):
    """H = const + sum_{ij,s} h[i][j] a+_{is} a_{js} + 1/2 sum_{ijkl,s,t} (ij|kl) a+_{is} a+_{kt} a_{lt} a_{js}
    (chemists' notation (ij|kl) = eri[i][j][k][l]) as an operator dict."""
    out = {(): const}
    rng = range(n_orbs)
    for i in rng:
        for j in rng:
            for s in (0, 1):
                t = ((so_index(i, s, n_orbs, up_then_down), 1), (so_index(j, s, n_orbs, up_then_down), 0))
                out[t] = out.get(t, 0) + h[i][j]
    for i in rng:
        for j in rng:
            for k in rng:
                for l in rng:
                    for s in (0, 1):
                        for t in (0, 1):
                            key = ((so_index(i, s, n_orbs, up_then_down), 1), (so_index(k, t, n_orbs, up_then_down), 1),
                                   (so_index(l, t, n_orbs, up_then_down), 0), (so_index(j, s, n_orbs, up_then_down), 0))
                            out[key] = out.get(key, 0) + eri[i][j][k][l] * F(1, 2)
    return out


def slater_condon_row(f, const, h, eri, up_then_down=False):
    """{f': <f'|H|f>} by the Slater-Condon rules (0, 1 or 2 spin-orbital substitutions), H as in
    molecular_hamiltonian_terms.  Independent of the operator route: uses only the integrals and the sign of the
    excitation operator that connects the two determinants."""
    f = tuple(int(x) for x in f)
    n = len(f)
    occ = [p for p in range(n) if f[p]]
    vir = [p for p in range(n) if not f[p]]

    def sp(p):
        return so_split(p, n, up_then_down)

    def h1(p, q):
        (i, s), (j, t) = sp(p), sp(q)
        return h[i][j] if s == t else 0

    def phys(p, q, r, s_):
        """<pq|rs> = (pr|qs)"""
        (i, a), (j, b), (k, c), (l, d) = sp(p), sp(q), sp(r), sp(s_)
        return eri[i][k][j][l] if (a == c and b == d) else 0

    def anti(p, q, r, s_):
        return phys(p, q, r, s_) - phys(p, q, s_, r)

    out = {}
    # no substitution
    e = const
    for p in occ:
        e = e + h1(p, p)
    for a_ in range(len(occ)):
        for b_ in range(a_ + 1, len(occ)):
            e = e + anti(occ[a_], occ[b_], occ[a_], occ[b_])
    out[f] = e
    # one substitution q -> p
    for q in occ:
        for p in vir:
            cond, par, g = apply_monomial([bool(x) for x in f], ((p, 1), (q, 0)))
            g = tuple(int(x) for x in g)
            v = h1(p, q)
            for k in occ:
                v = v + anti(p, k, q, k)
            out[g] = -v if par else v
    # two substitutions (r<s) -> (p<q):  <f'|H|f> = Gamma <pq||rs>,  a+_p a+_q a_s a_r |f> = Gamma |f'>
    for a_ in range(len(occ)):
        for b_ in range(a_ + 1, len(occ)):
            r, s_ = occ[a_], occ[b_]
            for c_ in range(len(vir)):
                for d_ in range(c_ + 1, len(vir)):
                    p, q = vir[c_], vir[d_]
                    cond, par, g = apply_monomial([bool(x) for x in f], ((p, 1), (q, 1), (s_, 0), (r, 0)))
                    g = tuple(int(x) for x in g)
                    v = anti(p, q, r, s_)
                    out[g] = -v if par else v
    return out


def determinants(n, n_elec=None):
    """all occupation vectors of n spin-orbitals (optionally with a fixed electron number)"""
    import itertools
    for f in itertools.product((0, 1), repeat=n):
        if n_elec is None or sum(f) == n_elec:
            yield f
