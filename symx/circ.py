"""Helpers shared by the circuit-level harnesses (C09, C11): value snapshots of Tangelo circuits, the oracle's
view of a gate list on a dense register, a reference re-computation of the circuit metadata that is independent
of Circuit's incremental bookkeeping, and sound real-analysis lemmas that tie the VALUE of a (small) angle to its
(cos, sin) pair (the engine itself only knows c^2+s^2=1)."""
from fractions import Fraction as F

from . import num, path, smt, refsem as R
from .num import Sym, Poly
from .smt import Cons


# ---------------------------------------------------------------- snapshots
def gate_tuple(g):
    return (g.name, tuple(g.target), None if g.control is None else tuple(g.control), g.parameter, bool(g.is_variational))


def gate_tuples(circuit):
    return [gate_tuple(g) for g in circuit._gates]


def param_same(a, b):
    """value equality of two gate parameters without forking (Sym: identical normal form)"""
    if isinstance(a, Sym) or isinstance(b, Sym):
        try:
            return Sym.of(a).p.sub(Sym.of(b).p).is_zero()
        except TypeError:
            return False
    if type(a) is not type(b) and not (isinstance(a, (int, float)) and isinstance(b, (int, float))):
        return False
    try:
        return bool(a == b)
    except Exception:
        return a is b


def param_repr(p):
    if isinstance(p, Sym):
        return repr(p.p)
    return f"{type(p).__name__}:{p!r}"


def gates_same(A, B):
    """None if the two lists of gate tuples are equal as values, else a description of the first difference"""
    if len(A) != len(B):
        return f"{len(A)} gates vs {len(B)} gates"
    for i, (x, y) in enumerate(zip(A, B)):
        if x[:3] != y[:3] or x[4] != y[4]:
            return f"gate {i}: {x[:3] + (x[4],)} vs {y[:3] + (y[4],)}"
        if not param_same(x[3], y[3]):
            return f"gate {i} ({x[0]}) parameter {param_repr(x[3])} vs {param_repr(y[3])}"
    return None


BOOK = ("_qubits_simulated", "_qubit_indices", "_gate_counts", "_n_qubit_gate_counts", "name")


def snapshot(circuit):
    """value snapshot: gates (names, qubits, parameter expressions, variational flag) + bookkeeping fields"""
    d = circuit.__dict__
    book = {}
    for k in BOOK:
        v = d.get(k)
        book[k] = set(v) if isinstance(v, set) else (dict(v) if isinstance(v, dict) else v)
    book["n_variational"] = len(d.get("_variational_gates", []))
    return dict(gates=gate_tuples(circuit), book=book)


def snapshot_diff(s1, s2):
    g = gates_same(s1["gates"], s2["gates"])
    if g:
        return g
    for k, v in s1["book"].items():
        if s2["book"].get(k) != v:
            return f"{k}: {v!r} -> {s2['book'].get(k)!r}"
    return None


def check_unchanged(env, before, circuit, label):
    diff = snapshot_diff(before, snapshot(circuit))
    env.check_true(diff is None, label, detail=f"input changed: {diff}")


# ---------------------------------------------------------------- oracle view
def used_qubits(gts):
    s = set()
    for (nm, tg, ct, pa, _v) in gts:
        s |= set(tg) | set(ct or ())
    return s


def remap(gts, mapping):
    return [(nm, tuple(mapping[q] for q in tg), None if ct is None else tuple(mapping[q] for q in ct), pa, v)
            for (nm, tg, ct, pa, v) in gts]


def unitary(gts, n):
    """columns of the refsem unitary of a list of gate tuples on an n-qubit register (flattened)"""
    gl = [(nm, list(tg), None if ct is None else list(ct), (None if (isinstance(pa, str) and pa == "") else pa))
          for (nm, tg, ct, pa, _v) in gts]
    U = R.unitary(gl, n)
    return [x for col in U for x in col]


def dense(qubits):
    """sorted qubit labels -> 0..m-1"""
    return {q: i for i, q in enumerate(sorted(qubits))}


# ---------------------------------------------------------------- reference metadata (C11)
def ref_metadata(gts, n_qubits=None):
    """width, size, counts, counts_n_qubit, is_variational, is_mixed_state, depth recomputed from the gate list.
    Written from the documentation of Circuit (width = highest index + 1, or the fixed n_qubits; depth = number of
    moments when every gate is placed in the earliest moment after the last one touching any of its qubits)."""
    counts, arity = {}, {}
    hi = -1
    front = {}
    depth = 0
    for (nm, tg, ct, pa, v) in gts:
        qs = list(tg) + list(ct or ())
        counts[nm] = counts.get(nm, 0) + 1
        arity[len(qs)] = arity.get(len(qs), 0) + 1
        hi = max([hi] + qs)
        lvl = 1 + max([front.get(q, 0) for q in qs] + [0])
        for q in qs:
            front[q] = lvl
        depth = max(depth, lvl)
    width = hi + 1
    if n_qubits:
        width = max(width, n_qubits)
    return dict(width=width, size=len(gts), counts=counts, counts_n_qubit=arity,
                is_variational=any(g[4] for g in gts),
                is_mixed_state=("MEASURE" in counts or "CMEASURE" in counts), depth=depth)


def reported_metadata(c):
    return dict(width=c.width, size=c.size, counts=dict(c.counts), counts_n_qubit=dict(c.counts_n_qubit),
                is_variational=bool(c.is_variational), is_mixed_state=bool(c.is_mixed_state), depth=c.depth())


# ---------------------------------------------------------------- lemmas (sound facts about real numbers)
def _sq_le(env, a, b, why):
    """assume a^2 <= b^2 for real Sym a, b"""
    env.assume(Cons((b * b - a * a).p.real(), ">="), why)


def small_angle_lemmas(env, beta, why="", full=True, half=True):
    """for the real value beta (a Q-linear form in angle inputs and pi):
         sin(beta/2)^2 <= beta^2/4,  1 - cos(beta/2) <= beta^2/8      (half=True)
         sin(beta)^2   <= beta^2,    1 - cos(beta)   <= beta^2/2       (full=True)
    true for every real beta.  In symbolic mode they are added to the path condition; nothing in concrete mode."""
    if not env.symbolic:
        return
    beta = Sym.of(beta)
    h = beta / 2
    if half:
        _sq_le(env, h.sin(), h, f"lemma |sin(x/2)| <= |x|/2 {why}")
        env.assume(Cons((beta * beta / 8 - (1 - h.cos())).p.real(), ">="), f"lemma 1-cos(x/2) <= x^2/8 {why}")
    if full:
        _sq_le(env, beta.sin(), beta, f"lemma |sin x| <= |x| {why}")
        env.assume(Cons((beta * beta / 2 - (1 - beta.cos())).p.real(), ">="), f"lemma 1-cos x <= x^2/2 {why}")


def periodic_small_angle_lemmas(env, theta, ms=range(-3, 4), full=True):
    """the small-angle lemmas instantiated at theta - 2*pi*m for every m in ms (and theta + ... for -theta is the
    same set since the lemmas are even)"""
    if not env.symbolic:
        return
    pi = num.sym_pi()
    for m in ms:
        small_angle_lemmas(env, Sym.of(theta) - 2 * m * pi, why="(instantiated at x = angle - 2*pi*m)", full=full)


def _half_needed(polys):
    """real variables whose exp-variable occurs with a non-integer exponent in the given Sym values"""
    ctx = num.ctx()
    out = set()
    for x in polys or ():
        if not isinstance(x, Sym):
            continue
        for (k, vs) in x.p.t:
            for v, e in vs:
                if ctx.kind[v] == "exp" and F(e).denominator != 1:
                    for rv, _ in ctx.info[v]:
                        out.add(rv)
    return out


def link_rounds(env, consts=(), polys=None):
    """Gate.__eq__ compares round(x, 7).  For every two rounded values x_i, x_j on the current path (and every
    concrete constant angle c in `consts`, reduced to [0, 2*pi) and rounded the way the code does it):
          round(x_i) == round(x_j)  ->  x_i == x_j                       ('rounding sliver' assumption, see META)
          x_i == x_j                ->  exp(i x_i/2) == exp(i x_j/2)     (sound: same argument)
    The second fact is what ties equal VALUES to equal (cos, sin) pairs."""
    if not env.symbolic:
        return 0
    import math
    tab = [(x, Poly.var(n), sc) for (x, n, sc) in num.ctx().__dict__.get("_rounds", {}).values()]
    pi = num.sym_pi()
    for c in consts:
        k = math.floor(c / (2 * math.pi))
        x = (Sym.of(c) - 2 * k * pi).p
        r = round(c % (2 * math.pi), 7)
        tab.append((x, Poly.const(F(round(r * 10 ** 7))), F(10) ** 7))
    cnt = 0
    half = _half_needed(polys) if polys is not None else None
    why = "rounding sliver excluded: reduced gate parameters that round to the same 7-digit value are equal"
    for i in range(len(tab)):
        for j in range(i + 1, len(tab)):
            (xi, ni, si), (xj, nj, sj) = tab[i], tab[j]
            if si != sj:
                continue
            d = xi.sub(xj)
            nn = ni.sub(nj)
            if d.is_zero() or nn.const_value() is not None:
                continue
            # the link is stated at the granularity (theta or theta/2) at which the angles occur in `polys`
            q = F(1, 2) if (half is None or (xi.variables() | xj.variables()) & half) else F(1)
            try:
                e = num.cis_poly(xi.scale(q)).sub(num.cis_poly(xj.scale(q)))
            except num.SymEscape:
                continue
            concl = [Cons(d, "==")]
            if e.real().t:
                concl.append(Cons(e.real(), "=="))
            if e.imag().t:
                concl.append(Cons(e.imag(), "=="))
            env.assume(smt.f_or(Cons(nn, "!="), smt.f_and(*concl)), why)
            cnt += 1
    return cnt


def link_equalities(env):
    """for every linear equality L == 0 already in the path condition (L a Q-linear form in angles and pi):
    exp(i L/2) == 1.  Sound (exp(0) = 1)."""
    if not env.symbolic:
        return
    P = path.current()
    for f in list(P.pc):
        if isinstance(f, Cons) and f.op == "==":
            try:
                e = num.cis_poly(f.p.scale(F(1, 2)))
            except Exception:
                continue
            one = Poly.const(1)
            P.pc.append(Cons(e.real().sub(one), "=="))
            P.pc.append(Cons(e.imag(), "=="))


# ---------------------------------------------------------------- "within tol of a global phase times identity"
def near_phase_identity(env, D, dim, tol, label, phases=(1, -1)):
    """D: flattened (column-major) dim x dim matrix.  States  EXISTS s in phases: max_ij |D_ij - s*delta_ij| <= tol
    (a sufficient form of  min_phi ||D - e^{i phi} I||_max <= tol  that covers every Tangelo rotation gate: the
    optimal phase of exp(-i t P/2), diag(1, e^{it}) and their controlled versions near identity is +1 or -1)."""
    if env.symbolic:
        alts = []
        tol2 = Sym.of(tol) * Sym.of(tol)
        for s in phases:
            cs = []
            for j in range(dim):
                for i in range(dim):
                    e = Sym.of(D[j * dim + i]) - (s if i == j else 0)
                    m2 = (e * e.conjugate()).p.real()
                    gap = tol2.p.sub(m2)
                    cv = gap.const_value()
                    if cv is not None:
                        if cv.real < 0:
                            cs.append(False)
                        continue
                    cs.append(Cons(gap, ">="))
            alts.append(False if any(c is False for c in cs) else smt.f_and(*cs))
        alts = [a for a in alts if a is not False]
        if not alts:
            env.fail(label, "no candidate phase is compatible")
        else:
            env.check_true(smt.f_or(*alts), label)
        return
    best = None
    for s in phases:
        d = max(abs(complex(D[j * dim + i]) - (s if i == j else 0)) for i in range(dim) for j in range(dim))
        best = d if best is None else min(best, d)
    # exact optimum over all phases for the report
    import cmath
    tr = sum(complex(D[i * dim + i]) for i in range(dim))
    ph = tr / abs(tr) if abs(tr) > 1e-12 else 1
    dopt = max(abs(complex(D[j * dim + i]) - (ph if i == j else 0)) for i in range(dim) for j in range(dim))
    if len(phases) > 1:
        best = min(best, dopt)
    env.check_true(best <= float(tol) + 1e-8, label, detail=f"distance to the nearest global phase = {best:.6g} > threshold {float(tol):.6g}")


def matmul_dag(A, B, dim):
    """A * B^dagger for flattened column-major matrices (list index = col*dim + row)"""
    out = []
    for j in range(dim):
        for i in range(dim):
            s = R.C(0)
            for k in range(dim):
                s = s + A[k * dim + i] * R.n_conj(B[k * dim + j])
            out.append(s)
    return out
