"""PauliBV: action of Pauli sums on computational basis states whose bits are solver terms.

A Pauli word  P = (x)_q s_q  (one Pauli per qubit, as in QubitOperator.terms) acts on |b> as

      X|b> = |b+1>,   Y|b> = i (-1)^b |b+1>,   Z|b> = (-1)^b |b>
  =>  P|b> = i^{#Y} (-1)^{ sum_{q in Y u Z} b_q } | b + m >,      m = flip mask = qubits carrying X or Y.

Hence for a Pauli sum  Q = sum_j c_j P_j :
      Q|b> = sum_m A_m(b) |b + m>,       A_m(b) = sum_{j : m_j = m} c_j i^{#Y_j} (-1)^{parity_j(b)} .
The amplitudes are kept as lists of (coefficient, condition, parity) with coefficient an exact polynomial
(symx.num.Poly: Gaussian rationals, or polynomials in symbolic weights), condition / parity Boolean terms.  Two
amplitude maps are equal for ALL bit-vectors iff, per flip mask and per monomial of the coefficient ring, the integer
valued functions  sum_j n_j [cond_j] (-1)^{par_j}  agree - a quantifier-free query over Booleans + linear integer
arithmetic that z3 decides without enumerating the 2^n vectors.

The fermionic side (symx.fock run on the same Boolean terms) has the same shape:
      O|f> = sum_D R_D(f) |f + D>,     R_D(f) = sum_{k : D_k = D} c_k [cond_k(f)] (-1)^{par_k(f)} .
With an encoder that is affine over GF(2),  Enc(f) = M f + c  (the matrix is READ OFF the real encoder by running it
on the unit vectors and is then verified against the real encoder on every vector of the stated domain), the
intertwining statement  map(O)|Enc f> = sum_D R_D(f) |Enc(f + D)>  becomes  A_{M D}(Enc f) = R_D(f)  for all f.
"""
import math
from fractions import Fraction as F

import z3

from . import fock, num
from .num import Poly, Sym

RE_M = (0, ())
IM_M = (num.HALF, ())


# ---------------------------------------------------------------- bit algebra on z3 terms (constant folding)
class Z3Bits:
    TRUE, FALSE = True, False

    @staticmethod
    def not_(a):
        if isinstance(a, bool):
            return not a
        return z3.Not(a)

    @staticmethod
    def and_(a, b):
        if isinstance(a, bool):
            return b if a else False
        if isinstance(b, bool):
            return a if b else False
        return z3.And(a, b)

    @staticmethod
    def xor(a, b):
        if isinstance(a, bool):
            return Z3Bits.not_(b) if a else b
        if isinstance(b, bool):
            return Z3Bits.not_(a) if b else a
        return z3.Xor(a, b)


def _xor_all(xs, B):
    out = B.FALSE
    for x in xs:
        out = B.xor(out, x)
    return out


def _zb(x):
    return z3.BoolVal(x) if isinstance(x, bool) else x


# ---------------------------------------------------------------- coefficients
def coef_poly(c):
    """exact coefficient: int / Fraction / float / complex / Sym  ->  Poly"""
    if isinstance(c, Poly):
        return c
    p = num.lift(c)
    if p is None:
        raise TypeError(f"cannot lift coefficient {c!r}")
    return p


I_POW = [Poly.const(1), Poly.w(num.HALF), Poly.const(-1), Poly.w(-num.HALF)]


# ---------------------------------------------------------------- symbolic actions
def pauli_action(terms, bits, B=Z3Bits):
    """Q|bits> for Q = dict word -> coefficient.  Returns {flip mask (tuple of 0/1): [(Poly, cond, parity)]}"""
    n = len(bits)
    out = {}
    for word, c in terms.items():
        p = coef_poly(c)
        if p.is_zero():
            continue
        mask = [0] * n
        par = []
        ny = 0
        seen = set()
        for q, s in word:
            if q in seen:
                raise ValueError(f"qubit {q} twice in word {word}")
            seen.add(q)
            if q >= n:
                raise ValueError(f"word {word} acts outside the {n}-qubit register")
            if s in "XY":
                mask[q] = 1
            if s in "YZ":
                par.append(bits[q])
            if s == "Y":
                ny += 1
        if ny % 4:
            p = p.mul(I_POW[ny % 4])
        out.setdefault(tuple(mask), []).append((p, B.TRUE, _xor_all(par, B)))
    return out


def fermion_action(terms, fbits, B=Z3Bits):
    """O|fbits> for a ladder-operator dict, by the textbook rules of symx.fock on Boolean terms.
    Returns {flip pattern D (tuple of 0/1): [(Poly, cond, parity)]}"""
    n = len(fbits)
    out = {}
    for term, c in terms.items():
        p = coef_poly(c)
        if p.is_zero():
            continue
        cond, par, _ = fock.apply_monomial(list(fbits), term, B)
        if cond is False:
            continue
        out.setdefault(fock.flip_mask(term, n), []).append((p, cond, par))
    return out


def diagonal_action(value_terms, n):
    """helper: a diagonal operator given directly as [(coef, cond)] -> amplitude map on the zero flip pattern"""
    return {tuple([0] * n): [(coef_poly(c), cond, False) for c, cond in value_terms]}


def _int_exprs(amp):
    """[(Poly, cond, par)] -> {monomial: [(Fraction, cond, par)]} merged on identical (cond, par)"""
    per = {}
    for p, cond, par in amp:
        ck = cond if isinstance(cond, bool) else ("z", cond.get_id())
        pk = par if isinstance(par, bool) else ("z", par.get_id())
        if cond is False:
            continue
        for m, q in p.t.items():
            d = per.setdefault(m, {})
            k = (ck, pk)
            if k in d:
                d[k] = (d[k][0] + q, cond, par)
            else:
                d[k] = (q, cond, par)
    return {m: [v for v in d.values() if v[0] != 0] for m, d in per.items()}


def _sum_z3(items, scale):
    """sum_j (q_j*scale) [cond_j] (-1)^{par_j} as a z3 Int term"""
    ts = []
    for q, cond, par in items:
        k = q * scale
        assert k.denominator == 1
        k = int(k)
        if isinstance(par, bool):
            v = z3.IntVal(-k if par else k)
        else:
            v = z3.If(par, z3.IntVal(-k), z3.IntVal(k))
        if not isinstance(cond, bool):
            v = z3.If(cond, v, z3.IntVal(0))
        ts.append(v)
    if not ts:
        return z3.IntVal(0)
    return ts[0] if len(ts) == 1 else z3.Sum(*ts)


def amp_z3(amp):
    """amplitude -> ({monomial: z3 Int term}, scale): value = sum_m term_m / scale * m"""
    per = _int_exprs(amp)
    scale = 1
    for items in per.values():
        for q, _, _ in items:
            scale = scale * q.denominator // math.gcd(scale, q.denominator)
    return {m: _sum_z3(items, scale) for m, items in per.items()}, scale


def amps_equal(lhs, rhs):
    """z3 formula: the two amplitude maps {key: [(Poly, cond, par)]} are equal (per key, per coefficient monomial).
    Returns (formula, number of scalar equations)"""
    eqs = []
    for key in set(lhs) | set(rhs):
        a, b = _int_exprs(lhs.get(key, [])), _int_exprs(rhs.get(key, []))
        for m in set(a) | set(b):
            ia, ib = a.get(m, []), b.get(m, [])
            scale = 1
            for q, _, _ in ia + ib:
                scale = scale * q.denominator // math.gcd(scale, q.denominator)
            eqs.append(_sum_z3(ia, scale) == _sum_z3(ib, scale))
    return (z3.And(*eqs) if eqs else z3.BoolVal(True)), len(eqs)


# ---------------------------------------------------------------- encoders
class NotAffine(Exception):
    def __init__(self, vector, got, expected):
        super().__init__(f"encoder is not affine over GF(2): Enc{vector} = {got}, M f + c = {expected}")
        self.vector = vector


class AffineEnc:
    """Enc(f) = M f + c over GF(2), read off a real encoder function fn(tuple of 0/1) -> tuple of 0/1 and verified
    against it on every vector of `domain` (default: all 2^n)."""

    def __init__(self, fn, n, domain=None):
        self.fn = fn
        self.n = n
        zero = tuple([0] * n)
        self.c = tuple(int(x) for x in fn(zero))
        self.m = len(self.c)
        self.cols = []
        for i in range(n):
            e = tuple(1 if j == i else 0 for j in range(n))
            v = tuple(int(x) for x in fn(e))
            if len(v) != self.m:
                raise NotAffine(e, v, None)
            self.cols.append(tuple(a ^ b for a, b in zip(v, self.c)))
        self.verified = 0
        for f in (domain if domain is not None else fock.determinants(n)):
            got = tuple(int(x) for x in fn(tuple(f)))
            exp = self.apply(f)
            if got != exp:
                raise NotAffine(tuple(f), got, exp)
            self.verified += 1

    def mask(self, delta):
        """M * delta (concrete)"""
        out = [0] * self.m
        for i, d in enumerate(delta):
            if d:
                out = [a ^ b for a, b in zip(out, self.cols[i])]
        return tuple(out)

    def apply(self, f):
        return tuple(a ^ b for a, b in zip(self.mask(f), self.c))

    def bits(self, fbits, B=Z3Bits):
        out = []
        for q in range(self.m):
            x = bool(self.c[q])
            for i in range(self.n):
                if self.cols[i][q]:
                    x = B.xor(x, fbits[i])
            out.append(x)
        return out

    def injective_formula(self, fbits, gbits, domain_f=True, domain_g=True):
        """z3: (Enc f = Enc g and f, g in domain) => f = g"""
        bf, bg = self.bits(fbits), self.bits(gbits)
        same = z3.And(*[_zb(a) == _zb(b) for a, b in zip(bf, bg)]) if bf else z3.BoolVal(True)
        eq = z3.And(*[a == b for a, b in zip(fbits, gbits)])
        return z3.Implies(z3.And(same, _zb(domain_f), _zb(domain_g)), eq)


# ---------------------------------------------------------------- concrete / exact evaluation on one basis state
def pauli_apply(terms, b, exact=False):
    """Q|b> for a concrete bit tuple b -> {bits: amplitude}; exact=True: amplitudes are Sym (exact), else complex"""
    n = len(b)
    out = {}
    for word, c in terms.items():
        bb = list(b)
        k = 0          # power of i
        for q, s in word:
            if q >= n:
                raise ValueError(f"word {word} acts outside the {n}-qubit register")
            if s in "XY":
                bb[q] ^= 1
            if s == "Y":
                k += 1
            if s in "YZ" and b[q]:
                k += 2
        if exact:
            v = Sym(coef_poly(c).mul(I_POW[k % 4]))
        else:
            v = complex(c) * (1, 1j, -1, -1j)[k % 4]
        key = tuple(bb)
        out[key] = out[key] + v if key in out else v
    return out


def dict_close(a, b, tol=1e-8):
    """compare two {key: complex}; returns None or a description of the first difference"""
    for k in set(a) | set(b):
        x, y = complex(a.get(k, 0)), complex(b.get(k, 0))
        if not abs(x - y) <= tol * max(1.0, abs(y)):
            return f"amplitude on {''.join(map(str, k))}: got {x!r}, expected {y!r}"
    return None


def dict_exact_diff(a, b):
    for k in set(a) | set(b):
        x, y = Sym.of(a.get(k, 0)), Sym.of(b.get(k, 0))
        if not x.p.sub(y.p).is_zero():
            return f"amplitude on {''.join(map(str, k))}: got {x!r}, expected {y!r}"
    return None


# ---------------------------------------------------------------- harness glue
def int_to_bits(v, n):
    """integer -> occupation tuple, orbital 0 = most significant bit (format(v, '0nb') reads f_0 f_1 ...)"""
    return tuple((int(v) >> (n - 1 - i)) & 1 for i in range(n))


def bits_to_int(f):
    n = len(f)
    return sum(int(x) << (n - 1 - i) for i, x in enumerate(f))


class BitInput:
    """an n-bit occupation vector declared as the engine input `name` (an integer in [0, 2^n)): symbolic mode: z3
    Booleans name_0.. tied to z3.Int(name) (the model value of `name` is what gets replayed); concrete mode: the bits
    of the integer."""

    def __init__(self, env, n, name="f"):
        from . import smt
        self.env, self.n, self.name = env, n, name
        v = env.integer(name, 0, 2 ** n - 1)
        self.symbolic = env.symbolic
        if env.symbolic:
            # bring the integer into every query (so that the model carries it)
            env.assume(smt.Cons(v.p, ">="), "")
            self.bits = [z3.Bool(f"{name}_{i}") for i in range(n)]
            self.link = z3.Int(name) == z3.Sum(*[z3.If(b, z3.IntVal(1 << (n - 1 - i)), z3.IntVal(0)) for i, b in enumerate(self.bits)]) \
                if n > 1 else z3.Int(name) == z3.If(self.bits[0], z3.IntVal(1), z3.IntVal(0))
            self.value = None
        else:
            self.value = int_to_bits(v, n)
            self.bits = [bool(x) for x in self.value]
            self.link = None

    def holds_for_all(self, stmt, label, domain=True):
        """obligation: stmt holds for every value of the bits (inside `domain`)"""
        self.env.check_true(("z3", z3.Implies(z3.And(self.link, _zb(domain)), stmt)), label)

    def refute_value(self, v, label):
        """turn a failure found by explicit enumeration at value v into an obligation the solver refutes with f = v"""
        self.env.check_true(("z3", z3.Implies(self.link, z3.Int(self.name) != int(v))), label)


def check_action(env, inp, qterms, ref_terms, enc, enc_fn, label, domain=True, domain_fn=None, ref_amps=None):
    """map(O)|Enc f> = sum_D R_D(f)|Enc(f+D)>  for all f (symbolic) / for the chosen f (concrete).
    qterms: `.terms` of the qubit operator produced by the real code; ref_terms: ladder-operator dict defining O
    (applied with symx.fock); enc: AffineEnc or None (then the statement is enumerated over all f); enc_fn: the real
    encoder on concrete tuples; domain (z3) / domain_fn (python predicate): restriction of f."""
    n = inp.n
    if not inp.symbolic:
        f = inp.value
        if domain_fn is not None and not domain_fn(f):
            from . import path
            raise path.Infeasible("f outside the sector")
        b = tuple(int(x) for x in enc_fn(f))
        got = pauli_apply(qterms, b)
        exp = {}
        for g, c in fock.apply_operator(ref_terms, f).items():
            k = tuple(int(x) for x in enc_fn(g))
            exp[k] = exp.get(k, 0) + complex(c)
        d = dict_close(got, exp)
        env.check_true(d is None, label, detail=f"f={''.join(map(str, f))} Enc(f)={''.join(map(str, b))}: {d}")
        return
    if enc is not None:
        bbits = enc.bits(inp.bits)
        lhs = pauli_action(qterms, bbits)
        rhs = {}
        for delta, amp in (ref_amps if ref_amps is not None else fermion_action(ref_terms, inp.bits)).items():
            rhs.setdefault(enc.mask(delta), []).extend(amp)
        stmt, neq = amps_equal(lhs, rhs)
        inp.holds_for_all(stmt, label, domain)
        return
    # encoder not affine: explicit enumeration with exact arithmetic; failures are handed to the solver as f != v
    bad = None
    for f in fock.determinants(n):
        if domain_fn is not None and not domain_fn(f):
            continue
        b = tuple(int(x) for x in enc_fn(f))
        got = pauli_apply(qterms, b, exact=True)
        exp = {}
        for g, c in fock.apply_operator({t: Sym.of(c) for t, c in ref_terms.items()}, f).items():
            k = tuple(int(x) for x in enc_fn(g))
            exp[k] = exp[k] + c if k in exp else c
        if dict_exact_diff(got, exp) is not None:
            bad = f
            break
    if bad is None:
        env.check_true(True, label + " [enumerated]")
    else:
        inp.refute_value(bits_to_int(bad), label + " [enumerated]")


def unit_phase_z3(re, im, scale):
    """for an amplitude (re + i im)/scale: (is_unit, (imag, neg)) as z3 Booleans, amplitude = i^imag (-1)^neg when it is
    a unit.  Products of such units stay Boolean: see unit_mul."""
    d = z3.IntVal(scale)
    is_unit = z3.Or(z3.And(re == d, im == 0), z3.And(re == -d, im == 0), z3.And(re == 0, im == d), z3.And(re == 0, im == -d))
    return is_unit, (re == 0, z3.Or(re == -d, im == -d))


def unit_mul(u, v):
    """(i^a (-1)^s)(i^b (-1)^t) = i^(a xor b) (-1)^(s xor t xor (a and b))"""
    (a, s), (b, t) = u, v
    return z3.Xor(a, b), z3.Xor(z3.Xor(s, t), z3.And(a, b))


# ---------------------------------------------------------------- Pauli algebra (independent of openfermion)
_PROD = {("X", "Y"): ("Z", 1), ("Y", "Z"): ("X", 1), ("Z", "X"): ("Y", 1),
         ("Y", "X"): ("Z", 3), ("Z", "Y"): ("X", 3), ("X", "Z"): ("Y", 3)}


def word_mul(wa, wb):
    """product of two Pauli words (tuples of (qubit, letter)) -> (power of i, word)"""
    d = dict(wa)
    k = 0
    for q, s in wb:
        a = d.get(q)
        if a is None:
            d[q] = s
        elif a == s:
            del d[q]
        else:
            r, e = _PROD[(a, s)]
            d[q] = r
            k += e
    return k % 4, tuple(sorted(d.items()))


def pauli_mul(ta, tb):
    """product of two Pauli sums given as dicts word -> coefficient (numbers or Sym)"""
    out = {}
    ph = (1, 1j, -1, -1j)
    for wa, ca in ta.items():
        for wb, cb in tb.items():
            k, w = word_mul(wa, wb)
            v = ca * cb * ph[k]
            out[w] = out[w] + v if w in out else v
    return out


def pauli_lincomb(pairs):
    """sum_k c_k T_k for (c_k, terms_k) pairs"""
    out = {}
    for c, t in pairs:
        for w, v in t.items():
            x = c * v
            out[w] = out[w] + x if w in out else x
    return out
