"""imported once by the multiprocessing fork server so that workers start with the heavy libraries loaded
(no numerical code runs here: a worker forked from a process that already executed an OpenMP parallel region
(PySCF) deadlocks in its first own parallel region)"""
import warnings
warnings.filterwarnings("ignore")
import numpy, scipy, sympy, z3  # noqa
import cirq  # noqa
import openfermion  # noqa
import tangelo  # noqa
import tangelo.linq  # noqa
import tangelo.toolboxes.operators  # noqa
import tangelo.toolboxes.qubit_mappings  # noqa
import tangelo.toolboxes.ansatz_generator  # noqa
import symx.core, symx.cirqstub, symx.refsem, symx.shim  # noqa
