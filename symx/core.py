"""Harness API (Env), obligation discharge, counterexample replay, evidence."""
import json
import math
import os
import random
import re
import sys
import time
import traceback
from fractions import Fraction as F

from . import num, path, smt, refsem
from .num import Sym, Poly, SymEscape
from .smt import Cons

REPO = os.environ.get("VERIF_REPO", "/repo")
TOL = 1e-8


# ---------------------------------------------------------------- Env
class Violation(Exception):
    pass


class Env:
    """Inputs and assertions of a harness.  symbolic=True: inputs are solver variables and
    assertions become proof obligations; symbolic=False: inputs are the floats in `values`
    (replay of a counterexample / sanity run) and assertions are compared numerically."""

    def __init__(self, symbolic, values=None, rng=None):
        self.symbolic = symbolic
        self.values = dict(values or {})
        self.rng = rng or random.Random(0)
        self.inputs = {}          # name -> dict(kind, lo, hi)
        self.obls = []            # symbolic: dict(label, neg, kind, polys)
        self.violations = []      # concrete: dict(label, detail)
        self.checked = 0
        self.notes = []

    # ---- inputs
    def real(self, name, lo=None, hi=None, nonzero=False, default=None):
        self.inputs[name] = dict(kind="real", lo=lo, hi=hi)
        if self.symbolic:
            return num.real_var(name, lo=None if lo is None else F(lo).limit_denominator(10**9),
                                hi=None if hi is None else F(hi).limit_denominator(10**9), nonzero=nonzero)
        if name not in self.values:
            a = -2.0 if lo is None else float(lo)
            b = 2.0 if hi is None else float(hi)
            v = self.rng.uniform(a, b)
            if nonzero and abs(v) < 1e-3:
                v = 0.37
            self.values[name] = v
        return self.values[name]

    def angle(self, name, lo_pi=-6, hi_pi=6):
        """a real input used as an angle, range [lo_pi*pi, hi_pi*pi]"""
        self.inputs[name] = dict(kind="angle", lo=lo_pi * math.pi, hi=hi_pi * math.pi)
        if self.symbolic:
            x = num.real_var(name)
            pi = num.sym_pi()
            path.assume(Cons((x - lo_pi * pi).p, ">="))
            path.assume(Cons((x - hi_pi * pi).p, "<="))
            return x
        if name not in self.values:
            self.values[name] = self.rng.uniform(lo_pi * math.pi, hi_pi * math.pi)
        return self.values[name]

    def complex(self, name):
        return self.real(name + ".re") + 1j * self.real(name + ".im") if not self.symbolic else \
            self.real(name + ".re") + Sym(num.I_POLY) * self.real(name + ".im")

    def integer(self, name, lo, hi):
        self.inputs[name] = dict(kind="int", lo=lo, hi=hi)
        if self.symbolic:
            return num.real_var(name, lo=F(lo), hi=F(hi), integer=True)
        if name not in self.values:
            self.values[name] = self.rng.randint(lo, hi)
        return int(self.values[name])

    def state(self, n, name="psi", normalized=False):
        """fully symbolic n-qubit state (2^n complex amplitudes)"""
        st = [self.complex(f"{name}{i}") for i in range(2 ** n)]
        if normalized:
            if self.symbolic:
                nrm = Sym.of(0)
                for a in st:
                    nrm = nrm + a * a.conjugate()
                path.assume(Cons((nrm - 1).p.real(), "=="), f"{name} normalised")
            else:
                nr = math.sqrt(sum(abs(a) ** 2 for a in st))
                st = [a / nr for a in st]
                for i, a in enumerate(st):
                    self.values[f"{name}{i}.re"], self.values[f"{name}{i}.im"] = a.real, a.imag
        return st

    def assume(self, cond, why=""):
        """precondition on the inputs"""
        if self.symbolic:
            if isinstance(cond, path.SymBool):
                path.assume(cond.f, why)
            elif isinstance(cond, (Cons, tuple)):
                path.assume(cond, why)
            elif not cond:
                raise path.Infeasible(why)
        else:
            if isinstance(cond, path.SymBool):
                raise RuntimeError("symbolic condition in concrete mode")
            if not cond:
                raise path.Infeasible(why)

    # ---- assertions
    def _num(self, x):
        if isinstance(x, Sym):
            return x
        return Sym.of(x) if self.symbolic else x

    def check_eq(self, a, b, label, tol=TOL):
        self.checked += 1
        if self.symbolic:
            pa, pb = path.expand_radicals(Sym.of(a).p), path.expand_radicals(Sym.of(b).p)
            self.obls.append(dict(label=label, neg=smt.f_cneq(pa, pb), kind="eq", trivial=pa.sub(pb).is_zero()))
        else:
            za, zb = complex(a), complex(b)
            if not abs(za - zb) <= tol * max(1.0, abs(zb)):
                self.violations.append(dict(label=label, detail=f"got {za!r}, expected {zb!r}"))

    def check_vec_eq(self, A, B, label, tol=TOL):
        A, B = list(A), list(B)
        if len(A) != len(B):
            return self.fail(label, f"length {len(A)} != {len(B)}")
        self.checked += 1
        if self.symbolic:
            negs, triv = [], True
            for x, y in zip(A, B):
                px, py = path.expand_radicals(Sym.of(x).p), path.expand_radicals(Sym.of(y).p)
                if px.sub(py).is_zero():
                    continue
                triv = False
                negs.append(smt.f_cneq(px, py))
            if triv:
                # still hand one (syntactically equal) pair to the solver
                negs = [smt.f_cneq(Sym.of(A[0]).p, Sym.of(B[0]).p)] if A else [False]
            self.obls.append(dict(label=label, neg=smt.f_or(*negs), kind="veq", trivial=triv))
        else:
            for i, (x, y) in enumerate(zip(A, B)):
                if not abs(complex(x) - complex(y)) <= tol * max(1.0, abs(complex(y))):
                    self.violations.append(dict(label=label, detail=f"entry {i}: got {complex(x)!r}, expected {complex(y)!r}"))
                    return

    def check_vec_eq_up_to_phase(self, A, B, label, tol=TOL, norms=False):
        """A = e^{i phi} B for one real phi.  Encoded without phi: with a pivot k where B_k is not
        identically zero, A_i B_k = A_k B_i for all i (valid for all inputs by continuity), plus
        equal norms when norms=True (needed when A, B are not both outputs of unitary circuits)."""
        A, B = list(A), list(B)
        if len(A) != len(B):
            return self.fail(label, f"length {len(A)} != {len(B)}")
        self.checked += 1
        if self.symbolic:
            PA, PB = [Sym.of(x).p for x in A], [Sym.of(y).p for y in B]
            k = None
            for j, pb in enumerate(PB):
                if pb.t and (k is None or len(pb.t) < len(PB[k].t)):
                    k = j
            negs, triv = [], True
            if k is None:
                for pa in PA:
                    if pa.t:
                        triv = False
                        negs.append(smt.f_cneq(pa, Poly()))
            else:
                for i in range(len(PA)):
                    l, r = PA[i].mul(PB[k]), PA[k].mul(PB[i])
                    if l.sub(r).is_zero():
                        continue
                    triv = False
                    negs.append(smt.f_cneq(l, r))
                if norms or True:
                    na, nb = Poly(), Poly()
                    for pa, pb in zip(PA, PB):
                        na = na.add(pa.mul(pa.conj()))
                        nb = nb.add(pb.mul(pb.conj()))
                    if not na.sub(nb).is_zero():
                        triv = False
                        negs.append(smt.f_cneq(na, nb))
            if triv:
                negs = [smt.f_cneq(PA[k or 0].mul(PB[k or 0]), PA[k or 0].mul(PB[k or 0]))] if PA else [False]
            self.obls.append(dict(label=label, neg=smt.f_or(*negs), kind="veq-phase", trivial=triv))
        else:
            za, zb = [complex(x) for x in A], [complex(y) for y in B]
            k = max(range(len(zb)), key=lambda j: abs(zb[j])) if zb else 0
            if zb and abs(zb[k]) > 1e-12:
                if abs(za[k]) < 1e-12:
                    self.violations.append(dict(label=label, detail=f"pivot entry {k} vanishes in result"))
                    return
                ph = za[k] / zb[k]
                ph = ph / abs(ph) if not norms else ph
                if norms and abs(abs(ph) - 1) > tol:
                    self.violations.append(dict(label=label, detail=f"norm ratio {abs(ph)}"))
                    return
            else:
                ph = 1
            for i, (x, y) in enumerate(zip(za, zb)):
                if not abs(x - ph * y) <= tol * max(1.0, abs(y)):
                    self.violations.append(dict(label=label, detail=f"entry {i}: got {x!r}, expected {ph*y!r} (phase {ph!r})"))
                    return

    def check_true(self, cond, label, detail=""):
        """cond: bool, SymBool or formula"""
        self.checked += 1
        if isinstance(cond, path.SymBool):
            cond = cond.f
        if isinstance(cond, (Cons, tuple)):
            if not self.symbolic:
                raise RuntimeError("formula in concrete mode")
            neg = cond.negate() if isinstance(cond, Cons) else smt.f_not(cond)
            self.obls.append(dict(label=label, neg=neg, kind="pred", trivial=False))
            return
        if self.symbolic:
            self.obls.append(dict(label=label, neg=(not bool(cond)), kind="const", trivial=True, detail=detail))
        elif not cond:
            self.violations.append(dict(label=label, detail=detail or "condition is false"))

    def check_le(self, a, b, label, tol=TOL):
        """a <= b for real values"""
        self.checked += 1
        if self.symbolic:
            d = Sym.of(b).p.sub(Sym.of(a).p).real()
            cv = d.const_value()
            if cv is not None:
                self.obls.append(dict(label=label, neg=not (cv.real >= 0), kind="const", trivial=True))
            else:
                self.obls.append(dict(label=label, neg=Cons(d, "<"), kind="le", trivial=False))
        else:
            if not (complex(a).real <= complex(b).real + tol):
                self.violations.append(dict(label=label, detail=f"{a!r} > {b!r}"))

    def check_same(self, a, b, label):
        """exact structural equality of plain Python data (names, indices, ...)"""
        self.checked += 1
        ok = (a == b)
        if self.symbolic:
            self.obls.append(dict(label=label, neg=not ok, kind="const", trivial=True, detail=f"{a!r} vs {b!r}"[:300]))
        elif not ok:
            self.violations.append(dict(label=label, detail=f"{a!r} != {b!r}"[:400]))

    def check_raises(self, fn, label, exc=Exception):
        self.checked += 1
        try:
            fn()
        except SymEscape:
            raise
        except exc:
            ok = True
        except BaseException:
            raise
        else:
            ok = False
        if self.symbolic:
            self.obls.append(dict(label=label, neg=not ok, kind="const", trivial=True, detail="expected an exception"))
        elif not ok:
            self.violations.append(dict(label=label, detail="no exception was raised"))

    def fail(self, label, detail=""):
        self.checked += 1
        if self.symbolic:
            self.obls.append(dict(label=label, neg=True, kind="const", trivial=True, detail=detail))
        else:
            self.violations.append(dict(label=label, detail=detail))


# ---------------------------------------------------------------- shapes
class Shape:
    def __init__(self, name, fn, kwargs=None, policy=None, canary=False, max_paths=128, timeout_ms=None,
                 setup=None, modules=(), group=None, core=True):
        self.name = name
        self.fn = fn
        self.kwargs = kwargs or {}
        self.policy = policy
        self.canary = canary          # the spec is deliberately wrong: MUST be refuted and replayed
        self.max_paths = max_paths
        self.timeout_ms = timeout_ms
        self.modules = modules        # tangelo modules to shim while running symbolically
        self.group = group or name.split("/")[0]
        self.core = core


# ---------------------------------------------------------------- function coverage (which repo code ran symbolically)
class FuncTrace:
    TOOL = 3

    def __init__(self):
        self.seen = set()
        self.on = False

    def start(self):
        try:
            mon = sys.monitoring
            mon.use_tool_id(self.TOOL, "verif")
            prefix = REPO + "/tangelo"

            def cb(code, off):
                fn = code.co_filename
                if fn.startswith(prefix) and "/tests/" not in fn:
                    self.seen.add((fn[len(REPO) + 1:], code.co_qualname, code.co_firstlineno))
                return mon.DISABLE
            mon.register_callback(self.TOOL, mon.events.PY_START, cb)
            mon.set_events(self.TOOL, mon.events.PY_START)
            self.on = True
        except Exception:
            self.on = False

    def stop(self):
        if self.on:
            mon = sys.monitoring
            mon.set_events(self.TOOL, 0)
            mon.register_callback(self.TOOL, mon.events.PY_START, None)
            mon.free_tool_id(self.TOOL)
            mon.restart_events()
            self.on = False


# ---------------------------------------------------------------- running one shape
def _candidate_values(env_inputs, ctx, model, rng, n_random=24):
    """concrete input assignments to try: derived from the solver model, then random ones"""
    cands = []
    names = list(env_inputs)
    if model:
        base = {}
        for nm in names:
            v = model.get(nm)
            base[nm] = float(v) if v is not None else None
        # angles: recover from (cos,sin) of the model
        bases = model.get("__bases__", {})
        variants = [dict(base)]
        for nm in names:
            en = f"E[{nm}]"
            D = bases.get(en)
            if D is None:
                continue
            c, s = model.get(f"cos({en}/{D})"), model.get(f"sin({en}/{D})")
            if c is None or s is None:
                continue
            ang = math.atan2(s, c) * D
            newv = []
            info = env_inputs[nm]
            for var in variants:
                # period shifts; those inside the declared range of the input come first
                shifts = sorted(range(-3, 4), key=lambda m: (not ((info["lo"] is None or ang + 2 * math.pi * D * m >= info["lo"] - 1e-9)
                                                                  and (info["hi"] is None or ang + 2 * math.pi * D * m <= info["hi"] + 1e-9)),
                                                             abs(m)))
                for m in shifts:
                    d = dict(var)
                    d[nm] = ang + 2 * math.pi * D * m
                    newv.append(d)
            if len(newv) > 200:
                # keep the candidates built from leading (in-range) shifts of every input
                per = len(newv) // max(1, len(variants))
                newv = [d for i, d in enumerate(newv) if i % per < max(1, 200 // max(1, len(variants)))]
            variants = newv[:200]
        if len(variants) > 1 and all(v is not None for v in base.values()):
            # the model's own VALUE of every input (it satisfies the linear path constraints, which matters when
            # an angle's value is constrained by thresholds / quotient windows): tried first
            variants.insert(0, dict(base))
        for var in variants:
            for nm in names:
                if var[nm] is None:
                    info = env_inputs[nm]
                    lo = info["lo"] if info["lo"] is not None else -2.0
                    hi = info["hi"] if info["hi"] is not None else 2.0
                    var[nm] = rng.uniform(lo, hi)
            cands.append(var)
    rnd_cands = []
    for _ in range(n_random):
        d = {}
        for nm in names:
            info = env_inputs[nm]
            lo = info["lo"] if info["lo"] is not None else -2.0
            hi = info["hi"] if info["hi"] is not None else 2.0
            d[nm] = rng.randint(int(lo), int(hi)) if info["kind"] == "int" else rng.uniform(lo, hi)
        rnd_cands.append(d)
    # model-derived candidates and random ones alternate: a solver model is free to put inputs that do not matter SYMBOLICALLY at
    # special values (an imaginary part 0, an angle 0) where the concrete code takes another branch; generic values come early too
    out = []
    for i in range(max(len(cands), len(rnd_cands))):
        if i < len(cands):
            out.append(cands[i])
        if i < len(rnd_cands):
            out.append(rnd_cands[i])
    return out


def _numeric_filter(cands, ctx, pc, negs):
    """keep candidates that satisfy the path condition and violate some obligation, judged on the
    SYMBOLIC expressions evaluated numerically (cheap pre-filter before the real replay)"""
    good = []
    for d in cands:
        val = {}
        ok = True
        for nm, v in d.items():
            if nm in ctx.by_name:
                val[ctx.by_name[nm]] = v
        val[ctx.pi] = math.pi
        for i in range(len(ctx.names)):
            if ctx.kind[i] == "real" and ctx.info[i].get("value") is not None:
                val[i] = ctx.info[i]["value"]
        # fresh variables: cannot evaluate -> skip filter for them
        if any(ctx.kind[i] == "real" and i not in val for i in range(len(ctx.names))):
            good.append(d)
            continue
        try:
            if not all(_holds(f, val, 1e-9) for f in pc):
                continue
            if any(_holds(f, val, -1e-7) for f in negs):
                good.append(d)
        except Exception:
            good.append(d)
    return good


def _numeric_witnesses(cands, ctx, pc, negs, margin=1e-4):
    """candidates on which the path condition holds and some negated obligation holds WITH A MARGIN, judged numerically on the
    symbolic expressions; candidates that cannot be evaluated are dropped (strict counterpart of _numeric_filter). Used to find
    counterexamples of violated identities without waiting for the solver: each witness is still replayed on the real code."""
    good = []
    for d in cands:
        val = {}
        for nm, v in d.items():
            if nm in ctx.by_name:
                val[ctx.by_name[nm]] = v
        val[ctx.pi] = math.pi
        for i in range(len(ctx.names)):
            if ctx.kind[i] == "real" and ctx.info[i].get("value") is not None:
                val[i] = ctx.info[i]["value"]
        if any(ctx.kind[i] == "real" and i not in val for i in range(len(ctx.names))):
            continue
        try:
            if all(_pc_holds(f, val) for f in pc) and any(_holds_strict(f, val, margin) for f in negs):
                good.append(d)
        except Exception:
            continue
    return good


def _pc_holds(f, val, eps=1e-9):
    """numeric truth of a path-condition formula with its exact meaning (a disequality must really hold); formulas that cannot be
    judged numerically raise, which drops the candidate"""
    if isinstance(f, bool):
        return f
    if isinstance(f, Cons):
        v = f.p.evaluate(val).real
        return {"==": abs(v) <= eps, "!=": abs(v) > eps, ">": v > eps, ">=": v >= -eps, "<": v < -eps, "<=": v <= eps}[f.op]
    tag = f[0]
    if tag == "and":
        return all(_pc_holds(x, val, eps) for x in f[1])
    if tag == "or":
        return any(_pc_holds(x, val, eps) for x in f[1])
    if tag == "not":
        return not _pc_holds(f[1], val, eps)
    if tag == "cneq":
        return abs(f[1].evaluate(val) - f[2].evaluate(val)) > eps
    raise ValueError("formula cannot be judged numerically")


def _holds_strict(f, val, margin):
    """numeric truth with a margin; anything that is not a constraint / complex disequality / and / or of those counts as not established"""
    if isinstance(f, bool):
        return False
    if isinstance(f, Cons):
        return _holds(f, val, -margin)
    tag = f[0]
    if tag == "or":
        return any(_holds_strict(g, val, margin) for g in f[1])
    if tag == "and":
        return all(_holds_strict(g, val, margin) for g in f[1])
    if tag == "cneq":
        a, b = f[1].evaluate(val), f[2].evaluate(val)
        return abs(a - b) > margin * max(1.0, abs(a), abs(b))
    return False


def _holds(f, val, tol):
    """numeric truth of a formula; tol>0 loosens constraints, tol<0 demands a margin for != and strict"""
    if isinstance(f, bool):
        return f
    if isinstance(f, Cons):
        v = f.p.evaluate(val).real
        t = abs(tol)
        if tol >= 0:
            return {"==": abs(v) <= t, "!=": True, ">": v > -t, ">=": v >= -t, "<": v < t, "<=": v <= t}[f.op]
        return {"==": abs(v) <= t, "!=": abs(v) > t, ">": v > t, ">=": v >= t, "<": v < -t, "<=": v <= -t}[f.op]
    tag = f[0]
    if tag == "z3":
        # opaque solver term (symx.paulibv): cannot be judged numerically -> the caller keeps the candidate
        raise ValueError("opaque z3 formula")
    if tag == "and":
        return all(_holds(x, val, tol) for x in f[1])
    if tag == "or":
        return any(_holds(x, val, tol) for x in f[1])
    if tag == "not":
        return not _holds(f[1], val, -tol if tol else 0)
    if tag == "cneq":
        d = abs(f[1].evaluate(val) - f[2].evaluate(val))
        return d > abs(tol) if tol < 0 else True
    return True


def concrete_run(shape, values, seed=0):
    """run the harness on the real code with ordinary floats; returns (env, error)"""
    from . import shim
    refsem.EXACT = False
    env = Env(False, values, random.Random(seed))
    err = None
    try:
        with shim.concrete_mode():
            shape.fn(env, **shape.kwargs)
    except path.Infeasible:
        err = "infeasible"
    except Exception as e:
        tb = traceback.format_exc(limit=6)
        err = f"{type(e).__name__}: {e}\n{tb}"
        # an AttributeError / ImportError / NameError raised by the verification code itself means the harness relies on an
        # internal name that no longer exists (a refactor) - a harness error; any other exception while processing what the
        # code under test returned is attributed to the code under test
        env.error_origin = _exception_origin(e) if isinstance(e, (AttributeError, ImportError, NameError)) else "repo"
    finally:
        refsem.EXACT = True
    return env, err


def _exception_origin(e):
    """'repo' if the exception was raised by (or underneath) code of the repository under test, 'harness' if it was
    raised by the verification code itself (e.g. an attribute the harness relies on was renamed): innermost frame that
    belongs to either tree decides."""
    here = os.path.dirname(os.path.dirname(os.path.abspath(__file__)))
    for fr in reversed(traceback.extract_tb(e.__traceback__)):
        fn = os.path.abspath(fr.filename)
        if fn.startswith(REPO + os.sep):
            return "repo"
        if fn.startswith(here + os.sep):
            return "harness"
    return "harness"


def run_shape(shape, tier="quick", seed=0):
    """symbolic exploration + discharge + replay of one shape; returns a JSON-able record"""
    from . import shim
    t0 = time.time()
    rng = random.Random(hash((shape.name, seed)) & 0xffffffff)
    rec = dict(shape=shape.name, group=shape.group, canary=shape.canary, paths=0, obligations=0, discharged=0,
               trivial=0, inconclusive=[], violations=[], assumptions=[], queries=0, solver_time=0.0,
               samples=[], funcs=[], harness_errors=[], feas_queries=0)
    timeout_ms = shape.timeout_ms or (20000 if tier == "quick" else 120000)
    q0, st0 = smt.STATS["queries"], smt.STATS["time"]
    trace = FuncTrace()
    state = {}
    pending = []      # deferred replays: dict(cands, label, pcs, quiet, n_obls)

    def fn():
        refsem.EXACT = True
        env = Env(True)
        state["env"] = env
        shape.fn(env, **shape.kwargs)
        return env

    def on_path(prec):
        rec["paths"] += 1
        rec["feas_queries"] += prec.get("feas_queries", 0)
        for a in prec["assumptions"]:
            if a not in rec["assumptions"] and len(rec["assumptions"]) < 40:
                rec["assumptions"].append(a)
        env = state.get("env")
        ctx = num.ctx()
        pcs = list(prec["pc"])
        pdesc = _fmt_pc(pcs)[:6]
        if "error" in prec:
            kind, msg = prec["error"]
            if kind == "infeasible":
                rec["paths"] -= 1
                return
            if kind == "exception":
                # the real code (or the harness) raised on this path: confirm by replay
                cands = _numeric_filter(_candidate_values(env.inputs if env else {}, ctx, None, rng, 12), ctx, pcs, [True])
                pending.append(dict(cands=cands, label=f"exception on path: {msg}", pcs=pdesc, quiet=False,
                                    tb=prec.get("traceback", "")))
                return
            rec["inconclusive"].append(dict(path=str(prec["decisions"]), reason=f"{kind}: {msg}"))
            return
        obls = env.obls
        rec["obligations"] += len(obls)
        if not obls:
            return
        negs = [o["neg"] for o in obls if o["neg"] is not False]
        hard_false = [o for o in obls if o["neg"] is True]
        if len(rec["samples"]) < 3:
            o = obls[0]
            rec["samples"].append(dict(shape=shape.name, path_condition=pdesc, assertion=o["label"],
                                       kind=o["kind"], n_obligations_on_path=len(obls)))
        if hard_false:
            # a structural assertion failed on this path: inputs that DRIVE the real code down this path come from a
            # model of the path condition (random inputs rarely hit threshold / quotient windows)
            pmodel = None
            if pcs and env.inputs:
                pv, pmodel, _, _, _ = smt.solve(pcs, timeout_ms=min(timeout_ms, 10000))
                pmodel = pmodel if pv == "sat" else None
            cands = _numeric_filter(_candidate_values(env.inputs, ctx, pmodel, rng, 12), ctx, pcs, [True])
            pending.append(dict(cands=cands, label=hard_false[0]["label"] + ": " + str(hard_false[0].get("detail", "")),
                                pcs=pdesc, quiet=False))
            # the remaining obligations of the path are still decided (a structural failure must not mask them)
            obls = [o for o in obls if o["neg"] is not True]
            negs = [o["neg"] for o in obls if o["neg"] is not False]
            if not obls:
                return
        if not negs:
            rec["discharged"] += len(obls)
            rec["trivial"] += len(obls)
            return
        # cheap search for a counterexample before the solver is asked: a violated polynomial / trigonometric identity fails at
        # almost every point, while the solver may need its whole budget to say so. A witness is only a CANDIDATE: it is
        # replayed on the real code like a solver model; without a witness the solver decides as before
        try:
            wit = _numeric_witnesses(_candidate_values(env.inputs, ctx, None, rng, 6), ctx, pcs, negs) if env.inputs else []
        except Exception:
            wit = []
        if wit:
            labels = [o["label"] for o in obls if o["neg"] is not False]
            pending.append(dict(cands=wit[:4], label=labels[0] if len(labels) == 1 else f"one of {labels[:4]}", pcs=pdesc, quiet=True,
                                unknown="numeric counterexample candidate did not reproduce on the real code", path=str(prec["decisions"])))
            return
        verdict, model, dt, enc, solver = smt.solve(pcs + [smt.f_or(*negs)], timeout_ms=timeout_ms)
        if verdict == "unsat":
            rec["discharged"] += len(obls)
            rec["trivial"] += sum(1 for o in obls if o.get("trivial"))
            if "smt2" not in state and not all(o.get("trivial") for o in obls):
                try:
                    state["smt2"] = solver.to_smt2()
                except Exception:
                    pass
            return
        if verdict == "unknown":
            for o in obls:
                if o["neg"] is False:
                    rec["discharged"] += 1
                    continue
                v2, m2, _, _, _ = smt.solve(pcs + [o["neg"]], timeout_ms=timeout_ms)
                if v2 == "unsat":
                    rec["discharged"] += 1
                elif v2 == "sat":
                    cands = _numeric_filter(_candidate_values(env.inputs, ctx, m2, rng), ctx, pcs, [o["neg"]])
                    pending.append(dict(cands=cands, label=o["label"], pcs=pdesc, quiet=False))
                else:
                    cands = _numeric_filter(_candidate_values(env.inputs, ctx, None, rng, 64), ctx, pcs, [o["neg"]])
                    pending.append(dict(cands=cands[:4], label=o["label"], pcs=pdesc, quiet=True,
                                        unknown=f"solver unknown on '{o['label']}'", path=str(prec["decisions"])))
            return
        cands = _numeric_filter(_candidate_values(env.inputs, ctx, model, rng), ctx, pcs, negs)
        labels = [o["label"] for o in obls if o["neg"] is not False]
        pending.append(dict(cands=cands, label=labels[0] if len(labels) == 1 else f"one of {labels[:4]}", pcs=pdesc, quiet=False))

    try:
        with shim.symbolic_mode(shape.modules):
            trace.start()
            try:
                path.explore(fn, policy=shape.policy, max_paths=shape.max_paths, on_path=on_path)
            finally:
                trace.stop()
    except Exception as e:
        rec["harness_errors"].append(f"{type(e).__name__}: {e}\n{traceback.format_exc(limit=8)}")
    rec["funcs"] = sorted(trace.seen)
    rec["queries"] = smt.STATS["queries"] - q0
    rec["solver_time"] = round(smt.STATS["time"] - st0, 3)
    if "smt2" in state:
        rec["smt2"] = state["smt2"]
    # deferred replays, on the real code with the shims removed
    for pr in pending:
        ok = _replay(shape, rec, pr["cands"], pr["label"], pr["pcs"], quiet=pr["quiet"])
        if not ok and pr.get("unknown"):
            rec["inconclusive"].append(dict(path=pr.get("path"), reason=pr["unknown"]))
        if not ok and pr.get("tb") and not pr["quiet"] and rec["inconclusive"]:
            rec["inconclusive"][-1]["traceback"] = pr["tb"][-1500:]
    if shape.canary:
        if rec["violations"]:
            rec["canary_ok"] = True
            rec["canary_witness"] = rec["violations"][0]
            rec["violations"] = []
        else:
            rec["canary_ok"] = False
            rec["harness_errors"].append(f"canary twin {shape.name} was NOT refuted (vacuous harness?)")
    rec["wall"] = round(time.time() - t0, 3)
    return rec


def _fmt_pc(pcs):
    return [repr(f)[:200] for f in pcs]


def _replay(shape, rec, cands, label, pcs_desc, quiet=False):
    """replay candidate inputs on the real code; record a violation if one reproduces"""
    tried = 0
    for d in cands[:40]:
        if tried >= 8:
            break
        env, err = concrete_run(shape, d)
        if err == "infeasible":       # candidate outside the harness preconditions: does not count as a replay
            continue
        tried += 1
        if err:
            if getattr(env, "error_origin", "repo") == "harness":
                # the verification code itself failed (not the code under test): a harness error, never a violation
                rec["harness_errors"].append(f"harness raised during replay of '{label}': {err[:1200]}")
                return False
            rec["violations"].append(dict(shape=shape.name, label=label, inputs=env.values,
                                          detail="real code raised: " + err.split("\n")[0], path_condition=pcs_desc))
            return True
        if env.violations:
            v = env.violations[0]
            rec["violations"].append(dict(shape=shape.name, label=v["label"], inputs=env.values, detail=v["detail"],
                                          path_condition=pcs_desc))
            return True
    if not quiet:
        rec["inconclusive"].append(dict(path=None, reason=f"solver model for '{label}' did not reproduce on the real code "
                                        f"({tried} candidates replayed)"))
    return False
