"""Exact stand-ins for cirq's numeric simulators, plugged in behind Tangelo's own seam
(`CirqSimulator.cirq`).  The REAL translator builds a REAL cirq.Circuit (whose gate
exponents may be symbolic); the stub applies every operation of that circuit exactly:
 * EigenGate with symbolic exponent: sum_k exp(i*pi*e*(h_k+shift)) P_k from cirq's own
   _eigen_components();
 * ControlledGate: control qubits (all control values must be 1) + sub-gate;
 * any other unitary gate with concrete parameters: cirq.unitary() lifted to exact numbers;
 * channels: their Kraus operators (cirq.kraus), or symbolic Pauli/depolarising channels;
 * measurements (state-vector simulator): a solver-explored choice of the outcome.
`self_check()` validates the stub against cirq.unitary / a real cirq simulation on concrete inputs.
"""
import itertools
import math

import numpy as np

from . import num, path, shim, refsem
from .num import Sym, Poly, SymEscape
from .smt import Cons


def _cirq():
    import cirq
    return cirq


def _lift_matrix(M):
    return [[Sym.of(complex(x)) for x in row] for row in np.asarray(M)]


def _has_sym_param(gate):
    for attr in ("_exponent", "_global_shift", "_rads"):
        if isinstance(getattr(gate, attr, None), Sym):
            return True
    return False


def gate_matrix(gate):
    """exact 2^k x 2^k matrix (list of rows of Sym) of a cirq gate, and its number of qubits"""
    cirq = _cirq()
    if isinstance(gate, cirq.ControlledGate):
        cv = gate.control_values
        try:
            vals = [tuple(v) for v in cv]
        except TypeError:
            vals = None
        nc = gate.num_controls()
        if vals is not None and any(v != (1,) for v in vals):
            raise SymEscape("controlled gate with control values other than 1")
        sub, k = gate_matrix(gate.sub_gate)
        dim = 2 ** (nc + k)
        M = [[Sym.of(1) if i == j else Sym.of(0) for j in range(dim)] for i in range(dim)]
        off = dim - 2 ** k
        for i in range(2 ** k):
            for j in range(2 ** k):
                M[off + i][off + j] = sub[i][j]
        return M, nc + k
    if isinstance(gate, cirq.EigenGate) and _has_sym_param(gate):
        e, shift = gate._exponent, gate._global_shift
        comps = gate._eigen_components()
        k = cirq.num_qubits(gate)
        dim = 2 ** k
        M = [[Sym.of(0) for _ in range(dim)] for _ in range(dim)]
        pi = num.sym_pi()
        for h, P in comps:
            ang = pi * e * (Sym.of(h) + Sym.of(shift))
            ph = num.cis(ang)
            P = np.asarray(P)
            for i in range(dim):
                for j in range(dim):
                    if P[i][j] != 0:
                        M[i][j] = M[i][j] + ph * Sym.of(complex(P[i][j]))
        return M, k
    if cirq.has_unitary(gate):
        U = cirq.unitary(gate)
        return _lift_matrix(U), cirq.num_qubits(gate)
    raise SymEscape(f"gate {gate!r} has no unitary the stub can compute")


def apply_matrix(state, n, M, qubits):
    """apply a k-qubit matrix (first qubit = most significant bit of the matrix index) on `qubits`"""
    k = len(qubits)
    new = list(state)
    masks = [1 << (n - 1 - q) for q in qubits]
    allmask = sum(masks)
    for base in range(2 ** n):
        if base & allmask:
            continue
        idx = []
        for sub in range(2 ** k):
            i = base
            for b in range(k):
                if (sub >> (k - 1 - b)) & 1:
                    i |= masks[b]
            idx.append(i)
        amps = [state[i] for i in idx]
        for r in range(2 ** k):
            acc = None
            row = M[r]
            for c in range(2 ** k):
                m = row[c]
                if isinstance(m, Sym) and m.p.is_zero():
                    continue
                a = amps[c]
                if isinstance(a, Sym) and a.p.is_zero():
                    continue
                t = m * a
                acc = t if acc is None else acc + t
            new[idx[r]] = acc if acc is not None else Sym.of(0)
    return new


def _qubit_index(q, order):
    return order[q]


class _SymChannel:
    """mixin marker for stub channel gates carrying symbolic probabilities"""


def make_channel_classes():
    cirq = _cirq()

    class SymPauliChannel(cirq.Gate, _SymChannel):
        def __init__(self, px, py, pz):
            self.p = (px, py, pz)

        def _num_qubits_(self):
            return 1

        def _has_mixture_(self):
            return True

        def __repr__(self):
            return f"SymPauliChannel{self.p}"

    class SymDepolChannel(cirq.Gate, _SymChannel):
        def __init__(self, p, n_qubits=1):
            self.prob = p
            self.n = n_qubits

        def _num_qubits_(self):
            return self.n

        def _has_mixture_(self):
            return True

        def __repr__(self):
            return f"SymDepolChannel({self.prob},{self.n})"

    return SymPauliChannel, SymDepolChannel


_KCH = None


def kraus_channel_class():
    """single-qubit channel given by explicit Kraus matrices with symbolic entries (phase / amplitude damping)"""
    global _KCH
    if _KCH is None:
        cirq = _cirq()

        class SymKrausChannel(cirq.Gate, _SymChannel):
            def __init__(self, name, kraus):
                self.name, self.kraus = name, kraus

            def _num_qubits_(self):
                return 1

            def _has_mixture_(self):
                return False

            def _has_kraus_(self):
                return True

            def __repr__(self):
                return f"SymKrausChannel({self.name})"
        _KCH = SymKrausChannel
    return _KCH


_CH = None


def channel_classes():
    global _CH
    if _CH is None:
        _CH = make_channel_classes()
    return _CH


_ORIG = {}


def _install_channel_patch():
    cirq = _cirq()
    SP, SD = channel_classes()
    _ORIG["ad"], _ORIG["d"] = cirq.asymmetric_depolarize, cirq.depolarize

    def asymmetric_depolarize(p_x=None, p_y=None, p_z=None, *a, **k):
        if any(isinstance(x, Sym) for x in (p_x, p_y, p_z)):
            return SP(Sym.of(p_x), Sym.of(p_y), Sym.of(p_z))
        return _ORIG["ad"](p_x, p_y, p_z, *a, **k)

    def depolarize(p, n_qubits=None):
        if isinstance(p, Sym):
            return SD(p, 1 if n_qubits is None else n_qubits)
        return _ORIG["d"](p, n_qubits) if n_qubits is not None else _ORIG["d"](p)

    cirq.asymmetric_depolarize = asymmetric_depolarize
    cirq.depolarize = depolarize
    # the other single-qubit channels of cirq with their textbook Kraus operators, so that code reaching for them with
    # symbolic rates is evaluated exactly instead of escaping
    for nm_ in ("bit_flip", "phase_flip", "phase_damp", "amplitude_damp"):
        _ORIG[nm_] = getattr(cirq, nm_)

    def bit_flip(p=None):
        return SP(Sym.of(p), Sym.of(0), Sym.of(0)) if isinstance(p, Sym) else _ORIG["bit_flip"](p)

    def phase_flip(p=None):
        return SP(Sym.of(0), Sym.of(0), Sym.of(p)) if isinstance(p, Sym) else _ORIG["phase_flip"](p)

    def _damp(kind):
        def f(gamma):
            if not isinstance(gamma, Sym):
                return _ORIG[kind](gamma)
            from . import path as _path
            a, b = _path.sym_sqrt(1 - gamma), _path.sym_sqrt(gamma)
            z, o = Sym.of(0), Sym.of(1)
            k1 = [[z, z], [z, b]] if kind == "phase_damp" else [[z, b], [z, z]]
            return kraus_channel_class()(kind, [[[o, z], [z, a]], k1])
        return f
    cirq.bit_flip, cirq.phase_flip = bit_flip, phase_flip
    cirq.phase_damp, cirq.amplitude_damp = _damp("phase_damp"), _damp("amplitude_damp")


def _uninstall_channel_patch():
    cirq = _cirq()
    if "ad" in _ORIG:
        cirq.asymmetric_depolarize, cirq.depolarize = _ORIG["ad"], _ORIG["d"]
        for nm_ in ("bit_flip", "phase_flip", "phase_damp", "amplitude_damp"):
            if nm_ in _ORIG:
                setattr(cirq, nm_, _ORIG[nm_])


shim.register_global_patch(_install_channel_patch, _uninstall_channel_patch)


class _Result:
    def __init__(self, sv=None, dm=None, measurements=None):
        self.final_state_vector = sv
        self.final_density_matrix = dm
        self.measurements = measurements or {}


def _initial_vector(initial_state, n):
    if isinstance(initial_state, (int, np.integer)):
        st = [Sym.of(0) for _ in range(2 ** n)]
        st[int(initial_state)] = Sym.of(1)
        return st
    arr = np.asarray(initial_state, dtype=object).reshape(-1)
    if len(arr) != 2 ** n:
        raise ValueError(f"initial state has {len(arr)} entries, expected {2**n}")
    return [Sym.of(x) if not isinstance(x, Sym) else x for x in arr]


class SymSimulator:
    """stands in for cirq.Simulator"""

    def __init__(self, *a, **k):
        self.log = []

    def _order(self, circuit):
        qs = sorted(circuit.all_qubits())
        return {q: i for i, q in enumerate(qs)}, len(qs)

    def simulate(self, circuit, initial_state=0, **kw):
        cirq = _cirq()
        order, n = self._order(circuit)
        st = _initial_vector(initial_state, n)
        meas = {}
        for op in circuit.all_operations():
            g = op.gate
            qs = [order[q] for q in op.qubits]
            if isinstance(g, cirq.IdentityGate):
                continue
            if isinstance(g, cirq.MeasurementGate):
                outcomes = []
                for q in qs:
                    p0v, p0 = refsem.project(st, n, q, 0)
                    p1v, p1 = refsem.project(st, n, q, 1)
                    # solver-explored choice of the outcome (only outcomes with non-zero probability)
                    b = path.decide([(Cons(p0.p.real(), ">"), 0), (Cons(p1.p.real(), ">"), 1)], "measurement outcome")
                    vec, pr = (p0v, p0) if b == 0 else (p1v, p1)
                    nrm = pr.sqrt()
                    st = [a / nrm for a in vec]
                    outcomes.append(b)
                if g.key:
                    meas[str(g.key)] = np.array(outcomes)
                continue
            M, k = gate_matrix(g)
            st = apply_matrix(st, n, M, qs)
        return _Result(sv=shim.SymArray(st), measurements=meas)

    def run(self, circuit, repetitions=1, **k):
        """cirq contract: `repetitions` independent executions, each from |0...0>; every measurement key maps to an array of shape
        (repetitions, n_measured_qubits). Each execution's outcomes are solver-explored like those of simulate()."""
        if k.get("param_resolver") is not None:
            raise SymEscape("cirq.Simulator.run with a param_resolver is not modelled")
        per = [self.simulate(circuit, initial_state=0).measurements for _ in range(int(repetitions))]
        meas = {key: np.array([[int(x) for x in per[j][key]] for j in range(len(per))]) for key in (per[0] if per else {})}
        return _Result(measurements=meas)


class SymDensityMatrixSimulator(SymSimulator):
    """stands in for cirq.DensityMatrixSimulator"""

    def simulate(self, circuit, initial_state=0, **kw):
        cirq = _cirq()
        order, n = self._order(circuit)
        if isinstance(initial_state, (int, np.integer)) or np.asarray(initial_state, dtype=object).ndim == 1:
            st = _initial_vector(initial_state, n)
            rho = refsem.dm_from_state(st)
        else:
            arr = np.asarray(initial_state, dtype=object)
            rho = [[Sym.of(x) for x in row] for row in arr]
        dim = 2 ** n
        for op in circuit.all_operations():
            g = op.gate
            qs = [order[q] for q in op.qubits]
            if isinstance(g, cirq.IdentityGate):
                continue
            if isinstance(g, _SymChannel):
                SP, SD = channel_classes()
                if isinstance(g, SP):
                    rho = refsem.dm_pauli_channel(rho, n, qs[0], *g.p)
                elif isinstance(g, kraus_channel_class()):
                    acc = None
                    for K in g.kraus:
                        t = _dm_conj(rho, n, K, qs)
                        acc = t if acc is None else refsem.dm_add(acc, t)
                    rho = acc
                else:
                    rho = refsem.dm_depolarize_cirq(rho, n, qs, g.prob)
                continue
            if isinstance(g, cirq.MeasurementGate):
                raise SymEscape("measurement inside a density-matrix simulation (expected dephase_measurements)")
            if cirq.has_unitary(g) or isinstance(g, (cirq.ControlledGate, cirq.EigenGate)):
                M, k = gate_matrix(g)
                rho = _dm_conj(rho, n, M, qs)
                continue
            ks = cirq.kraus(op)
            acc = None
            for K in ks:
                t = _dm_conj(rho, n, _lift_matrix(K), qs)
                acc = t if acc is None else refsem.dm_add(acc, t)
            rho = acc
        return _Result(dm=shim.SymArray(rho))


def _dm_conj(rho, n, M, qs):
    """M rho M^dagger on qubits qs"""
    dim = len(rho)
    cols = [apply_matrix([rho[i][j] for i in range(dim)], n, M, qs) for j in range(dim)]
    out = []
    for i in range(dim):
        r = apply_matrix([cols[j][i].conjugate() for j in range(dim)], n, M, qs)
        out.append([x.conjugate() for x in r])
    return out


def _dm_depolarize_cirq(rho, n, qubits, p):
    """cirq.depolarize(p, k): with probability p one of the 4^k - 1 non-identity Paulis is applied (uniformly)"""
    k = len(qubits)
    acc = None
    for ws in itertools.product("IXYZ", repeat=k):
        word = [(q, w) for q, w in zip(qubits, ws) if w != "I"]
        if not word:
            continue
        t = refsem.dm_apply_pauli(rho, n, word)
        acc = t if acc is None else refsem.dm_add(acc, t)
    return refsem.dm_add(refsem.dm_scale(rho, 1 - p), refsem.dm_scale(acc, p / (4 ** k - 1)))


refsem.dm_depolarize_cirq = _dm_depolarize_cirq


class SamplerLog:
    """records what is handed to the samplers; returns an arbitrary (solver-chosen) element of the support"""

    def __init__(self):
        self.calls = []


class CirqProxy:
    """what `CirqSimulator.cirq` is replaced by in symbolic mode"""

    def __init__(self):
        self._cirq = _cirq()
        self.sampler_calls = []
        self.Simulator = SymSimulator
        self.DensityMatrixSimulator = SymDensityMatrixSimulator

    def __getattr__(self, k):
        return getattr(self._cirq, k)

    def sample_state_vector(self, state_vector, indices, repetitions=1, **kw):
        sv = [Sym.of(x) for x in np.asarray(state_vector, dtype=object).reshape(-1)]
        n = int(math.log2(len(sv)))
        probs = [a * a.conjugate() for a in sv]
        self.sampler_calls.append(dict(kind="state_vector", probs=probs, indices=list(indices), repetitions=repetitions))
        return self._draw(probs, n, indices, repetitions)

    def sample_density_matrix(self, density_matrix, indices, repetitions=1, **kw):
        rho = np.asarray(density_matrix, dtype=object)
        dim = rho.shape[0]
        n = int(math.log2(dim))
        probs = [Sym.of(rho[i][i]) for i in range(dim)]
        self.sampler_calls.append(dict(kind="density_matrix", probs=probs, rho=rho, indices=list(indices), repetitions=repetitions))
        return self._draw(probs, n, indices, repetitions)

    def _draw(self, probs, n, indices, repetitions):
        if repetitions is None:
            raise TypeError("repetitions must be an integer")
        out = []
        for _ in range(int(repetitions)):
            alts = []
            for i, p in enumerate(probs):
                if p.p.is_zero():
                    continue
                alts.append((Cons(p.p.real(), ">"), i))
            i = path.decide(alts, "sample") if len(alts) > 1 else alts[0][1]
            bits = [(i >> (n - 1 - q)) & 1 for q in indices]
            out.append(bits)
        return np.array(out)


def symbolic_backend(n_shots=None, noise_model=None):
    """a real tangelo CirqSimulator whose `cirq` attribute is the exact stub"""
    from tangelo.linq.target.target_cirq import CirqSimulator
    b = CirqSimulator(n_shots=n_shots, noise_model=noise_model)
    b.cirq = CirqProxy()
    return b


def self_check():
    """stub vs cirq on concrete parameters; raises AssertionError on mismatch"""
    cirq = _cirq()
    qs = cirq.LineQubit.range(3)
    gates = [cirq.H, cirq.X, cirq.Y, cirq.Z, cirq.S, cirq.T, cirq.CNOT, cirq.SWAP, cirq.rx(math.pi / 2), cirq.ry(-math.pi / 2),
             cirq.rz(math.pi / 4), cirq.ZPowGate(exponent=0.25), cirq.XXPowGate(exponent=0.5, global_shift=-0.5),
             cirq.X.controlled(2), cirq.H.controlled(1), cirq.SWAP.controlled(1), cirq.rz(math.pi / 2).controlled(2),
             cirq.ZPowGate(exponent=0.5).controlled(1)]
    for g in gates:
        M, k = gate_matrix(g)
        U = cirq.unitary(g)
        for i in range(2 ** k):
            for j in range(2 ** k):
                assert abs(complex(M[i][j]) - U[i][j]) < 1e-12, (g, i, j, complex(M[i][j]), U[i][j])
    # symbolic exponents evaluated at a point vs cirq at that point
    num.reset_ctx()
    th = num.real_var("th")
    val = {num.ctx().by_name["th"]: 0.7371, num.ctx().pi: math.pi}
    for mk in (cirq.rx, cirq.ry, cirq.rz, lambda t: cirq.ZPowGate(exponent=t / math.pi),
               lambda t: cirq.XXPowGate(exponent=t / math.pi, global_shift=-0.5),
               lambda t: cirq.rz(t).controlled(2), lambda t: cirq.ZPowGate(exponent=t / math.pi).controlled(2)):
        M, k = gate_matrix(mk(th))
        U = cirq.unitary(mk(0.7371))
        for i in range(2 ** k):
            for j in range(2 ** k):
                z = M[i][j].p.evaluate(val)
                assert abs(z - U[i][j]) < 1e-12, (mk, i, j, z, U[i][j])
    # whole-circuit ordering / endianness
    c = cirq.Circuit([cirq.I.on_each(qs), cirq.H(qs[0]), cirq.CNOT(qs[0], qs[2]), cirq.T(qs[2]), cirq.rx(math.pi / 2)(qs[1])])
    ref = cirq.Simulator(dtype=np.complex128).simulate(c).final_state_vector
    got = SymSimulator().simulate(c).final_state_vector
    for a, b in zip(got, ref):
        assert abs(complex(a) - b) < 1e-9, (a, b)
    num.reset_ctx()
    return True
