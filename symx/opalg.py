"""Reference operator algebra (oracle for C16 / C18), written from the textbook definitions and
independent of Tangelo and of openfermion's arithmetic.

An operator is a plain dict  term -> coefficient  (openfermion's term conventions):
  * fermionic term: tuple of (mode, action), action 1 = creation a^dagger, 0 = annihilation a;
  * Pauli term: tuple of (qubit, 'X'|'Y'|'Z') sorted by qubit, () = identity.
Coefficients are any numbers supporting + - * (Python complex or symx.num.Sym).
"""

# ---------------------------------------------------------------- linear structure
def d_copy(A):
    return dict(A)


def d_add(A, B, sign=1):
    out = dict(A)
    for t, c in B.items():
        out[t] = out[t] + sign * c if t in out else sign * c
    return out


def d_scale(A, s):
    return {t: c * s for t, c in A.items()}


def d_add_const(A, s, sign=1):
    return d_add(A, {(): s}, sign)


def d_vectors(A, B):
    """coefficient vectors of A and B over the union of their terms (missing = 0), plus the key list"""
    keys = sorted(set(A) | set(B), key=repr)
    return [A.get(k, 0) for k in keys], [B.get(k, 0) for k in keys], keys


# ---------------------------------------------------------------- Pauli algebra
# sigma_a sigma_b = i^k sigma_c  (textbook table:  XY = iZ, YZ = iX, ZX = iY, and the reversed orders with -i)
_PAULI = {
    ("X", "X"): (0, None), ("Y", "Y"): (0, None), ("Z", "Z"): (0, None),
    ("X", "Y"): (1, "Z"), ("Y", "X"): (3, "Z"),
    ("Y", "Z"): (1, "X"), ("Z", "Y"): (3, "X"),
    ("Z", "X"): (1, "Y"), ("X", "Z"): (3, "Y"),
}
I_POW = (1, 1j, -1, -1j)


def pauli_word_mul(w1, w2):
    """(k, word): w1 * w2 = i^k word"""
    d1, d2 = dict(w1), dict(w2)
    k = 0
    out = {}
    for q in set(d1) | set(d2):
        a, b = d1.get(q), d2.get(q)
        if a is None:
            out[q] = b
        elif b is None:
            out[q] = a
        else:
            kk, c = _PAULI[(a, b)]
            k += kk
            if c is not None:
                out[q] = c
    return k % 4, tuple(sorted(out.items()))


def q_mul(A, B):
    out = {}
    for w1, c1 in A.items():
        for w2, c2 in B.items():
            k, w = pauli_word_mul(w1, w2)
            c = c1 * c2 * I_POW[k]
            out[w] = out[w] + c if w in out else c
    return out


def words_commute(w1, w2):
    """two Pauli words commute iff they differ on an even number of qubits where both act"""
    d1, d2 = dict(w1), dict(w2)
    return sum(1 for q in set(d1) & set(d2) if d1[q] != d2[q]) % 2 == 0


def words_qwc(w1, w2):
    """qubit-wise commutation: on every shared qubit the letters agree"""
    d1, d2 = dict(w1), dict(w2)
    return all(d1[q] == d2[q] for q in set(d1) & set(d2))


def q_commutator(A, B):
    return d_add(q_mul(A, B), q_mul(B, A), -1)


# ---------------------------------------------------------------- fermionic algebra
def f_mul(A, B):
    """product by concatenation of ladder strings"""
    out = {}
    for t1, c1 in A.items():
        for t2, c2 in B.items():
            t = tuple(t1) + tuple(t2)
            c = c1 * c2
            out[t] = out[t] + c if t in out else c
    return out


def f_normal_order(A):
    """canonical form under {a_p, a_q^dagger} = delta_pq, {a_p, a_q} = 0: creation operators first, modes
    descending inside each group.  Returns a new dict."""
    out = {}
    work = [(list(t), c) for t, c in A.items()]
    while work:
        t, c = work.pop()
        i = 0
        done = True
        while i + 1 < len(t):
            (p, x), (q, y) = t[i], t[i + 1]
            if x == 0 and y == 1:
                # a_p a_q^dagger = delta_pq - a_q^dagger a_p
                if p == q:
                    work.append((t[:i] + t[i + 2:], c))
                work.append((t[:i] + [t[i + 1], t[i]] + t[i + 2:], -c))
                done = False
                break
            if x == y:
                if p == q:
                    done = False        # a a = 0 = a^dagger a^dagger
                    break
                if p < q:
                    work.append((t[:i] + [t[i + 1], t[i]] + t[i + 2:], -c))
                    done = False
                    break
            i += 1
        if done:
            k = tuple(t)
            out[k] = out[k] + c if k in out else c
    return out


# ---------------------------------------------------------------- array encodings of Pauli words (documented table)
# letter | integer | (x, z)      I 0 (0,0)   Z 1 (0,1)   X 2 (1,0)   Y 3 (1,1)
LETTER_INT = {"I": 0, "Z": 1, "X": 2, "Y": 3}
INT_LETTER = {v: k for k, v in LETTER_INT.items()}


def word_to_ints(word, n):
    d = dict(word)
    return [LETTER_INT[d.get(q, "I")] for q in range(n)]


def ints_to_word(ints):
    return tuple((q, INT_LETTER[int(v)]) for q, v in enumerate(ints) if int(v) != 0)


def ints_to_binary(ints):
    """(x_0..x_{n-1} | z_0..z_{n-1})"""
    return [v >> 1 for v in ints] + [v & 1 for v in ints]
