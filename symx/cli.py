"""./vcheck Cxx --tier quick|thorough [--replay FILE] [--only REGEX] [--jobs N]"""
import argparse
import importlib
import json
import multiprocessing as mp
import os
import random
import re
import signal
import sys
import time

HERE = os.path.dirname(os.path.dirname(os.path.abspath(__file__)))
EXIT_OK, EXIT_VIOLATION, EXIT_HARNESS = 0, 1, 3


def _load(pid):
    return importlib.import_module(f"harness.{pid.lower()}")


class _Timeout(BaseException):      # not an Exception: path.explore must not swallow the shape budget alarm
    pass


def _alarm(sig, frm):
    raise _Timeout()


def _worker(args):
    pid, name, tier, seed, budget = args
    from . import core
    mod = _load(pid)
    shapes = {s.name: s for s in mod.shapes(tier, seed)}
    sh = shapes[name]
    signal.signal(signal.SIGALRM, _alarm)
    signal.alarm(int(budget))
    t0 = time.time()
    try:
        rec = core.run_shape(sh, tier, seed)
        rec.setdefault("wall", round(time.time() - t0, 2))
    except _Timeout:
        rec = dict(shape=name, group=sh.group, canary=sh.canary, paths=0, obligations=0, discharged=0, trivial=0,
                   inconclusive=[dict(path=None, reason=f"shape budget of {budget}s exceeded")], violations=[],
                   assumptions=[], queries=0, solver_time=0.0, samples=[], funcs=[], harness_errors=[],
                   feas_queries=0, wall=round(time.time() - t0, 2))
        if sh.canary:
            rec["harness_errors"].append(f"canary {name} timed out")
    except Exception as e:
        import traceback
        rec = dict(shape=name, group=sh.group, canary=sh.canary, paths=0, obligations=0, discharged=0, trivial=0,
                   inconclusive=[], violations=[], assumptions=[], queries=0, solver_time=0.0, samples=[], funcs=[],
                   harness_errors=[f"{type(e).__name__}: {e}\n{traceback.format_exc(limit=8)}"], feas_queries=0,
                   wall=round(time.time() - t0, 2))
    finally:
        signal.alarm(0)
    return rec


def known_findings(pid):
    p = os.path.join(HERE, "known_findings.json")
    if not os.path.exists(p):
        return []
    data = json.load(open(p))
    return [e for e in data.get("findings", []) if e.get("property") == pid and e.get("status", "open") == "open"]


def match_finding(v, findings):
    for e in findings:
        m = e.get("match", {})
        if re.search(m.get("shape", ".*"), v["shape"]) and re.search(m.get("label", ".*"), v["label"] + " :: " + v.get("detail", "")):
            return e
    return None


def main(argv=None):
    ap = argparse.ArgumentParser()
    ap.add_argument("pid")
    ap.add_argument("--tier", default=os.environ.get("VERIF_TIER", "quick"), choices=["quick", "thorough"])
    ap.add_argument("--replay")
    ap.add_argument("--only")
    ap.add_argument("--jobs", type=int, default=int(os.environ.get("VERIF_JOBS", "16")))
    ap.add_argument("--list", action="store_true")
    ap.add_argument("--no-evidence", action="store_true")
    a = ap.parse_args(argv)
    pid = a.pid.upper()
    seed = int(os.environ.get("VERIF_SEED", "0"))
    t0 = time.time()
    try:
        mod = _load(pid)
    except ModuleNotFoundError as e:
        print(f"no harness for {pid}: {e}")
        return EXIT_HARNESS

    if a.replay:
        return replay(pid, mod, a.replay)

    shapes = mod.shapes(a.tier, seed)
    if a.only:
        shapes = [s for s in shapes if re.search(a.only, s.name)]
    if a.list:
        for s in shapes:
            print(s.name, "(canary)" if s.canary else "")
        return 0
    names = [s.name for s in shapes]
    assert len(set(names)) == len(names), "duplicate shape names"
    budget = getattr(mod, "SHAPE_BUDGET", {}).get(a.tier, 150 if a.tier == "quick" else 900)
    jobs = [(pid, s.name, a.tier, seed, budget) for s in shapes]
    recs = []
    if a.jobs <= 1 or len(jobs) <= 1:
        recs = [_worker(j) for j in jobs]
    else:
        # harness-level start-up validation (stub self-checks) runs in the parent; the workers come from a fork
        # server that has only IMPORTED the heavy libraries (see symx/preload.py for why not a plain fork)
        try:
            mod.preload()
        except AttributeError:
            pass
        ctx = mp.get_context("forkserver")
        ctx.set_forkserver_preload(["symx.preload"])
        with ctx.Pool(min(a.jobs, len(jobs)), maxtasksperchild=16) as pool:
            for rec in pool.imap_unordered(_worker, jobs, chunksize=1):
                recs.append(rec)
    recs.sort(key=lambda r: r["shape"])
    return report(pid, mod, a, seed, recs, time.time() - t0)


def replay(pid, mod, fname):
    from . import core
    data = json.load(open(fname))
    shapes = {}
    for tier in ("quick", "thorough"):
        for s in mod.shapes(tier, int(data.get("seed", 0))):
            shapes.setdefault(s.name, s)
    sh = shapes.get(data["shape"])
    if sh is None:
        print(f"shape {data['shape']} not found")
        return EXIT_HARNESS
    env, err = core.concrete_run(sh, data["inputs"])
    if err and err != "infeasible":
        print("real code raised:", err)
        print(f"VIOLATION property={pid} replay={fname}")
        return EXIT_VIOLATION
    if env.violations:
        for v in env.violations:
            print("violated:", v["label"], "--", v["detail"])
        print(f"VIOLATION property={pid} replay={fname}")
        return EXIT_VIOLATION
    print("replay: property holds on these inputs")
    return EXIT_OK


def report(pid, mod, a, seed, recs, wall):
    meta = getattr(mod, "META", {})
    findings = known_findings(pid)
    viol, known, herr, inconc = [], {}, [], []
    funcs = set()
    tot = dict(paths=0, obligations=0, discharged=0, trivial=0, queries=0, feas=0, solver=0.0)
    samples, assumptions, canaries = [], [], []
    for r in recs:
        tot["paths"] += r["paths"]
        tot["obligations"] += r["obligations"]
        tot["discharged"] += r["discharged"]
        tot["trivial"] += r["trivial"]
        tot["queries"] += r["queries"]
        tot["feas"] += r.get("feas_queries", 0)
        tot["solver"] += r["solver_time"]
        funcs.update(tuple(f) for f in r["funcs"])
        for s in r["samples"]:
            if len(samples) < 6:
                samples.append(s)
        for s in r["assumptions"]:
            if s not in assumptions and len(assumptions) < 30:
                assumptions.append(s)
        for e in r["harness_errors"]:
            herr.append((r["shape"], e))
        for i in r["inconclusive"]:
            inconc.append(dict(shape=r["shape"], reason=i["reason"][:300]))
        if r["canary"]:
            canaries.append(dict(shape=r["shape"], refuted=bool(r.get("canary_ok")),
                                 witness=(r.get("canary_witness") or {}).get("inputs")))
        for v in r["violations"]:
            e = match_finding(v, findings)
            if e is not None:
                known.setdefault(e["id"], (e, []))[1].append(v)
            else:
                viol.append(v)
    # cross-check a seeded sample of exported queries with the other solvers
    cross = dict(checked=0, agree=0, details=[])
    withq = [r for r in recs if r.get("smt2")]
    rnd = random.Random(seed)
    rnd.shuffle(withq)
    ncross = min(len(withq), 3 if a.tier == "quick" else 12)
    if ncross and not os.environ.get("VERIF_NO_CROSS"):
        from . import smt
        for r in withq[:ncross]:
            res = smt.cross_check_smt2("(set-logic ALL)\n" + r["smt2"] if "(set-logic" not in r["smt2"] else r["smt2"],
                                       timeout_s=10 if a.tier == "quick" else 30)
            cross["checked"] += 1
            ok = all(v in ("unsat", "unknown") for v in res.values())
            if ok:
                cross["agree"] += 1
            else:
                herr.append((r["shape"], f"cross-check disagreement: {res}"))
            cross["details"].append(dict(shape=r["shape"], verdicts=res))
    os.makedirs(os.path.join(HERE, "replay"), exist_ok=True)
    lines = []
    for old in os.listdir(os.path.join(HERE, "replay")):
        if old.startswith(pid + "_"):
            os.unlink(os.path.join(HERE, "replay", old))
    for i, v in enumerate(viol[:int(os.environ.get("VERIF_MAXVIOL", "12"))]):
        fn = os.path.join(HERE, "replay", f"{pid}_{i}.json")
        json.dump(dict(property=pid, shape=v["shape"], inputs=v["inputs"], label=v["label"], detail=v["detail"],
                       path_condition=v.get("path_condition"), seed=seed, tier=a.tier), open(fn, "w"), indent=1, default=str)
        lines.append(f"VIOLATION property={pid} replay={fn}")
        print(f"  violated: [{v['shape']}] {v['label']} -- {v['detail'][:300]}")
    for fid, (e, vs) in known.items():
        print(f"KNOWN-FINDING: property={pid} {e['what']} [{fid}; {len(vs)} witness(es), e.g. shape={vs[0]['shape']} inputs={json.dumps(vs[0]['inputs'], default=str)[:160]}]")
    n_inc = len(inconc)
    nontriv = tot["obligations"] - tot["trivial"]
    ev = dict(
        property_id=pid, tier=a.tier, seed=seed, level="other",
        coverage=dict(
            explanation=meta.get("explanation", "") + " Bounded symbolic execution of the real functions on exact symbolic "
            "values; every (shape, path) obligation is discharged by z3 (negated assertion + path condition); "
            "sat models are replayed on the unmodified code with floats before being reported. Before a query, the negated "
            "obligations are also evaluated numerically at a few random inputs of the path; a hit is only a counterexample candidate "
            "(replayed like a model), never a reason to count an obligation as discharged.",
            shapes=len(recs), paths=tot["paths"], obligations=tot["obligations"], discharged=tot["discharged"],
            inconclusive=n_inc, inconclusive_list=inconc[:25],
            evaluations=max(1, tot["queries"]), path_feasibility_queries=tot["feas"],
            distinct_nontrivial=max(0, nontriv),
            rule="one obligation = one assertion of a harness on one feasible path of one shape; non-trivial = the two "
                 "sides are not syntactically identical after exact normalisation, or the assertion is an inequality/predicate "
                 "(counted per obligation; shapes are distinct by construction)",
            samples=samples or [dict(note="no obligations")],
            checker_cmd=f"z3 {_z3v()} (python API) on QF_NRA/NIA encodings; cross-check /usr/bin/z3 4.8.12 + cvc5 1.0.3",
            trusted_base=meta.get("trusted_base", []) + ["symx normal form (exact Laurent/cyclotomic polynomials)", "symx.refsem oracle", "z3"],
            functions_encoded=[f"{f[0]}:{f[2]} {f[1]}" for f in sorted(funcs)][:400],
            bounds=meta.get("bounds", {}).get(a.tier, meta.get("bounds", "")),
            outside_claim=meta.get("outside", []),
            stubs=meta.get("stubs", []),
            assumptions_taken=assumptions,
            solver_time_s=round(tot["solver"], 2),
            canaries=canaries, cross_check=cross,
            known_findings=[fid for fid in known],
            per_shape=[dict(shape=r["shape"], paths=r["paths"], obligations=r["obligations"], discharged=r["discharged"],
                            inconclusive=len(r["inconclusive"]), wall=r.get("wall")) for r in recs][:400],
        ),
        assumptions=meta.get("assumptions", []) + ["real-number semantics: IEEE rounding is outside the claim"],
        wall_s=round(wall, 2), violations=len(viol),
    )
    if not a.no_evidence and not a.only:
        os.makedirs(os.path.join(HERE, "evidence"), exist_ok=True)
        json.dump(ev, open(os.path.join(HERE, "evidence", f"{pid}.json"), "w"), indent=1, default=str)
    print(f"{pid} [{a.tier}] shapes={len(recs)} paths={tot['paths']} obligations={tot['obligations']} discharged={tot['discharged']} "
          f"inconclusive={n_inc} violations={len(viol)} known={len(known)} canaries={sum(c['refuted'] for c in canaries)}/{len(canaries)} "
          f"queries={tot['queries']} solver={tot['solver']:.1f}s wall={wall:.1f}s")
    if os.environ.get("VERIF_VERBOSE"):
        slow = sorted(recs, key=lambda r: -(r.get("wall") or 0))[:6]
        print("  slowest shapes:", ", ".join(f"{r['shape']} {r.get('wall')}s" for r in slow))
    if inconc and os.environ.get("VERIF_VERBOSE"):
        for i in inconc[:20]:
            print("  inconclusive:", i)
    for ln in lines:
        print(ln)
    if herr:
        for sh, e in herr[:10]:
            print(f"HARNESS-ERROR [{sh}] {e[:1500]}")
        return EXIT_HARNESS if not lines else EXIT_VIOLATION
    if tot["discharged"] == 0 and not lines and not known:
        print("HARNESS-ERROR nothing was discharged")
        return EXIT_HARNESS
    return EXIT_VIOLATION if lines else EXIT_OK


def _z3v():
    import z3
    return z3.get_version_string()


if __name__ == "__main__":
    sys.exit(main())
