"""Encoding of symbolic values / path conditions into z3 (and SMT-LIB2 text for
cross-checking with cvc5 / the system z3), and discharge of obligations."""
import math
import time
from fractions import Fraction as F

import z3

from . import num
from .num import Poly, N, HALF

LEVELS = 6  # N = 2**6


# ---------------------------------------------------------------- formulas
class Cons:
    """real polynomial  p  op  0   with op in ==,!=,>,>=,<,<= """
    __slots__ = ("p", "op")

    def __init__(self, p, op):
        self.p = p
        self.op = op

    def negate(self):
        return Cons(self.p, {"==": "!=", "!=": "==", ">": "<=", ">=": "<", "<": ">=", "<=": ">"}[self.op])

    def __repr__(self):
        return f"[{self.p!r} {self.op} 0]"

    def holds_numeric(self, val, tol=0.0):
        v = self.p.evaluate(val).real
        return {"==": abs(v) <= tol, "!=": abs(v) > tol, ">": v > -tol, ">=": v >= -tol, "<": v < tol, "<=": v <= tol}[self.op]


def f_and(*xs):
    return ("and", list(xs))


def f_or(*xs):
    return ("or", list(xs))


def f_not(x):
    return ("not", x)


def f_cneq(p, q):
    """complex disequality of two polys (both sides are encoded separately)"""
    return ("cneq", p, q)


def f_ceq(p, q):
    return ("not", ("cneq", p, q))


# ---------------------------------------------------------------- real polynomial ring used for the encoding
def rp_add(a, b):
    t = dict(a)
    for m, c in b.items():
        n = t.get(m, 0) + c
        if n == 0:
            t.pop(m, None)
        else:
            t[m] = n
    return t


def rp_scale(a, q):
    return {m: c * q for m, c in a.items()} if q != 0 else {}


def rp_mul(a, b):
    t = {}
    for m1, c1 in a.items():
        for m2, c2 in b.items():
            if not m1:
                m = m2
            elif not m2:
                m = m1
            else:
                d = dict(m1)
                for v, e in m2:
                    d[v] = d.get(v, 0) + e
                m = tuple(sorted(d.items()))
            n = t.get(m, 0) + c1 * c2
            if n == 0:
                t.pop(m, None)
            else:
                t[m] = n
    return t


def c_mul(a, b):
    """complex multiply of (re, im) pairs of RP"""
    ar, ai = a
    br, bi = b
    if not ai and not bi:
        return rp_mul(ar, br), {}
    re = rp_add(rp_mul(ar, br), rp_scale(rp_mul(ai, bi), -1))
    im = rp_add(rp_mul(ar, bi), rp_mul(ai, br))
    return re, im


RP_ONE = {(): F(1)}


class Encoder:
    """Encodes a set of polys/formulas over num.CTX into z3 terms."""

    def __init__(self, ctx=None):
        self.ctx = ctx or num.ctx()
        self.base = {}        # exp var -> D
        self.zv = {}          # name -> z3 var
        self.side = []        # side constraints (z3)
        self.side_keys = set()
        self.used_levels = set()
        self.used_inv = set()
        self.used_exp = set()
        self.used_real = set()
        self._pow_cache = {}

    # -- pass 1: bases
    def scan(self, polys):
        for p in polys:
            for (k, vs) in p.t:
                for v, e in vs:
                    if self.ctx.kind[v] == "exp":
                        d = F(e).denominator
                        self.base[v] = self.base.get(v, 1) * d // math.gcd(self.base.get(v, 1), d)

    def scan_formula(self, f):
        for p in formula_polys(f):
            self.scan([p])

    # -- variables
    def var(self, name, integer=False):
        v = self.zv.get(name)
        if v is None:
            v = z3.ToReal(z3.Int(name)) if integer else z3.Real(name)
            self.zv[name] = v
        return v

    def _cs_names(self, ev):
        nm = self.ctx.names[ev]
        D = self.base.get(ev, 1)
        return f"cos({nm}/{D})", f"sin({nm}/{D})"

    def _expvar_pow(self, ev, q):
        D = self.base.get(ev, 1)
        m = q * D
        assert F(m).denominator == 1, (q, D)
        m = int(m)
        key = (ev, m)
        r = self._pow_cache.get(key)
        if r is not None:
            return r
        self.used_exp.add(ev)
        cn, sn = self._cs_names(ev)
        c = {((cn, 1),): F(1)}
        s = {((sn, 1),): F(1 if m >= 0 else -1)}
        out = (RP_ONE, {})
        for _ in range(abs(m)):
            out = c_mul(out, (c, s))
        self._pow_cache[key] = out
        return out

    def _w_pow(self, k):
        """w^k as (re, im) RP using per-level cos/sin constants u_j = exp(i*pi/2^j)"""
        key = ("w", k)
        r = self._pow_cache.get(key)
        if r is not None:
            return r
        out = (RP_ONE, {})
        # k = sum_j b_j * 2^(LEVELS-j)
        for j in range(0, LEVELS + 1):
            bit = (k >> (LEVELS - j)) & 1
            if not bit:
                continue
            if j == 0:
                out = (rp_scale(out[0], -1), rp_scale(out[1], -1))
            elif j == 1:
                out = c_mul(out, ({}, RP_ONE))
            else:
                self.used_levels.add(j)
                out = c_mul(out, ({((f"cpi{2**j}", 1),): F(1)}, {((f"spi{2**j}", 1),): F(1)}))
        self._pow_cache[key] = out
        return out

    def poly(self, p):
        """Poly -> (re RP, im RP)"""
        re, im = {}, {}
        for (k, vs), c in p.t.items():
            term = ({(): c}, {})
            if k:
                term = c_mul(term, self._w_pow(k))
            for v, e in vs:
                if self.ctx.kind[v] == "real":
                    self.used_real.add(v)
                    nm = self.ctx.names[v]
                    if e > 0:
                        term = c_mul(term, ({((nm, int(e)),): F(1)}, {}))
                    else:
                        self.used_inv.add(v)
                        term = c_mul(term, ({((nm + "^-1", int(-e)),): F(1)}, {}))
                else:
                    term = c_mul(term, self._expvar_pow(v, e))
            re = rp_add(re, term[0])
            im = rp_add(im, term[1])
        return re, im

    def rp_z3(self, rp):
        if not rp:
            return z3.RealVal(0)
        terms = []
        for m, c in rp.items():
            fs = []
            if c != 1 or not m:
                fs.append(z3.RealVal(str(c)))
            for v, e in m:
                zv = self._zvar(v)
                fs.extend([zv] * e)
            terms.append(fs[0] if len(fs) == 1 else z3.Product(*fs))
        return terms[0] if len(terms) == 1 else z3.Sum(*terms)

    def _zvar(self, name):
        v = self.zv.get(name)
        if v is not None:
            return v
        integer = False
        if name in self.ctx.by_name:
            integer = bool(self.ctx.info[self.ctx.by_name[name]].get("integer"))
        return self.var(name, integer)

    # -- formulas
    def cons(self, c):
        # constraints without trigonometric variables encode independently of the per-query angle bases: the z3 term
        # of such a constraint OBJECT is cached in the (per path) context -- path conditions are re-encoded per query
        cache = self.ctx.__dict__.setdefault("_cons_cache", {})
        hit = cache.get(id(c))
        if hit is not None and hit[0] is c:
            _, out, ur, ui, ul = hit
            self.used_real |= ur
            self.used_inv |= ui
            self.used_levels |= ul
            return out
        plain = not any(self.ctx.kind[v] == "exp" for (k, vs) in c.p.t for v, e in vs)
        enc = Encoder(self.ctx) if plain else self
        re, im = enc.poly(c.p)
        e = enc.rp_z3(re)
        z = z3.RealVal(0)
        out = {"==": e == z, "!=": e != z, ">": e > z, ">=": e >= z, "<": e < z, "<=": e <= z}[c.op]
        if plain:
            self.used_real |= enc.used_real
            self.used_inv |= enc.used_inv
            self.used_levels |= enc.used_levels
            for k, v in enc.zv.items():
                self.zv.setdefault(k, v)
            cache[id(c)] = (c, out, enc.used_real, enc.used_inv, enc.used_levels)
        return out

    def formula(self, f):
        if isinstance(f, Cons):
            return self.cons(f)
        if isinstance(f, bool):
            return z3.BoolVal(f)
        tag = f[0]
        if tag == "and":
            return z3.And(*[self.formula(x) for x in f[1]]) if f[1] else z3.BoolVal(True)
        if tag == "or":
            return z3.Or(*[self.formula(x) for x in f[1]]) if f[1] else z3.BoolVal(False)
        if tag == "not":
            return z3.Not(self.formula(f[1]))
        if tag == "cneq":
            a, b = self.poly(f[1]), self.poly(f[2])
            return z3.Or(self.rp_z3(a[0]) != self.rp_z3(b[0]), self.rp_z3(a[1]) != self.rp_z3(b[1]))
        if tag == "z3":
            return f[1]
        raise ValueError(f)

    def side_constraints(self):
        out = []
        ctx = self.ctx
        for ev in sorted(self.used_exp):
            cn, sn = self._cs_names(ev)
            c, s = self._zvar(cn), self._zvar(sn)
            out.append(c * c + s * s == 1)
        for v in sorted(self.used_real | self.used_inv):
            info = ctx.info[v]
            x = self._zvar(ctx.names[v])
            if info.get("lo") is not None:
                out.append(x >= z3.RealVal(str(info["lo"])))
            if info.get("hi") is not None:
                out.append(x <= z3.RealVal(str(info["hi"])))
            if info.get("nonzero"):
                out.append(x != 0)
        for v in sorted(self.used_inv):
            x = self._zvar(ctx.names[v])
            xi = self._zvar(ctx.names[v] + "^-1")
            out.append(x * xi == 1)
        if self.used_levels:
            top = max(self.used_levels)
            prev = None
            for j in range(2, top + 1):
                c, s = self._zvar(f"cpi{2**j}"), self._zvar(f"spi{2**j}")
                out += [c > 0, s > 0]
                if j == 2:
                    out += [2 * c * c == 1, c == s]
                else:
                    out += [2 * c * c == 1 + prev, 2 * s * s == 1 - prev]
                prev = c
        return out


def formula_polys(f):
    if isinstance(f, Cons):
        yield f.p
    elif isinstance(f, bool):
        return
    elif f[0] in ("and", "or"):
        for x in f[1]:
            yield from formula_polys(x)
    elif f[0] == "not":
        yield from formula_polys(f[1])
    elif f[0] == "cneq":
        yield f[1]
        yield f[2]


STATS = dict(queries=0, time=0.0, sat=0, unsat=0, unknown=0)


def solve(formulas, timeout_ms=20000, want_model=True, ctx=None, extra_defs=True):
    """Decide satisfiability of the conjunction of `formulas` (+ ctx.defs + side constraints).
    returns (verdict, model_dict_or_None, seconds, encoder)"""
    ctx = ctx or num.ctx()
    fs = list(formulas) + (list(ctx.defs) if extra_defs else [])
    enc = Encoder(ctx)
    for f in fs:
        enc.scan_formula(f)
    zf = [enc.formula(f) for f in fs]
    s = z3.Solver()
    s.set("timeout", int(timeout_ms))
    for z in zf:
        s.add(z)
    for z in enc.side_constraints():
        s.add(z)
    t0 = time.time()
    r = s.check()
    dt = time.time() - t0
    STATS["queries"] += 1
    STATS["time"] += dt
    verdict = str(r)
    STATS[verdict] = STATS.get(verdict, 0) + 1
    model = None
    if verdict == "sat" and want_model:
        model = extract_model(s.model(), enc)
    return verdict, model, dt, enc, s


def _num_value(v):
    if z3.is_rational_value(v):
        return float(F(v.numerator_as_long(), v.denominator_as_long()))
    if z3.is_algebraic_value(v):
        a = v.approx(20)
        return float(F(a.numerator_as_long(), a.denominator_as_long()))
    if z3.is_int_value(v):
        return float(v.as_long())
    try:
        return float(v.as_decimal(20).rstrip("?"))
    except Exception:
        return None


def extract_model(m, enc):
    out = {}
    for name, zv in enc.zv.items():
        base = zv
        if z3.is_app(zv) and zv.decl().kind() == z3.Z3_OP_TO_REAL:
            base = zv.arg(0)
        v = m.eval(base, model_completion=True)
        out[name] = _num_value(v)
    out["__bases__"] = {enc.ctx.names[ev]: D for ev, D in enc.base.items()}
    return out


def to_smt2(solver):
    return solver.to_smt2()


def cross_check_smt2(text, timeout_s=20):
    """re-decide an exported query with cvc5 (python wheel) and /usr/bin/z3; returns dict of verdicts"""
    import subprocess, tempfile, os
    res = {}
    with tempfile.NamedTemporaryFile("w", suffix=".smt2", delete=False, dir=os.environ.get("VERIF_TMP", "/tmp")) as f:
        f.write(text)
        path = f.name
    try:
        for nm, cmd in (("z3-4.8.12", ["/usr/bin/z3", f"-T:{timeout_s}", path]),
                        ("cvc5-bin", ["cvc5", f"--tlimit={timeout_s*1000}", "--nl-cov", path])):
            try:
                o = subprocess.run(cmd, capture_output=True, text=True, timeout=timeout_s + 5)
                txt = (o.stdout + o.stderr).strip()
                if "--nl-cov" in cmd and "option parsing" in txt:
                    # this cvc5 build has no libpoly: same query without the coverings option
                    o = subprocess.run([c for c in cmd if c != "--nl-cov"], capture_output=True, text=True, timeout=timeout_s + 5)
                    txt = (o.stdout + o.stderr).strip()
                if "(error" in txt:
                    res[nm] = "error"
                else:
                    first = txt.split("\n")[0].strip() if txt else "unknown"
                    res[nm] = first if first in ("sat", "unsat", "unknown") else "unknown"
            except Exception as e:  # timeout etc.
                res[nm] = "unknown"
    finally:
        os.unlink(path)
    return res
