"""Environment shims: same-named module globals injected into Tangelo modules while a
harness runs symbolically (nothing in /repo is edited).  Injection is by IDENTITY of the
bound object (numpy module, math functions, builtins used as type gates)."""
import builtins
import contextlib
import importlib
import math
import numbers
import sys

import numpy as _np

from . import num, path
from .num import Sym, SymEscape

_ACTIVE = False


def active():
    return _ACTIVE


# ---------------------------------------------------------------- builtin type gates
class _FloatMeta(type):
    def __instancecheck__(cls, x):
        return isinstance(x, builtins.float) or (isinstance(x, Sym) and x.is_real())

    def __eq__(cls, o):
        return o is cls or o is builtins.float

    def __ne__(cls, o):
        return not type(cls).__eq__(cls, o)

    def __hash__(cls):
        return hash(builtins.float)


class sym_float(builtins.float, metaclass=_FloatMeta):
    def __new__(cls, x=0.0):
        if isinstance(x, Sym):
            if x.p.const_value() is not None:
                return builtins.float(x)
            if not x.is_real():
                raise TypeError("can't convert complex to float")
            return x
        return builtins.float(x)


class _IntMeta(type):
    def __instancecheck__(cls, x):
        return isinstance(x, builtins.int)

    def __eq__(cls, o):
        return o is cls or o is builtins.int

    def __ne__(cls, o):
        return not type(cls).__eq__(cls, o)

    def __hash__(cls):
        return hash(builtins.int)


class sym_int(builtins.int, metaclass=_IntMeta):
    """int(x) of a non-constant symbolic real = truncation toward zero, modelled by an integer solver variable"""
    def __new__(cls, *a, **k):
        if len(a) == 1 and not k and isinstance(a[0], Sym) and a[0].p.const_value() is None:
            from . import path
            if not a[0].is_real():
                raise TypeError("int() argument must be a real number")
            return path.sym_trunc(a[0])
        return builtins.int(*a, **k)


class _ComplexMeta(type):
    def __instancecheck__(cls, x):
        return isinstance(x, builtins.complex) or (isinstance(x, Sym) and not x.is_real())

    def __eq__(cls, o):
        return o is cls or o is builtins.complex

    def __ne__(cls, o):
        return not type(cls).__eq__(cls, o)

    def __hash__(cls):
        return hash(builtins.complex)


class sym_complex(builtins.complex, metaclass=_ComplexMeta):
    def __new__(cls, *a):
        if any(isinstance(x, Sym) for x in a):
            if len(a) == 1:
                return a[0]
            return Sym.of(a[0]) + Sym(num.I_POLY) * Sym.of(a[1])
        return builtins.complex(*a)


_TYPE_ALIAS = {}


def sym_type(*a):
    if len(a) == 1 and isinstance(a[0], Sym):
        return sym_float if a[0].is_real() else sym_complex
    t = builtins.type(*a)
    # `type(x) is int` inside a shimmed module compares with the module's own binding of the name
    return _TYPE_ALIAS.get(t, t) if len(a) == 1 else t


_TYPE_ALIAS.update({builtins.int: sym_int, builtins.float: sym_float, builtins.complex: sym_complex})
for _c, _n in ((sym_int, "int"), (sym_float, "float"), (sym_complex, "complex")):
    _c.__name__ = _c.__qualname__ = _n


def sym_isinstance(x, types):
    if isinstance(x, Sym):
        ts = types if isinstance(types, tuple) else (types,)
        real = x.is_real()
        for t in ts:
            if t in (Sym, object):
                return True
            if t in (builtins.float, numbers.Real, numbers.Number, _np.floating, sym_float) and real:
                return True
            if t in (builtins.complex, numbers.Complex, numbers.Number, _np.complexfloating, sym_complex):
                if t is builtins.complex or t is sym_complex:
                    if not real:
                        return True
                else:
                    return True
        return False
    return builtins.isinstance(x, types)


# ---------------------------------------------------------------- math proxies
def _m_isclose(a, b, rel_tol=1e-9, abs_tol=0.0):
    if isinstance(a, Sym) or isinstance(b, Sym):
        d = abs(Sym.of(a) - Sym.of(b))
        if abs_tol and not rel_tol:
            return d <= abs_tol
        bound = abs_tol
        if rel_tol:
            m1, m2 = abs(Sym.of(a)) * rel_tol, abs(Sym.of(b)) * rel_tol
            bound = max(m1, m2, abs_tol)
        return d <= bound
    return math.isclose(a, b, rel_tol=rel_tol, abs_tol=abs_tol)


def _wrap_unary(fn, meth):
    def f(x, *a, **k):
        if isinstance(x, Sym):
            return getattr(x, meth)()
        return fn(x, *a, **k)
    f.__name__ = getattr(fn, "__name__", meth)
    return f


MATH_REPL = {
    id(math.isclose): _m_isclose,
    id(math.sqrt): _wrap_unary(math.sqrt, "sqrt"),
    id(math.cos): _wrap_unary(math.cos, "cos"),
    id(math.sin): _wrap_unary(math.sin, "sin"),
}


class MathProxy:
    def __getattr__(self, k):
        v = getattr(math, k)
        return MATH_REPL.get(id(v), v)


# ---------------------------------------------------------------- numpy proxy
class SymArray(_np.ndarray):
    """object-dtype ndarray with correct .real/.imag/.conj for symbolic entries"""

    def __new__(cls, data):
        a = _np.empty(_np.shape(data), dtype=object)
        if a.ndim == 0:
            a[()] = data
        else:
            flat = a.reshape(-1)
            src = _np.asarray(data, dtype=object).reshape(-1)
            for i in range(len(flat)):
                flat[i] = src[i]
        return a.view(cls)

    @property
    def real(self):
        return _vec(lambda x: x.real if isinstance(x, (Sym, complex)) else x, self)

    @property
    def imag(self):
        return _vec(lambda x: x.imag if isinstance(x, (Sym, complex)) else 0, self)

    def conj(self):
        return _vec(lambda x: x.conjugate() if hasattr(x, "conjugate") else x, self)

    conjugate = conj

    def astype(self, dtype, *a, **k):
        if dtype in (complex, float, _np.complex128, _np.float64, _np.complex64) and _has_sym(self):
            return self
        return _np.ndarray.astype(self, dtype, *a, **k)


def _has_sym(a):
    if isinstance(a, Sym):
        return True
    if isinstance(a, _np.ndarray):
        return a.dtype == object and any(isinstance(x, Sym) for x in a.reshape(-1))
    if isinstance(a, (list, tuple)):
        return any(_has_sym(x) for x in a)
    return False


def _vec(f, a):
    a = _np.asarray(a, dtype=object)
    out = _np.empty(a.shape, dtype=object)
    of, af = out.reshape(-1), a.reshape(-1)
    for i in range(len(af)):
        of[i] = f(af[i])
    return out.view(SymArray)


def as_symarray(x):
    return SymArray(x)


ALLOC_OBJECT = False     # harness switch: np.zeros/ones/... return SymArray


class NpProxy:
    """stands in for the numpy module inside shimmed Tangelo modules"""

    def __init__(self):
        self.linalg = _LinalgProxy()

    def __getattr__(self, k):
        return getattr(_np, k)

    # allocation
    def _alloc(self, fn, *a, **k):
        if ALLOC_OBJECT:
            k = dict(k)
            pos = 2 if fn is _np.full else 1          # dtype given positionally: np.zeros(shape, complex)
            if len(a) > pos and "dtype" not in k:
                k["dtype"] = a[pos]
                a = a[:pos]
            dt = k.get("dtype", float)
            if dt in (float, complex, _np.float64, _np.complex128, _np.complex64, None):
                k["dtype"] = object
                arr = fn(*a, **k)
                return arr.view(SymArray)
        return fn(*a, **k)

    def zeros(self, *a, **k):
        return self._alloc(_np.zeros, *a, **k)

    def ones(self, *a, **k):
        return self._alloc(_np.ones, *a, **k)

    def empty(self, *a, **k):
        return self._alloc(_np.zeros, *a, **k)

    def full(self, *a, **k):
        return self._alloc(_np.full, *a, **k)

    def zeros_like(self, a, *r, **k):
        if _has_sym(a) or ALLOC_OBJECT:
            return _vec(lambda x: 0, a)
        return _np.zeros_like(a, *r, **k)

    def array(self, x, *a, **k):
        if _has_sym(x):
            return SymArray(x)
        return _np.array(x, *a, **k)

    def asarray(self, x, *a, **k):
        if _has_sym(x):
            return x if isinstance(x, SymArray) else SymArray(x)
        return _np.asarray(x, *a, **k)

    def real(self, x):
        if isinstance(x, Sym):
            return x.real
        if _has_sym(x):
            return _vec(lambda v: v.real if isinstance(v, (Sym, complex)) else v, x)
        return _np.real(x)

    def imag(self, x):
        if isinstance(x, Sym):
            return x.imag
        if _has_sym(x):
            return _vec(lambda v: v.imag if isinstance(v, (Sym, complex)) else 0, x)
        return _np.imag(x)

    def conj(self, x):
        if isinstance(x, Sym):
            return x.conjugate()
        if _has_sym(x):
            return _vec(lambda v: v.conjugate() if hasattr(v, "conjugate") else v, x)
        return _np.conj(x)

    conjugate = conj

    def abs(self, x):
        if isinstance(x, Sym):
            return abs(x)
        if _has_sym(x):
            return _vec(abs, x)
        return _np.abs(x)

    absolute = abs

    def _un(name):
        def f(self, x, *a, **k):
            if isinstance(x, Sym):
                return getattr(x, name)()
            if _has_sym(x):
                return _vec(lambda v: getattr(Sym.of(v), name)(), x)
            return getattr(_np, name)(x, *a, **k)
        return f

    sqrt = _un("sqrt")
    cos = _un("cos")
    sin = _un("sin")
    exp = _un("exp")
    arccos = _un("arccos")

    def isclose(self, a, b, rtol=1e-5, atol=1e-8):
        if _has_sym(a) or _has_sym(b):
            if isinstance(a, _np.ndarray) or isinstance(b, _np.ndarray):
                raise SymEscape("np.isclose on symbolic arrays")
            d = abs(Sym.of(a) - Sym.of(b))
            return d <= atol + rtol * abs(Sym.of(b))
        return _np.isclose(a, b, rtol=rtol, atol=atol)

    def allclose(self, a, b, rtol=1e-5, atol=1e-8):
        if _has_sym(a) or _has_sym(b):
            A, B = _np.asarray(a, dtype=object).reshape(-1), _np.asarray(b, dtype=object).reshape(-1)
            if len(B) == 1 and len(A) > 1:
                B = [B[0]] * len(A)
            for x, y in zip(A, B):
                if not (abs(Sym.of(x) - Sym.of(y)) <= atol + rtol * abs(Sym.of(y))):
                    return False
            return True
        return _np.allclose(a, b, rtol=rtol, atol=atol)

    def dot(self, a, b):
        if _has_sym(a) or _has_sym(b):
            r = _np.dot(_np.asarray(a, dtype=object), _np.asarray(b, dtype=object))
            return r.view(SymArray) if isinstance(r, _np.ndarray) else r
        return _np.dot(a, b)

    def vdot(self, a, b):
        if _has_sym(a) or _has_sym(b):
            A = _np.asarray(a, dtype=object).reshape(-1)
            B = _np.asarray(b, dtype=object).reshape(-1)
            s = 0
            for x, y in zip(A, B):
                s = s + (x.conjugate() if hasattr(x, "conjugate") else x) * y
            return s
        return _np.vdot(a, b)

    def angle(self, x):
        if isinstance(x, Sym):
            return path.sym_angle(x)          # constants, or a cancellation rule declared by the harness
        if _has_sym(x):
            return _vec(lambda v: path.sym_angle(Sym.of(v)), x)
        return _np.angle(x)


class _LinalgProxy:
    def __getattr__(self, k):
        return getattr(_np.linalg, k)

    def norm(self, x, *a, **k):
        if _has_sym(x):
            if a or k:
                raise SymEscape("np.linalg.norm with options on symbolic array")
            s = Sym.of(0)
            for v in _np.asarray(x, dtype=object).reshape(-1):
                v = Sym.of(v)
                s = s + v * v.conjugate()
            return s.sqrt()
        return _np.linalg.norm(x, *a, **k)


NP_PROXY = NpProxy()
MATH_PROXY = MathProxy()

_NP_FUNCS = {}
for _k in ("zeros", "ones", "empty", "full", "zeros_like", "array", "asarray", "real", "imag", "conj", "conjugate",
           "abs", "absolute", "sqrt", "cos", "sin", "exp", "arccos", "isclose", "allclose", "dot", "vdot", "angle"):
    _NP_FUNCS[id(getattr(_np, _k))] = getattr(NP_PROXY, _k)


def _inject(mod, extra=None):
    """replace environment bindings in module globals; returns dict of originals"""
    saved = {}
    g = mod.__dict__
    for k, v in list(g.items()):
        new = None
        if v is _np:
            new = NP_PROXY
        elif v is math:
            new = MATH_PROXY
        elif id(v) in MATH_REPL and getattr(v, "__module__", None) == "math":
            new = MATH_REPL[id(v)]
        elif id(v) in _NP_FUNCS and callable(v) and getattr(v, "__module__", "").startswith("numpy"):
            new = _NP_FUNCS[id(v)]
        if new is not None:
            saved[k] = v
            g[k] = new
    for k, new in (("float", sym_float), ("complex", sym_complex), ("int", sym_int), ("type", sym_type), ("isinstance", sym_isinstance)):
        saved[k] = g.get(k, _MISSING)
        g[k] = new
    for k, new in (extra or {}).items():
        saved[k] = g.get(k, _MISSING)
        g[k] = new
    return saved


_MISSING = object()

numbers.Number.register(Sym)      # openfermion's COEFFICIENT_TYPES contain numbers.Number

DEFAULT_MODULES = (
    "tangelo.linq.gate", "tangelo.linq.circuit",
    ("tangelo.toolboxes.operators.operators",
     {"COEFFICIENT_TYPES": (int, builtins.float, builtins.complex, _np.integer, _np.floating, _np.complexfloating, Sym)}),
)

_GLOBAL_PATCHES = []      # list of (install, uninstall) callables registered by stubs


def register_global_patch(install, uninstall):
    _GLOBAL_PATCHES.append((install, uninstall))


@contextlib.contextmanager
def symbolic_mode(modules=()):
    global _ACTIVE
    saved = []
    dn = [m[0] if isinstance(m, tuple) else m for m in DEFAULT_MODULES]
    mods = list(DEFAULT_MODULES) + [m for m in modules if (m[0] if isinstance(m, tuple) else m) not in dn]
    done = []
    try:
        for name in mods:
            extra = None
            if isinstance(name, tuple):
                name, extra = name
            mod = importlib.import_module(name)
            saved.append((mod, _inject(mod, extra)))
        for inst, uninst in _GLOBAL_PATCHES:
            inst()
            done.append(uninst)
        _ACTIVE = True
        yield
    finally:
        _ACTIVE = False
        for uninst in reversed(done):
            try:
                uninst()
            except Exception:
                pass
        for mod, sv in saved:
            for k, v in sv.items():
                if v is _MISSING:
                    mod.__dict__.pop(k, None)
                else:
                    mod.__dict__[k] = v


@contextlib.contextmanager
def concrete_mode():
    """real code, real third-party libraries, ordinary floats"""
    global _ACTIVE
    was = _ACTIVE
    _ACTIVE = False
    try:
        yield
    finally:
        _ACTIVE = was
