#!/bin/bash
# For every seeded change /verif/seeded/<name>/{patch.diff,demo.py,meta.json}: apply it to a scratch worktree of /repo,
# run its demonstration (must fail), run the quick check of its property against that worktree (VERIF_REPO), record whether
# the check reports a violation, remove the worktree.  Usage: tools/seeded_run.sh [tier] [name-regex]
# Writes seeded/RESULTS.tsv and seeded/README.md.  Nothing is ever applied to /repo itself.
tier=${1:-quick}
filter=${2:-.}
HERE="$(cd "$(dirname "$0")/.." && pwd)"
cd "$HERE"
WT=/tmp/wt/seedrun_$$
out=seeded/RESULTS.tsv
tmp=$(mktemp)
for d in seeded/*/; do
  name=$(basename "$d")
  echo "$name" | grep -Eq "$filter" || continue
  [ -f "$d/patch.diff" ] || continue
  prop=$(python3 -c "import json;print(json.load(open('$d/meta.json'))['property'])")
  git -C /repo worktree add -q --detach "$WT" || { echo "worktree failed"; exit 3; }
  if ! git -C "$WT" apply "$HERE/$d/patch.diff" 2>/dev/null; then
    echo -e "$name\t$prop\tPATCH-DOES-NOT-APPLY\t-\t-" >> "$tmp"
    git -C /repo worktree remove --force "$WT"; continue
  fi
  (cd /repo && PYTHONPATH=/repo OMP_NUM_THREADS=2 timeout 600 /venv/bin/python -W ignore "$HERE/$d/demo.py" >/dev/null 2>&1); clean_rc=$?
  (cd "$WT" && PYTHONPATH="$WT" OMP_NUM_THREADS=2 timeout 600 /venv/bin/python -W ignore "$HERE/$d/demo.py" >/dev/null 2>&1); demo_rc=$?
  s=$(date +%s)
  res=$(VERIF_REPO="$WT" timeout 3000 ./vcheck "$prop" --tier "$tier" --no-evidence 2>&1); rc=$?
  e=$(date +%s)
  nviol=$(echo "$res" | grep -c "^VIOLATION")
  first=$(echo "$res" | grep "violated:" | head -1 | cut -c1-160 | tr '\t' ' ')
  verdict=MISSED
  [ $rc -eq 1 ] && verdict=CAUGHT
  [ $rc -eq 3 ] && verdict=HARNESS-ERROR
  if [ "$verdict" = MISSED ]; then
    # a change that shows only outside the bounds of its own property's check may be inside those of a neighbouring property
    # (meta.json "also_check": ["Cxx", ...], added by hand with the reason in "also_check_reason")
    for other in $(python3 -c "import json;print(' '.join(json.load(open('$d/meta.json')).get('also_check',[])))"); do
      res2=$(VERIF_REPO="$WT" timeout 3000 ./vcheck "$other" --tier "$tier" --no-evidence 2>&1); rc2=$?
      if [ $rc2 -eq 1 ]; then
        verdict="MISSED-by-$prop/CAUGHT-by-$other"
        nviol=$(echo "$res2" | grep -c "^VIOLATION")
        first=$(echo "$res2" | grep "violated:" | head -1 | cut -c1-160 | tr '\t' ' ')
        break
      fi
    done
  fi
  echo -e "$name\t$prop\t$verdict\tdemo clean=$clean_rc mutated=$demo_rc\t$((e-s))s\t$nviol\t$first" >> "$tmp"
  echo "$name $prop $verdict (demo clean=$clean_rc mutated=$demo_rc, check rc=$rc, $((e-s))s) $first"
  git -C /repo worktree remove --force "$WT"
done
if [ "$filter" = "." ]; then mv "$tmp" "$out"; else
  # merge: replace rows of the filtered names
  touch "$out"; grep -v -E "^($(cut -f1 "$tmp" | paste -sd'|'))	" "$out" > "$out.new"; cat "$tmp" >> "$out.new"; sort "$out.new" > "$out"; rm -f "$out.new" "$tmp"
fi
python3 - <<'E'
import json, os
rows=[l.rstrip("\n").split("\t") for l in open("seeded/RESULTS.tsv") if l.strip()]
with open("seeded/README.md","w") as f:
    f.write("# Seeded changes and which check catches them\n\n")
    f.write("Each directory holds `patch.diff` (a change to Tangelo written by an independent sub-agent that saw only the property text), "
            "`demo.py` (passes on the unchanged tree, fails with the change) and `meta.json`. `tools/seeded_run.sh` applies each patch to a scratch "
            "worktree, runs the demonstration and the property's check (`VERIF_REPO=<worktree> ./vcheck <id>`), and regenerates this table.\n\n")
    f.write("| change | property | check verdict | demo | time | first violated obligation | what it changes | needs |\n|---|---|---|---|---|---|---|---|\n")
    def key(r):
        a, b = r[0].split("_")
        return (a, int(b))
    for r in sorted(rows, key=key):
        name=r[0]
        try: m=json.load(open(f"seeded/{name}/meta.json"))
        except Exception: m={}
        viol = (r[6] if len(r) > 6 else "").replace("violated:", "").replace("|", "/").strip()[:150]
        f.write(f"| {name} | {r[1]} | **{r[2]}** | {r[3] if len(r)>3 else ''} | {r[4] if len(r)>4 else ''} | {viol} | {str(m.get('summary',''))[:200].replace('|','/')} | {str(m.get('needs',''))[:160].replace('|','/')} |\n")
E
