#!/bin/bash
# run every enabled check (quick or given tier) sequentially; print one summary line per property
tier=${1:-quick}
cd "$(dirname "$0")/.."
for p in $(cat tools/enabled.txt); do
  s=$(date +%s)
  out=$(timeout 3000 ./vcheck $p --tier $tier 2>&1); rc=$?
  e=$(date +%s)
  echo "$p rc=$rc $((e-s))s :: $(echo "$out" | grep -E "^$p \[" | tail -1)"
  echo "$out" | grep -E "^VIOLATION|HARNESS-ERROR|KNOWN-FINDING" | cut -c1-200 | head -5
done
