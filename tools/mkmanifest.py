#!/usr/bin/env python3
"""Regenerates MANIFEST.json from harness modules (harness/cXX.py: MANIFEST_ENTRY) + tools/not_applicable.json."""
import importlib
import json
import os
import sys

HERE = os.path.dirname(os.path.dirname(os.path.abspath(__file__)))
sys.path.insert(0, HERE)

props = [json.loads(l) for l in open(os.path.join(HERE, "properties.jsonl"))]
na_file = os.path.join(HERE, "tools", "not_applicable.json")
na_reasons = json.load(open(na_file)) if os.path.exists(na_file) else {}
claims_file = os.path.join(HERE, "tools", "claims.json")
claims = json.load(open(claims_file))
cd = os.path.join(HERE, "tools", "claims.d")
if os.path.isdir(cd):
    for fn in sorted(os.listdir(cd)):
        if fn.endswith(".json"):
            claims[fn[:-5].upper()] = json.load(open(os.path.join(cd, fn)))

# later additions to a claim (kept apart from the original claim texts so that the history stays readable)
add_file = os.path.join(HERE, "tools", "claims_addenda.json")
if os.path.exists(add_file):
    for pid, a in json.load(open(add_file)).items():
        if pid in claims:
            claims[pid] = dict(claims[pid])
            if a.get("text_add"):
                claims[pid]["text"] = claims[pid]["text"] + " " + a["text_add"]
            for old, new in a.get("note_replace", []):
                assert old in claims[pid]["note"], (pid, old)
                claims[pid]["note"] = claims[pid]["note"].replace(old, new)
            if a.get("note_add"):
                claims[pid]["note"] = claims[pid]["note"] + " " + a["note_add"]

enabled = set(open(os.path.join(HERE, "tools", "enabled.txt")).read().split())
checks, na = [], []
for p in props:
    pid = p["id"]
    c = claims.get(pid)
    if c and pid in enabled and os.path.exists(os.path.join(HERE, "harness", pid.lower() + ".py")):
        checks.append(dict(
            property_id=pid,
            quick_cmd=f"./vcheck {pid} --tier quick",
            thorough_cmd=f"./vcheck {pid} --tier thorough",
            evidence_file=f"/verif/evidence/{pid}.json",
            replay_cmd_template=f"./vcheck {pid} --replay {{path}}",
            engine="symx",
            level_claimed=dict(category="other", text=c["text"], design_ref=f"DESIGN.md section 5 ({pid})"),
            level_note=c["note"],
            technique="bounded symbolic execution of the real Python functions (operator-overloading executor with "
                      "solver-decided path forking) + z3 SMT discharge, concrete replay of models",
        ))
    else:
        na.append(dict(property_id=pid, reason=na_reasons.get(pid, "check not built yet in this session (no claim made)")))

man = dict(
    version=1,
    setup_cmd="./vcheck --setup",
    hooks=dict(guard="TANGELO_VERIF", enable="no source hooks are needed: the checks import /repo's modules as they are and "
               "inject shims into module globals at run time (TANGELO_VERIF=1 is exported by ./vcheck for completeness)",
               baseline_off_cmd="cd /repo && /venv/bin/python -m pytest -ra -q -p no:cacheprovider --timeout=900 "
                                "--continue-on-collection-errors --junitxml=/tmp/verif_baseline.junit.xml",
               source_commits=[], add_only=True),
    engines=[dict(name="symx", path="/verif/symx", serves_properties=[c["property_id"] for c in checks],
                  kind_free_text="dynamic symbolic execution of the real Tangelo functions on exact symbolic numbers "
                                 "(Laurent/cyclotomic normal form), path forking and obligation discharge by z3, "
                                 "cross-check by cvc5 / z3 4.8.12, concrete replay")],
    checks=checks,
    notes="Exit codes of ./vcheck: 0 held (known findings printed as KNOWN-FINDING), 1 replayed violation, 3 harness error. "
          "Known findings: /verif/known_findings.json.",
    not_applicable=na,
)
json.dump(man, open(os.path.join(HERE, "MANIFEST.json"), "w"), indent=1)
print("checks:", [c["property_id"] for c in checks], "n/a:", [n["property_id"] for n in na])
