#!/bin/bash
cd "$(dirname "$0")/.."
for p in ${@:-$(cat tools/enabled.txt)}; do
  s=$(date +%s)
  out=$(timeout 5000 ./vcheck $p --tier thorough --no-evidence 2>&1); rc=$?
  e=$(date +%s)
  echo "$p rc=$rc $((e-s))s :: $(echo "$out" | grep -E "^$p \[" | tail -1)"
  echo "$out" | grep -E "^VIOLATION|HARNESS-ERROR" | cut -c1-200 | head -5
done
