import warnings; warnings.filterwarnings("ignore")
import time, math, itertools, z3
from fractions import Fraction as F
import symx0 as sx
from symx0 import P, SymReal, cis, new_angle, explore, V
from tangelo.toolboxes.ansatz_generator.ansatz_utils import exp_pauliword_to_gates

I1=P({():(F(0),F(1))})
def const_angle(x):
    """concrete float angle -> exp(i*x*scale) handled via multiples of pi/4"""
    return x
def cisf(theta, scale):
    """exp(i*scale*theta) for theta SymReal(angle) or float multiple of pi/4"""
    if isinstance(theta, SymReal): return cis(theta, F(scale))
    k=theta*float(scale)/math.pi*4
    assert abs(k-round(k))<1e-9, theta
    t=int(round(k))%8
    r2=P.var(sx.sqrt2())
    w=[P.const(1),(P.const(1)+I1)*r2*F(1,2),I1,(P.const(-1)+I1)*r2*F(1,2)]
    return w[t%4]*(-1 if t>=4 else 1)
def mat(g):
    n=g.name; th=g.parameter
    if n=="H":
        r=P.var(sx.sqrt2())*F(1,2); return [[r,r],[r,-r]]
    if n in("X","CNOT","CX"): return [[P(),P.const(1)],[P.const(1),P()]]
    if n in("RZ","CRZ"): return [[cisf(th,F(-1,2)),P()],[P(),cisf(th,F(1,2))]]
    if n in("RX","CRX"):
        e1=cisf(th,F(1,2)); e2=cisf(th,F(-1,2)); c=(e1+e2)*F(1,2); s=(e1-e2)*F(1,2)*(-I1)  # sin = (e1-e2)/(2i)
        return [[c,-I1*s],[-I1*s,c]]
    raise NotImplementedError(n)
def apply(state,nq,g):
    M=mat(g); t=g.target[0]; ctr=g.control or []
    new=[P() for _ in state]
    for i,a in enumerate(state):
        if a.iszero(): continue
        bits=[(i>>(nq-1-q))&1 for q in range(nq)]
        if all(bits[c] for c in ctr):
            b=bits[t]
            for b2 in (0,1):
                if M[b2][b].iszero(): continue
                j=i ^ ((b^b2)<<(nq-1-t))
                new[j]=new[j]+M[b2][b]*a
        else: new[i]=new[i]+a
    return new
def pauli_apply(state,nq,word):
    new=[P() for _ in state]
    for i,a in enumerate(state):
        ph=P.const(1); j=i
        for q,p in word:
            b=(i>>(nq-1-q))&1
            if p in "XY": j^=1<<(nq-1-q)
            if p=="Y": ph=ph*I1*(-1 if b else 1)
            if p=="Z": ph=ph*(-1 if b else 1)
        new[j]=new[j]+ph*a
    return new

def obligation(word,nq,control):
    nobl=[0,0.0]
    def h():
        coef=new_angle("c",D=1) if "c" not in sx.ATOMS else SymReal(0,sx.Angle("c"))
        gates=exp_pauliword_to_gates(word, coef, control=control)
        bad=[]
        for col in range(2**nq):
            st=[P.const(1) if i==col else P() for i in range(2**nq)]
            for g in gates: st=apply(st,nq,g)
            # spec: cos c I - i sin c P   (controlled: only if control bit set)
            e1=cis(coef,1); e2=cis(coef,-1); cc=(e1+e2)*F(1,2); ss=(e1-e2)*F(1,2)*(-I1)
            basis=[P.const(1) if i==col else P() for i in range(2**nq)]
            pb=pauli_apply(basis,nq,word)
            ctrl_on = control is None or (col>>(nq-1-control))&1
            spec=[cc*basis[i]+(-I1)*ss*pb[i] if ctrl_on else basis[i] for i in range(2**nq)]
            for a,b in zip(st,spec):
                d=a-b
                if not d.iszero(): bad.append(z3.Or(d.z3re()!=0,d.z3im()!=0))
        return bad
    res=explore(h)
    out=[]
    for pc,bad in res:
        t0=time.time()
        if not bad: out.append(("unsat(trivial)",0.0)); continue
        s=z3.Solver(); s.add(V.cons+pc+[z3.Or(bad)]); r=s.check(); out.append((str(r),time.time()-t0))
    return out
t0=time.time(); n=0
for word in [((0,'X'),),((0,'Y'),(1,'Z')),((0,'X'),(1,'Y'),(2,'Z')),((1,'Y'),(2,'Y'))]:
    for control in (None,3):
        r=obligation(word,4,control); n+=len(r)
        print(word,control,r)
print("total",n,"obligations",time.time()-t0)
