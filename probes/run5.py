import warnings; warnings.filterwarnings("ignore")
import z3
from fractions import Fraction as F
import symx0 as sx
from symx0 import P, V, explore, SymBool
I1=P({():(F(0),F(1))})
class SC:
    """symbolic complex scalar for operator coefficients (prototype)"""
    def __init__(s,p): s.p=P.const(p)
    def _o(o): return o.p if isinstance(o,SC) else P.const(o)
    def __add__(s,o): return SC(s.p+SC._o(o))
    __radd__=__add__
    def __sub__(s,o): return SC(s.p-SC._o(o))
    def __rsub__(s,o): return SC(SC._o(o)-s.p)
    def __mul__(s,o): 
        if not isinstance(o,(SC,int,float,complex,F)): return NotImplemented
        return SC(s.p*SC._o(o))
    __rmul__=__mul__
    def __neg__(s): return SC(-s.p)
    def __truediv__(s,o): return SC(s.p*(F(1)/F(o).limit_denominator(1<<30)))
    @property
    def real(s): return SC(s.p.re())
    @property
    def imag(s): return SC(s.p.im())
    def conjugate(s): return SC(s.p.conj())
    def __abs__(s): return SAbs(s)
    def __eq__(s,o): return (s.p-SC._o(o)).iszero()   # structural
    def __hash__(s): return id(s)
    def __repr__(s): return "SC(%d terms)"%len(s.p.t)
class SAbs:
    def __init__(s,z): s.z=z
    def _sq(s): return (s.z.p*s.z.p.conj())
    def __le__(s,t):   # |z| <= tol  : threshold-assume policy
        return s._sq().iszero()
    def __lt__(s,t): return s._sq().iszero()
    def __gt__(s,t): return not s._sq().iszero()
    def __ge__(s,t): return not s._sq().iszero()
import openfermion.ops.operators.symbolic_operator as so
so.COEFFICIENT_TYPES = so.COEFFICIENT_TYPES + (SC,)
from openfermion.circuits import uccsd_singlet_generator
from tangelo.toolboxes.qubit_mappings.mapping_transform import fermion_to_qubit_mapping
t0=V.new('t0'); t1=V.new('t1')
th=[SC(P.var(t0)), SC(P.var(t1))]
f=uccsd_singlet_generator(th,4,2)
print("fermion terms",len(f.terms))
for m in ["JW","BK","SCBK","JKMN"]:
    try:
        q=fermion_to_qubit_mapping(f,m,n_spinorbitals=4,n_electrons=2)
        k=list(q.terms.items())[0]
        print(m,len(q.terms),k[0],k[1].p.t)
    except Exception as e:
        import traceback; traceback.print_exc(limit=2); print(m,"FAIL",type(e).__name__,str(e)[:100])
