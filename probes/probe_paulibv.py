import warnings; warnings.filterwarnings("ignore")
import z3, time, numpy as np
from tangelo.toolboxes.operators import FermionOperator
from tangelo.toolboxes.qubit_mappings.mapping_transform import fermion_to_qubit_mapping
from openfermion.transforms import bravyi_kitaev_code

def pauli_action(qop, b, n):
    """b: list of z3 Bool (qubit i). returns dict flipmask(tuple)-> (re,im) z3 Int-ish Real exprs of amplitude on |b xor mask>"""
    out={}
    for term, coef in qop.terms.items():
        mask=[False]*n; par=[]; ny=0
        for (q,p) in term:
            if p in 'XY': mask[q]=True
            if p in 'ZY': par.append(b[q])
            if p=='Y': ny+=1
        # Y|b> = i(-1)^b |b^1>, Z|b>=(-1)^b|b>, X|b>=|b^1>
        phase = coef*(1j)**ny
        if par:
            x=par[0]
            for y in par[1:]: x=z3.Xor(x,y)
            sign=z3.If(x,-1,1)
        else: sign=z3.IntVal(1)
        re=z3.RealVal(str(phase.real))*z3.ToReal(sign); im=z3.RealVal(str(phase.imag))*z3.ToReal(sign)
        k=tuple(mask)
        if k in out: out[k]=(out[k][0]+re, out[k][1]+im)
        else: out[k]=(re,im)
    return out

def check(n, mapping):
    t0=time.time(); nq=0
    f=[z3.Bool(f"f{i}") for i in range(n)]
    # encoder: here use real BK encoder matrix applied symbolically (stand-in for running do_bk_transform on symbolic bits)
    if mapping=='BK':
        mat=bravyi_kitaev_code(n).encoder.toarray()
    else:
        mat=np.eye(n,dtype=int)
    def enc(bits):
        out=[]
        for i in range(n):
            xs=[bits[j] for j in range(n) if mat[i,j]%2]
            x=xs[0]
            for y in xs[1:]: x=z3.Xor(x,y)
            out.append(x)
        return out
    b=enc(f)
    for p in range(n):
        qop=fermion_to_qubit_mapping(FermionOperator(((p,1),)), mapping, n_spinorbitals=n)
        act=pauli_action(qop,b,n)
        # expected: if f_p==0: (-1)^{sum_{k<p} f_k} |enc(f xor e_p)> else 0
        f2=list(f); f2[p]=z3.Not(f[p]); t=enc(f2)
        par=z3.BoolVal(False)
        for k in range(p): par=z3.Xor(par,f[k])
        expamp=z3.If(f[p], 0, z3.If(par,-1,1))
        bad=[]
        for mask,(re,im) in act.items():
            tgt_eq=z3.And([ (z3.Xor(b[i],z3.BoolVal(mask[i]))==t[i]) for i in range(n)])
            bad.append(z3.Or(im!=0, re!=z3.If(tgt_eq, z3.ToReal(expamp), 0)))
        # also: if expamp !=0 some mask must hit target
        hit=z3.Or([z3.And([ (z3.Xor(b[i],z3.BoolVal(mask[i]))==t[i]) for i in range(n)]) for mask in act])
        bad.append(z3.And(expamp!=0, z3.Not(hit)))
        s=z3.Solver(); s.add(z3.Or(bad)); r=s.check(); nq+=1
        if r!=z3.unsat: print("  p",p,r, s.model() if r==z3.sat else ''); 
    print(mapping,n,"queries",nq,"time %.2f"%(time.time()-t0))
for n in (4,8,12): 
    check(n,'JW'); check(n,'BK')
