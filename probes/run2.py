import warnings; warnings.filterwarnings("ignore")
import inspect, time, z3, math
import tangelo.toolboxes.ansatz_generator.ansatz_utils as au
src=inspect.getsource(au.exp_pauliword_to_gates).replace("4*np.pi+2*coef","2*np.pi+2*coef")
ns=dict(au.__dict__); exec(src,ns); mutant=ns["exp_pauliword_to_gates"]
import run1
from run1 import *
run1.exp_pauliword_to_gates=mutant
t0=time.time()
for control in (None,3):
    r=run1.obligation(((0,'Y'),(1,'Z')),4,control)
    print(control,r)
# show a model for the sat path
def h():
    coef=SymReal(0,sx.Angle("c"))
    gates=mutant(((0,'X'),), coef, control=None)
    st=[P.const(1),P()]
    for g in gates: st=apply(st,1,g)
    e1=cis(coef,1); e2=cis(coef,-1); cc=(e1+e2)*F(1,2); ss=(e1-e2)*F(1,2)*(-I1)
    spec=[cc, (-I1)*ss]
    return [(a-b) for a,b in zip(st,spec)]
for pc,ds in explore(h):
    bad=[z3.Or(d.z3re()!=0,d.z3im()!=0) for d in ds if not d.iszero()]
    if not bad: print("path",pc,"ok"); continue
    s=z3.Solver(); s.add(V.cons+pc+[z3.Or(bad)]); print("path",pc,s.check()); m=s.model()
    print("  model c=",m[sx.ATOMS['c']['val']], "cos=",m[V.z3[sx.ATOMS['c']['c']]],"sin=",m[V.z3[sx.ATOMS['c']['s']]])
