"""Throwaway prototype: exact symbolic numbers (poly normal form) + path explorer + z3 discharge."""
import z3, math, itertools
from fractions import Fraction as F

# ---------------- variables
class Vars:
    def __init__(s): s.names=[]; s.kind=[]; s.z3=[]; s.cons=[]; s.pair={}
    def new(s,name,kind='free'):
        s.names.append(name); s.kind.append(kind); s.z3.append(z3.Real(name)); return len(s.names)-1
    def angle(s,name):
        c=s.new('c_'+name,'cos'); sn=s.new('s_'+name,'sin'); s.pair[sn]=c
        s.cons.append(s.z3[c]*s.z3[c]+s.z3[sn]*s.z3[sn]==1); return c,sn
V=Vars()
R2=None
def sqrt2():
    global R2
    if R2 is None:
        R2=V.new('r2','sqrt2'); V.cons += [V.z3[R2]*V.z3[R2]==2, V.z3[R2]>0]
    return R2

def cadd(a,b): return (a[0]+b[0],a[1]+b[1])
def cmul(a,b): return (a[0]*b[0]-a[1]*b[1], a[0]*b[1]+a[1]*b[0])
class P:
    """complex polynomial: dict mono(tuple of (var,exp)) -> (Fraction re, Fraction im)"""
    __slots__=('t',)
    def __init__(s,t=None): s.t=t or {}
    @staticmethod
    def const(x):
        if isinstance(x,P): return x
        if isinstance(x,complex): re,im=lift(x.real),lift(x.imag); return re+P({():(F(0),F(1))})*im
        return lift(x)
    @staticmethod
    def var(i): return P({((i,1),):(F(1),F(0))})
    def __add__(a,b):
        b=P.const(b); t=dict(a.t)
        for m,c in b.t.items():
            n=cadd(t.get(m,(F(0),F(0))),c)
            if n==(0,0): t.pop(m,None)
            else: t[m]=n
        return P(t)
    __radd__=__add__
    def __neg__(a): return P({m:(-c[0],-c[1]) for m,c in a.t.items()})
    def __sub__(a,b): return a+(-P.const(b))
    def __rsub__(a,b): return P.const(b)+(-a)
    def __mul__(a,b):
        b=P.const(b); out=P()
        for m1,c1 in a.t.items():
            for m2,c2 in b.t.items():
                out=out+_reduce(_mmul(m1,m2), cmul(c1,c2))
        return out
    __rmul__=__mul__
    def conj(a): return P({m:(c[0],-c[1]) for m,c in a.t.items()})
    def re(a): return P({m:(c[0],F(0)) for m,c in a.t.items() if c[0]!=0})
    def im(a): return P({m:(c[1],F(0)) for m,c in a.t.items() if c[1]!=0})
    def iszero(a): return not a.t
    def isconst(a): return all(m==() for m in a.t)
    def z3re(a): return _toz3(a,0)
    def z3im(a): return _toz3(a,1)
def _mmul(m1,m2):
    d=dict(m1)
    for v,e in m2: d[v]=d.get(v,0)+e
    return tuple(sorted(d.items()))
def _reduce(m,c):
    # apply s^2 -> 1-c^2 ; r2^2 -> 2
    for i,(v,e) in enumerate(m):
        k=V.kind[v]
        if k=='sin' and e>=2:
            rest=m[:i]+(((v,e-2),) if e>2 else ())+m[i+1:]
            cv=V.pair[v]
            a=_reduce(tuple(sorted(rest)),c)
            b=_reduce(_mmul(tuple(sorted(rest)),((cv,2),)),(-c[0],-c[1]))
            return a+b
        if k=='sqrt2' and e>=2:
            rest=m[:i]+(((v,e-2),) if e>2 else ())+m[i+1:]
            return _reduce(tuple(sorted(rest)),(2*c[0],2*c[1]))
    return P({m:c}) if c!=(0,0) else P()
def _toz3(p,part):
    tot=z3.RealVal(0)
    for m,c in p.t.items():
        if c[part]==0: continue
        term=z3.RealVal(str(c[part]))
        for v,e in m:
            for _ in range(e): term=term*V.z3[v]
        tot=tot+term
    return tot

PI=None
def lift(x):
    """float/int/Fraction -> exact P ; recognise multiples of sqrt(2)/2"""
    if isinstance(x,(int,F)): return P({():(F(x),F(0))}) if x!=0 else P()
    x=float(x)
    if x==0: return P()
    for k in (1,2,4):
        q=x*k/math.sqrt(2)
        if abs(q-round(q))<1e-15 and round(q)!=0 and abs(x*k-round(x*k))>1e-12:
            return P.var(sqrt2())*F(round(q),k)
    return P({():(F(x),F(0))})

# ---------------- path exploration
class Ctx:
    def __init__(s): s.prefix=[]; s.decisions=[]; s.pc=[]; s.todo=[]
CTX=None
class SymBool:
    def __init__(s,e): s.e=e
    def __bool__(s):
        c=CTX; i=len(c.decisions)
        if i<len(c.prefix): choice=c.prefix[i]
        else:
            sol=z3.Solver(); sol.add(V.cons+c.pc)
            sol.push(); sol.add(s.e); t=sol.check()==z3.sat; sol.pop()
            sol.push(); sol.add(z3.Not(s.e)); f=sol.check()==z3.sat; sol.pop()
            if t and f: c.todo.append(c.decisions+[False]); choice=True
            elif t: choice=True
            elif f: choice=False
            else: raise RuntimeError("infeasible path")
        c.decisions.append(choice); c.pc.append(s.e if choice else z3.Not(s.e)); return choice
def explore(fn):
    global CTX
    todo=[[]]; results=[]
    while todo:
        CTX=Ctx(); CTX.prefix=todo.pop()
        r=fn(); results.append((list(CTX.pc),r)); todo+=CTX.todo
    return results

# ---------------- user-facing numbers
class Angle:
    """q * atom + r*pi  (single atom prototype); atom registered with base denominator D: vars are cos/sin(atom/D)"""
    def __init__(s,atom,q=F(1),r=F(0)): s.atom=atom; s.q=F(q); s.r=F(r)
class SymReal:
    """real value: polynomial p (for arithmetic) and optionally an angle view"""
    def __init__(s,p,ang=None,val=None): s.p=P.const(p); s.ang=ang; s.val=val  # val: z3 expr of the *value* if it is an angle quantity
    # arithmetic on 'angle quantities' keeps the linear form; on polys keeps p
    def _lin(s,o,sign):
        if s.ang is not None and isinstance(o,(int,float,F)):
            k=float(o)/math.pi
            rk=F(k).limit_denominator(64)
            if abs(float(rk)-k)<1e-12: return SymReal(0,Angle(s.ang.atom,s.ang.q,s.ang.r+sign*rk))
        raise NotImplementedError(("lin",s,o))
    def __add__(s,o):
        if s.ang is not None: return s._lin(o,1)
        return SymReal(s.p+ (o.p if isinstance(o,SymReal) else o))
    __radd__=__add__
    def __sub__(s,o):
        if s.ang is not None: return s._lin(o,-1)
        return SymReal(s.p-(o.p if isinstance(o,SymReal) else o))
    def __rsub__(s,o): return (-s)+o
    def __neg__(s):
        if s.ang is not None: return SymReal(0,Angle(s.ang.atom,-s.ang.q,-s.ang.r))
        return SymReal(-s.p)
    def __mul__(s,o):
        if s.ang is not None:
            if isinstance(o,(int,float,F)): 
                f=F(o).limit_denominator(1<<20); assert float(f)==float(o)
                return SymReal(0,Angle(s.ang.atom,s.ang.q*f,s.ang.r*f))
            raise NotImplementedError
        return SymReal(s.p*(o.p if isinstance(o,SymReal) else o))
    __rmul__=__mul__
    def __truediv__(s,o):
        if isinstance(o,(int,float)): return s*(F(1)/F(o).limit_denominator(1<<20))
        raise NotImplementedError
    def value_z3(s):
        if s.ang is not None: return s.ang.q*ATOMS[s.ang.atom]['val'] + z3.RealVal(str(s.ang.r))*PIV
        return s.p.z3re()
    def _cmp(s,o,op):
        a=s.value_z3(); b=o.value_z3() if isinstance(o,SymReal) else z3.RealVal(str(F(o)))
        return SymBool(op(a,b))
    def __ge__(s,o): return s._cmp(o,lambda a,b:a>=b)
    def __gt__(s,o): return s._cmp(o,lambda a,b:a>b)
    def __le__(s,o): return s._cmp(o,lambda a,b:a<=b)
    def __lt__(s,o): return s._cmp(o,lambda a,b:a<b)
    def __abs__(s): return s if bool(s>=0) else -s
    def __float__(s): raise TypeError("SymEscape: float() on symbolic")
    def __repr__(s): return f"Sym({'ang' if s.ang else 'poly'})"
ATOMS={}
PIV=z3.Real('pi'); V.cons+= [PIV>z3.RealVal('3.14159265358979'),PIV<z3.RealVal('3.14159265358980')]
def new_angle(name,D=4):
    """symbolic real 'name' used as an angle; trig vars for name/D"""
    c,s=V.angle(name+f"_over{D}")
    v=z3.Real(name); ATOMS[name]={'c':c,'s':s,'D':D,'val':v}
    return SymReal(0,Angle(name))
def cis(ang_sym, scale=F(1)):
    """exp(i * scale * angle) as P.  angle = q*atom + r*pi"""
    a=ang_sym.ang; at=ATOMS[a.atom]; k=a.q*scale*at['D']
    assert k.denominator==1, ("need finer base", k)
    k=int(k)
    base=P.var(at['c'])+P({():(F(0),F(1))})*P.var(at['s'])
    if k<0: base=base.conj(); k=-k
    out=P.const(1)
    for _ in range(k): out=out*base
    rr=a.r*scale  # times pi
    t=F(rr*4); assert t.denominator==1, ("pi multiple",rr)
    t=int(t)%8
    w=[P.const(1), (P.const(1)+P({():(F(0),F(1))}))*P.var(sqrt2())*F(1,2), P({():(F(0),F(1))}), (P.const(-1)+P({():(F(0),F(1))}))*P.var(sqrt2())*F(1,2)]
    ph = w[t%4]*( -1 if t>=4 else 1)
    return out*ph
