import warnings; warnings.filterwarnings("ignore")
import sympy as sp, time
from openfermion.circuits import uccsd_singlet_generator
from tangelo.toolboxes.qubit_mappings.mapping_transform import fermion_to_qubit_mapping
t=sp.symbols('t0:2', real=True)
t0=time.time()
f=uccsd_singlet_generator(list(t), 4, 2)
print(f)
for m in ["JW","BK","SCBK","JKMN"]:
    try:
        q=fermion_to_qubit_mapping(f, m, n_spinorbitals=4, n_electrons=2)
        print(m, len(q.terms), list(q.terms.items())[:2])
    except Exception as e:
        import traceback; traceback.print_exc(limit=3); print(m,"FAIL",type(e).__name__,e)
print(time.time()-t0)
