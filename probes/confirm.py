import warnings; warnings.filterwarnings("ignore")
import numpy as np, math
from tangelo.toolboxes.operators import FermionOperator, QubitOperator, QubitHamiltonian, MultiformOperator
from tangelo.toolboxes.operators.multiformoperator import do_commute
def t(name,f):
    try: print(name,"->",f())
    except Exception as e: print(name,"-> EXC",type(e).__name__,str(e)[:90])
a=FermionOperator("0^ 1",1.); b=FermionOperator("1^ 0",2.)
c=a+b; t("a after a+b", lambda: a)
a=FermionOperator("0^ 1",1.); c=a*b; t("a after a*b", lambda: a)
a=FermionOperator("0^ 1",1.); c=2-a; t("a after 2-a", lambda: (a,c))
h=QubitHamiltonian("X0",1.,mapping="JW",up_then_down=False)
def f(): 
    hh=QubitHamiltonian("X0",1.,mapping="JW",up_then_down=False); hh+=QubitOperator("Z0",1.); return hh
t("QubitHamiltonian += QubitOperator", f)
t("QubitHamiltonian == QubitOperator", lambda: h==QubitOperator("X0",1.))
m1=MultiformOperator.from_qubitop(QubitOperator("X0",1.)+QubitOperator("Z1",1.),2); m2=MultiformOperator.from_qubitop(QubitOperator("Z0",1.),2)
t("Multiform mul", lambda: (m1*m2).terms)
t("do_commute(X0+Z1, Z0)", lambda: do_commute(m1,m2))
from tangelo.linq import Gate, Circuit, get_backend
from tangelo.linq.translator import translate_circuit
c=Circuit([Gate("CNOT",2,control=[0,1])]); translate_circuit(c,"cirq"); t("counts vs gates after cirq translate", lambda:(c.counts,[g.name for g in c]))
c=Circuit([Gate("RX",0,parameter="t")]); translate_circuit(c,"sympy"); t("param after sympy translate", lambda: repr(c._gates[0].parameter)+str(type(c._gates[0].parameter)))
from tangelo.linq.circuit import remove_small_rotations, merge_rotations
c=Circuit([Gate("H",0),Gate("CRX",1,control=0,parameter=2*math.pi+1e-4)])
t("remove_small_rotations CRX(2pi+1e-4)", lambda: [g.name for g in remove_small_rotations(c)])
c=Circuit([Gate("RX",0,parameter=0.1),Gate("RX",0,parameter=0.2)]); m=merge_rotations(c); t("input after merge_rotations", lambda: [g.parameter for g in c])
t("Gate eq CRX(0.3)==CRX(0.3+2pi)", lambda: Gate("CRX",1,control=0,parameter=0.3)==Gate("CRX",1,control=0,parameter=0.3+2*math.pi))
from tangelo.linq.translator.translate_projectq import translate_c_to_projectq, translate_c_from_projectq
t("projectq PHASE roundtrip", lambda: translate_c_from_projectq(translate_c_to_projectq(Circuit([Gate("PHASE",0,parameter=0.5)]))))
c=Circuit([Gate("X",1),Gate("X",8)]); c.reindex_qubits(list(range(9)))  if False else None
c=Circuit([Gate("X",8),Gate("H",1)]); print("set order", list(c._qubit_indices)); 
def g():
    c=Circuit([Gate("X",8),Gate("H",1)]); c.reindex_qubits([0,1]); return [(x.name,x.target) for x in c]
t("reindex {8,1}->[0,1]", g)
q=QubitOperator("",0.7)+QubitOperator("Z0",0.7); 
def fr():
    qq=QubitOperator("",0.7)+QubitOperator("Z0",0.7); qq.frobenius_norm_compression(1.0,1); return qq
t("frobenius n=1 eps=1 a=1.4", fr)
b=get_backend("sympy"); print("sympy order", b.statevector_order)
f_,sv=b.simulate(Circuit([Gate("X",0)],n_qubits=2),return_statevector=True); print(" X on q0 (2 qubits): freqs",f_," sv",list(sv))
bc=get_backend("cirq"); f_,sv=bc.simulate(Circuit([Gate("X",0)],n_qubits=2),return_statevector=True); print(" cirq: freqs",f_," sv",list(sv))
from tangelo.toolboxes.ansatz_generator.upccgsd import UpCCGSD
