import z3, time, random, sys
exec(open('probe_z3.py').read().split("n=3\n")[0])
def run(n, G, nang, seed, symbolic_init=False):
    random.seed(seed)
    cs=[(z3.Real(f"c{k}"),z3.Real(f"s{k}")) for k in range(nang)]
    r=z3.Real('r')
    H=[[C(r),C(r)],[C(r),C(0)-C(r)]]
    X=[[C(0),C(1)],[C(1),C(0)]]
    def RZ(c,s): return [[C(c,0)-C(0,1)*C(s), C(0)],[C(0), C(c)+C(0,1)*C(s)]]
    def RX(c,s): return [[C(c), C(0,-1)*C(s)],[C(0,-1)*C(s), C(c)]]
    def RY(c,s): return [[C(c), C(0)-C(s)],[C(s), C(c)]]
    gates=[]
    for _ in range(G):
        k=random.choice(['H','RX','RY','RZ','CX','CRY'])
        q=random.randrange(n); a=random.randrange(nang)
        c=random.choice([x for x in range(n) if x!=q])
        gates.append((k,q,c,a))
    def app(st, g, inv=False):
        k,q,c,a=g
        cc,ss=cs[a]
        if inv: ss=-ss
        if k=='H': return apply1(st,n,q,H)
        if k=='RX': return apply1(st,n,q,RX(cc,ss))
        if k=='RY': return apply1(st,n,q,RY(cc,ss))
        if k=='RZ': return apply1(st,n,q,RZ(cc,ss))
        if k=='CX': return applyc(st,n,c,q,X)
        if k=='CRY': return applyc(st,n,c,q,RY(cc,ss))
    N=2**n
    if symbolic_init: init=[C(z3.Real(f"a{i}"), z3.Real(f"b{i}")) for i in range(N)]
    else: init=[C(1 if i==0 else 0) for i in range(N)]
    t0=time.time()
    st=init
    for g in gates: st=app(st,g)
    for g in reversed(gates): st=app(st,g,True)
    tb=time.time()-t0
    s=z3.Solver(); s.set("timeout",300000)
    s.add([c*c+s_*s_==1 for c,s_ in cs]+[2*r*r==1, r>0])
    s.add(z3.Or([z3.Or(x.re-y.re!=0, x.im-y.im!=0) for x,y in zip(st,init)]))
    t0=time.time(); res=s.check(); 
    print(f"n={n} G={G} nang={nang} syminit={symbolic_init} build={tb:.2f}s check={res} {time.time()-t0:.2f}s", flush=True)
for (n,G,na) in [(3,6,2),(3,10,2),(3,16,3),(4,10,2),(4,16,2)]:
    run(n,G,na,1)
