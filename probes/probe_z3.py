import z3, time, itertools
# complex numbers as (re, im) z3 reals
class C:
    def __init__(s, re, im=0): s.re = re if z3.is_expr(re) else z3.RealVal(re); s.im = im if z3.is_expr(im) else z3.RealVal(im)
    def __add__(a,b): b=b if isinstance(b,C) else C(b); return C(a.re+b.re, a.im+b.im)
    __radd__=__add__
    def __sub__(a,b): b=b if isinstance(b,C) else C(b); return C(a.re-b.re, a.im-b.im)
    def __mul__(a,b): b=b if isinstance(b,C) else C(b); return C(a.re*b.re-a.im*b.im, a.re*b.im+a.im*b.re)
    __rmul__=__mul__
def apply1(state, n, q, M):
    new=[C(0)]*len(state)
    new=list(new)
    for i in range(len(state)):
        b=(i>>(n-1-q))&1
        for b2 in (0,1):
            j = i ^ ((b^b2)<<(n-1-q))
            # new[j] += M[b2][b]*state[i]
            new[j] = new[j] + M[b2][b]*state[i]
    return new
def applyc(state, n, c, q, M):
    new=[C(0)]*len(state); new=list(new)
    for i in range(len(state)):
        if (i>>(n-1-c))&1:
            b=(i>>(n-1-q))&1
            for b2 in (0,1):
                j = i ^ ((b^b2)<<(n-1-q))
                new[j]=new[j]+M[b2][b]*state[i]
        else:
            new[i]=new[i]+state[i]
    return new
n=3
cs=[(z3.Real(f"c{k}"),z3.Real(f"s{k}")) for k in range(3)]
r=z3.Real('r')  # sqrt(1/2)
H=[[C(r),C(r)],[C(r),C(0)-C(r)]]
X=[[C(0),C(1)],[C(1),C(0)]]
def RZ(c,s): return [[C(c,0)-C(0,1)*C(s), C(0)],[C(0), C(c)+C(0,1)*C(s)]]
def RX(c,s): return [[C(c), C(0,-1)*C(s)],[C(0,-1)*C(s), C(c)]]
def RY(c,s): return [[C(c), C(0)-C(s)],[C(s), C(c)]]
# symbolic initial state: 8 complex amplitudes
init=[C(z3.Real(f"a{i}"), z3.Real(f"b{i}")) for i in range(8)]
def circ_impl(st):
    # exp(-i t0 X0 X1 ... ) style: H H CNOT RZ CNOT H H, then RY(t1) on q2, CRX(t2) 0->2
    st=apply1(st,n,0,H); st=apply1(st,n,1,H)
    st=applyc(st,n,0,1,X); st=apply1(st,n,1,RZ(*cs[0])); st=applyc(st,n,0,1,X)
    st=apply1(st,n,0,H); st=apply1(st,n,1,H)
    st=apply1(st,n,2,RY(*cs[1]))
    st=applyc(st,n,0,2,RX(*cs[2]))
    return st
def circ_spec(st):
    # cos I - i sin XX on (0,1)
    c,s=cs[0]
    new=[]
    for i in range(8):
        j=i^0b110
        new.append(C(c)*st[i] + C(0,-1)*C(s)*st[j])
    st=new
    st=apply1(st,n,2,RY(*cs[1]))
    st=applyc(st,n,0,2,RX(*cs[2]))
    return st
t0=time.time()
a=circ_impl(init); b=circ_spec(init)
print("build",time.time()-t0)
cons=[c*c+s*s==1 for c,s in cs]+[2*r*r==1, r>0]
for mode in ("concrete_init","symbolic_init"):
    s=z3.Solver(); s.set("timeout",120000)
    s.add(cons)
    if mode=="concrete_init":
        sub=[(init[i].re, z3.RealVal(1 if i==0 else 0)) for i in range(8)]+[(init[i].im, z3.RealVal(0)) for i in range(8)]
        diffs=[z3.Or(z3.substitute(x.re-y.re,*sub)!=0, z3.substitute(x.im-y.im,*sub)!=0) for x,y in zip(a,b)]
    else:
        diffs=[z3.Or(x.re-y.re!=0, x.im-y.im!=0) for x,y in zip(a,b)]
    s.add(z3.Or(diffs))
    t0=time.time(); print(mode, s.check(), time.time()-t0)
# Now a buggy variant: RZ sign flipped -> expect sat w/ model
def circ_bug(st):
    st=apply1(st,n,0,H); st=apply1(st,n,1,H)
    st=applyc(st,n,0,1,X); c,s_=cs[0]; st=apply1(st,n,1,RZ(c,-s_)); st=applyc(st,n,0,1,X)
    st=apply1(st,n,0,H); st=apply1(st,n,1,H)
    st=apply1(st,n,2,RY(*cs[1])); st=applyc(st,n,0,2,RX(*cs[2])); return st
a2=circ_bug(init)
s=z3.Solver(); s.set("timeout",120000); s.add(cons)
sub=[(init[i].re, z3.RealVal(1 if i==0 else 0)) for i in range(8)]+[(init[i].im, z3.RealVal(0)) for i in range(8)]
s.add(z3.Or([z3.Or(z3.substitute(x.re-y.re,*sub)!=0, z3.substitute(x.im-y.im,*sub)!=0) for x,y in zip(a2,b)]))
t0=time.time(); res=s.check(); print("bug", res, time.time()-t0)
if res==z3.sat: print(s.model())
