import z3, time
th, c, s, thr, pi = z3.Reals('th c s thr pi')
base=[c*c+s*s==1, pi>z3.RealVal('3.14159265358979'), pi<z3.RealVal('3.14159265358980'), thr>0, thr<=z3.RealVal('0.1'), th>=-5*pi, th<=5*pi]
lem=[]
def absle(x,y): return z3.And(x<=y, -x<=y)
for m in range(-3,4):
    b=th/2-pi*m
    sg = 1 if m%2==0 else -1
    lem.append(z3.Or(absle(s, b), absle(s,-b)))         # |s| <= |b|
    lem.append(1 - sg*c <= b*b/2)
for k in range(0,3):
  for sign in (1,-1):
    a = sign*th   # |th| = sign*th with sign*th>=0
    pc=[a>=0, a>=2*pi*k, a<2*pi*k+thr]
    sg = 1 if k%2==0 else -1
    goal=z3.And(absle(s,thr), absle(sg*c-1, thr))
    so=z3.Solver(); so.set("timeout",60000); so.add(base+lem+pc+[z3.Not(goal)])
    t0=time.time(); r=so.check(); print("RX k",k,"sign",sign,r,"%.2fs"%(time.time()-t0))
# Controlled case: CRX(th) dropped vs identity: need c ~ 1 (NOT up to global phase). Expect sat for k=1
for k in range(0,3):
    a=th; pc=[a>=2*pi*k, a<2*pi*k+thr]
    goal=z3.And(absle(s,thr), absle(c-1, thr))
    so=z3.Solver(); so.set("timeout",60000); so.add(base+lem+pc+[z3.Not(goal)])
    t0=time.time(); r=so.check(); print("CRX k",k,r,"%.2fs"%(time.time()-t0)); 
    if r==z3.sat: m=so.model(); print("   th=",m[th].as_decimal(8) if hasattr(m[th],'as_decimal') else m[th], "c=",m[c], "s=",m[s])
