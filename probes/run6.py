import numpy as np
class Z:  # toy symbolic complex
    def __init__(s,re,im=0): s.re=re; s.im=im
    def __repr__(s): return f"Z({s.re},{s.im})"
    def __mul__(s,o): o=o if isinstance(o,Z) else Z(o); return Z(f"({s.re}*{o.re}-{s.im}*{o.im})", f"({s.re}*{o.im}+{s.im}*{o.re})")
    __rmul__=__mul__
    def __add__(s,o): o=o if isinstance(o,Z) else Z(o); return Z(f"({s.re}+{o.re})",f"({s.im}+{o.im})")
    __radd__=__add__
    @property
    def real(s): return Z(s.re,0)
    @property
    def imag(s): return Z(s.im,0)
    def conjugate(s): return Z(s.re,f"-{s.im}")
HANDLED={}
class SymArray(np.ndarray):
    def __new__(cls, data):
        a=np.empty(np.shape(data),dtype=object); a[...]=data
        return a.view(cls)
    @property
    def real(self): return _map(self, lambda x: x.real if isinstance(x,Z) else x)
    @property
    def imag(self): return _map(self, lambda x: x.imag if isinstance(x,Z) else 0)
    def __array_function__(self, func, types, args, kwargs):
        if func in HANDLED: return HANDLED[func](*args, **kwargs)
        return super().__array_function__(func, types, args, kwargs)
def _map(a,f):
    out=np.empty(a.shape,dtype=object)
    for idx in np.ndindex(a.shape): out[idx]=f(a[idx])
    return out.view(SymArray)
HANDLED[np.real]=lambda a: a.real
HANDLED[np.imag]=lambda a: a.imag
HANDLED[np.asarray]=lambda a, dtype=None, **k: a
HANDLED[np.isclose]=lambda a,b,**k: "SYM-ISCLOSE"
a=SymArray([Z('a','b'),Z('c','d')])
print(type(a), a.real, np.real(a), a.imag)
print("np.array(a):", type(np.array(a)), np.array(a).dtype)
print("reshape keeps type:", type(np.reshape(a.copy(),(2,1))), type(a.flatten()), type(a[::-1]))
print("dot:", np.dot(a.real, a.real))
print("isclose:", np.isclose(a, 0))
x=np.reshape(a.copy(),(1,2,1)); x[:,1,:]=0; print("slice assign:", x.flatten(), type(x.flatten()))
print("a/scalar:", type(a*2), (a*2)[0])
print("linalg.norm:", end=" ")
try: print(np.linalg.norm(a))
except Exception as e: print("EXC",type(e).__name__,str(e)[:80])
