import warnings; warnings.filterwarnings("ignore")
from tangelo.linq.gate import Gate

def _one_target(q: int) -> bool:
    """
    post: _ == (q >= 0)
    """
    try:
        Gate("H", q)
        return True
    except ValueError:
        return False

def _cnot(t: int, c: int) -> bool:
    """
    post: _ == (t >= 0 and c >= 0 and t != c)
    """
    try:
        Gate("CNOT", t, c)
        return True
    except ValueError:
        return False

def _cswap(t0: int, t1: int, c: int) -> bool:
    """
    post: _ == (t0 >= 0 and t1 >= 0 and c >= 0 and t0 != c and t1 != c and t0 != t1)
    """
    try:
        Gate("CSWAP", [t0, t1], c)
        return True
    except ValueError:
        return False
