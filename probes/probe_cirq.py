import warnings; warnings.filterwarnings("ignore")
import numpy as np, cirq
from fractions import Fraction

class S:
    """minimal opaque symbolic number to see which operations cirq/tangelo invoke"""
    def __init__(self, name): self.name=name
    def __repr__(self): return f"S({self.name})"
    def _b(self, op, o, r=False):
        return S(f"({o!r}{op}{self.name})" if r else f"({self.name}{op}{o!r})")
    def __add__(s,o): return s._b('+',o)
    def __radd__(s,o): return s._b('+',o,True)
    def __sub__(s,o): return s._b('-',o)
    def __rsub__(s,o): return s._b('-',o,True)
    def __mul__(s,o): return s._b('*',o)
    def __rmul__(s,o): return s._b('*',o,True)
    def __truediv__(s,o): return s._b('/',o)
    def __rtruediv__(s,o): return s._b('/',o,True)
    def __neg__(s): return S(f"(-{s.name})")
    def __mod__(s,o): return s._b('%',o)
    def __bool__(s): raise RuntimeError("bool on "+s.name)
    def __float__(s): raise RuntimeError("float on "+s.name)
    def __eq__(s,o): 
        print("   EQ called", s, o); return NotImplemented
    def __hash__(s): return hash(s.name)

from tangelo.linq import Gate, Circuit
from tangelo.linq.translator import translate_circuit
t=S('t')
for g in [Gate("RX",0,parameter=t), Gate("CRZ",1,control=0,parameter=t), Gate("PHASE",0,parameter=t), Gate("CPHASE",1,control=[0,2],parameter=t), Gate("XX",[0,1],parameter=t)]:
    try:
        cc = translate_circuit(Circuit([g]), "cirq")
        ops = list(cc.all_operations())
        op = ops[-1]
        gate = op.gate
        sub = getattr(gate,'sub_gate',gate)
        print(g.name, type(gate).__name__, type(sub).__name__, 'exp=',getattr(sub,'exponent',None), 'shift=',getattr(sub,'global_shift',None), [q.x for q in op.qubits])
    except Exception as e:
        import traceback; traceback.print_exc()
        print(g.name, "FAILED", type(e), e)
