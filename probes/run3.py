import warnings; warnings.filterwarnings("ignore")
import time, numpy as np
from tangelo.linq import Gate, Circuit, get_backend
b=get_backend("sympy")
for gates in ([Gate("RX",0,parameter="t")],
              [Gate("H",0),Gate("CRY",1,control=0,parameter="t"),Gate("CNOT",2,control=1)],
              [Gate("RY",1,parameter="a"),Gate("CPHASE",0,control=1,parameter="b"),Gate("SWAP",[0,2]),Gate("T",2)]):
    t0=time.time()
    c=Circuit(gates)
    f,sv=b.simulate(c,return_statevector=True)
    print(c.width, "time %.2f"%(time.time()-t0)); print("  sv:",list(sv)[:8]); print("  f:",f)
# initial statevector path
t0=time.time()
f,sv=b.simulate(Circuit([Gate("X",0)]),return_statevector=True,initial_statevector=np.array([0,1,0,0]))
print("init sv", f, list(sv), time.time()-t0)
