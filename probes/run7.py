import warnings; warnings.filterwarnings("ignore")
import numpy as np
from tangelo.toolboxes.molecular_computation.integral_solver import IntegralSolver
from tangelo import SecondQuantizedMolecule
class FakeSolver(IntegralSolver):
    def __init__(s, n_mos, n_elec): s.n=n_mos; s.ne=n_elec
    def set_physical_data(s, mol):
        mol.n_electrons=s.ne; mol.n_atoms=len(mol.xyz)
    def compute_mean_field(s, sq):
        sq.mf_energy=-1.0; sq.mo_energies=list(range(s.n)); sq.mo_occ=[2.]*(s.ne//2)+[0.]*(s.n-s.ne//2)
        sq.n_mos=s.n; sq.n_sos=2*s.n; s.mo_coeff=np.eye(s.n)
    def get_integrals(s, sq, mo_coeff=None):
        rng=np.random.default_rng(0); n=s.n
        h=rng.normal(size=(n,n)); h=h+h.T
        g=rng.normal(size=(n,n,n,n)); g=g+g.transpose(3,2,1,0); g=g+g.transpose(1,0,3,2)  # some symmetry
        return 0.5, h, g
for frozen in (None, [0], [0,3], 1):
    try:
        m=SecondQuantizedMolecule([["H",(0,0,0.)],["H",(0,0,1.)],["H",(0,0,2.)],["H",(0,0,3.)]], 0, 0, solver=FakeSolver(4,4), frozen_orbitals=frozen)
        print(frozen, "active_occ",m.active_occupied,"frozen_occ",m.frozen_occupied,"act_virt",m.active_virtual,"froz_virt",m.frozen_virtual, "n_act_e",m.n_active_electrons,"sos",m.n_active_sos, "Hterms", len(m.fermionic_hamiltonian.terms))
    except Exception as e:
        import traceback; traceback.print_exc(limit=3); print(frozen,"EXC",type(e).__name__,e)
