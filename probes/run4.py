import z3, time
a1,a2,b1,b2,ma,mb,r,w,c = z3.Reals('a1 a2 b1 b2 ma mb r w c')
ca,sa,cb,sb, ca2,sa2,cb2,sb2 = z3.Reals('ca sa cb sb ca2 sa2 cb2 sb2')
base=[ma>=0, ma*ma==a1*a1+a2*a2, mb>=0, mb*mb==b1*b1+b2*b2, ma>0, mb>0, r>0, r*r==ma*ma+mb*mb,
      c*r==ma, w>=0, w*w==1-c*c]
# stage 1: RY part only (magnitudes)
s=z3.Solver(); s.set("timeout",120000); s.add(base+[z3.Or(-ma*w+mb*c!=0, ma*c+mb*w!=r)])
t0=time.time(); print("RY-part", s.check(), "%.2fs"%(time.time()-t0))
# stage 2: full complex with half angles
ang=[ca*ma==a1, sa*ma==a2, cb*mb==b1, sb*mb==b2,
     ca2*ca2-sa2*sa2==ca, 2*ca2*sa2==sa, ca2>=0, ca2*ca2+sa2*sa2==1,
     cb2*cb2-sb2*sb2==cb, 2*cb2*sb2==sb, cb2>=0, cb2*cb2+sb2*sb2==1]
# RZ(-phi): first comp * e^{i phi/2}, second * e^{-i phi/2}, phi=beta-alpha ; e^{i phi/2} = (cb2+i sb2)(ca2 - i sa2)
pr = cb2*ca2+sb2*sa2; pi_ = sb2*ca2-cb2*sa2
x_re = a1*pr - a2*pi_; x_im = a1*pi_ + a2*pr          # a e^{i phi/2}
y_re = b1*pr + b2*pi_; y_im = -b1*pi_ + b2*pr         # b e^{-i phi/2}
# RY(-theta): [[c, w],[-w, c]]
o1_re = c*x_re + w*y_re; o1_im = c*x_im + w*y_im
o2_re = -w*x_re + c*y_re; o2_im = -w*x_im + c*y_im
# expected: o2 = 0 ; o1 = r e^{i(alpha+beta)/2} = r (ca2+i sa2)(cb2+i sb2)
e_re = r*(ca2*cb2 - sa2*sb2); e_im = r*(ca2*sb2+sa2*cb2)
s=z3.Solver(); s.set("timeout",300000); s.add(base+ang+[z3.Or(o2_re!=0,o2_im!=0,o1_re!=e_re,o1_im!=e_im)])
t0=time.time(); print("full 1-qubit", s.check(), "%.2fs"%(time.time()-t0))
