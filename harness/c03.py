"""C03  Fermion-to-qubit encodings are faithful representations."""
import itertools
import random
from fractions import Fraction as F

from symx.core import Shape
import numpy as np

from symx import fock, paulibv as PB, shim
from symx.num import Sym

PROPERTY = "C03"
MODS = ("tangelo.toolboxes.qubit_mappings.mapping_transform", "tangelo.toolboxes.qubit_mappings.jkmn",
        "tangelo.toolboxes.qubit_mappings.symmetry_conserving_bravyi_kitaev", "tangelo.toolboxes.qubit_mappings.hcb",
        "tangelo.toolboxes.qubit_mappings.combinatorial", "tangelo.toolboxes.molecular_computation.coefficients",
        "openfermion.ops.operators.majorana_operator", "openfermion.transforms.opconversions.conversions")
SHAPE_BUDGET = dict(quick=150, thorough=900)

META = dict(
    explanation="The qubit operators are produced by the REAL fermion_to_qubit_mapping / combinatorial; the encoder Enc by "
                "the REAL get_mapped_vector (its GF(2)-affine form is read off on unit vectors and verified against the "
                "real function on every vector of the register). (a) For JW and BK, every p, both a_p^+ and a_p, both "
                "orderings: map(op)|Enc f> = |Enc(op f)> with the textbook sign, as ONE z3 query over a symbolic occupation "
                "bit-vector f (all 2^n vectors at once). For JKMN the same up to the basis-phase convention: every "
                "map(a_p^+) sends |Enc f> to a unit multiple of |Enc(f+e_p)> (0 if occupied), map(a_p) is its adjoint on "
                "basis states, and creation operators anticommute - these three imply the CAR and unitary equivalence "
                "with Fock space. (b) Enc injective (z3). (c) linearity and multiplicativity of the code path with "
                "symbolic complex-free weights alpha, beta pushed through the real code. (d) scBK: parity-conserving "
                "2- and 4-ladder monomials intertwine on the (N parity, N_alpha parity) sector for every admissible "
                "(n_electrons, spin); Enc injective on the sector. (e) HCB and (f) combinatorial: action of the mapped "
                "spin-free Hamiltonian (symbolic integrals for HCB, exact rational integrals for combinatorial) on the "
                "encoded seniority-zero / fixed-(N_alpha,N_beta) configurations equals the Slater-Condon rows.",
    bounds=dict(quick="JW/BK/JKMN n in {2..8} (all p, both orderings for even n); scBK n in {4,6}; linearity n<=4 "
                      "(seeded pairs) ; HCB 2-3 orbitals; combinatorial 2-3 orbitals",
                thorough="JW/BK/JKMN n in {2..12}; scBK n in {4,6,8,10}; linearity n<=6; HCB 2-4 orbitals; "
                         "combinatorial 2-4 orbitals"),
    outside=["IEEE rounding and the complex64 storage of the combinatorial matrix (integrals used there are exactly "
             "representable dyadic rationals)", "registers wider than the bound",
             "combinatorial on non-Hermitian or spin-dependent input (outside its documented domain)",
             "coefficients below the 1e-8/1e-12 drop thresholds (threshold-assume policy)"],
    stubs=[], trusted_base=["symx.fock (textbook ladder action, Slater-Condon rules)", "symx.paulibv (Pauli action on bit-vectors)"],
)


def preload():
    import tangelo.toolboxes.qubit_mappings.mapping_transform  # noqa
    import tangelo.toolboxes.qubit_mappings.statevector_mapping  # noqa
    import tangelo.toolboxes.qubit_mappings.combinatorial  # noqa


# ------------------------------------------------------------------ the real encoder, on the register's own ordering
def real_encoder(mapping, n, utd):
    """g (occupation tuple in the REGISTER's ordering: interleaved, or up-then-down when utd / scBK) -> qubit bits, through
    the real get_mapped_vector (which takes the interleaved vector)"""
    import warnings
    import numpy as np
    from tangelo.toolboxes.qubit_mappings.statevector_mapping import get_mapped_vector
    reorder = utd or mapping.upper() == "SCBK"
    pos = [fock.interleaved_to_updown(p, n) for p in range(n)]

    def fn(g):
        f = [g[pos[p]] for p in range(n)] if reorder else list(g)
        with warnings.catch_warnings():
            warnings.simplefilter("ignore")
            v = get_mapped_vector(np.array(f, dtype=int), mapping, utd)
        return tuple(int(round(float(x))) for x in v)
    return fn


def get_affine(env, inp, fn, n, label):
    """AffineEnc of the real encoder, or None (with a note) when the real encoder is not affine"""
    try:
        return PB.AffineEnc(fn, n)
    except PB.NotAffine as e:
        env.notes.append(f"{label}: {e}")
        return None


def ladder(p, d):
    return {((p, d),): 1}


def reg_terms(terms, n, reorder):
    """operator with interleaved indices -> indices of the register's ordering (oracle's own permutation)"""
    return fock.relabel_terms(terms, n) if reorder else dict(terms)


# ------------------------------------------------------------------ (a)+(b) full-space encodings
def h_ladder(env, mapping, n, utd, canary=False):
    import z3
    from tangelo.toolboxes.operators import FermionOperator
    from tangelo.toolboxes.qubit_mappings.mapping_transform import fermion_to_qubit_mapping
    inp = PB.BitInput(env, n, "f")
    fn = real_encoder(mapping, n, utd)
    enc = get_affine(env, inp, fn, n, f"{mapping} n={n}") if env.symbolic else None
    strict = mapping.upper() in ("JW", "BK")
    qops = {}
    for p in range(n):
        for d in (1, 0):
            qops[p, d] = fermion_to_qubit_mapping(FermionOperator(((p, d),)), mapping, n_spinorbitals=n, up_then_down=utd).terms
    if strict:
        for (p, d), qt in qops.items():
            ref = reg_terms(ladder(p, d), n, utd)
            if canary and p == n - 1:
                ref = {t: -c for t, c in ref.items()}
            PB.check_action(env, inp, qt, ref, enc, fn, f"{mapping} utd={utd}: map(a_{p}{'^+' if d else ''})|Enc f> = |Enc(a f)>")
    else:
        gauge_checks(env, inp, qops, enc, fn, n, utd, mapping, canary)
    # (b) injectivity
    if env.symbolic and enc is not None:
        g = [z3.Bool(f"g_{i}") for i in range(n)]
        env.check_true(("z3", enc.injective_formula(inp.bits, g)), f"{mapping} utd={utd}: Enc injective on {n} bits")
    elif env.symbolic:
        imgs = {}
        clash = None
        for f in fock.determinants(n):
            k = fn(f)
            if k in imgs:
                clash = f
                break
            imgs[k] = f
        if clash is None:
            env.check_true(True, "Enc injective [enumerated]")
        else:
            inp.refute_value(PB.bits_to_int(clash), "Enc injective [enumerated]")
    else:
        f = inp.value
        b = fn(f)
        others = [g for g in fock.determinants(n) if g != f and fn(g) == b] if n <= 10 else []
        env.check_true(not others, "Enc injective", detail=f"Enc{f} = Enc{others[:1]}")


def gauge_checks(env, inp, qops, enc, fn, n, utd, mapping, canary):
    """intertwining up to a phase convention phi(f) on the basis states (JKMN):
    (1) map(a_p^+)|Enc f> = (1-f_p) u_p(f) |Enc(f+e_p)>, |u_p(f)| = 1;  (2) map(a_p)|Enc f> = f_p conj(u_p(f+e_p)) |Enc(f+e_p)>;
    (3) u_q(f+e_p) u_p(f) = -u_p(f+e_q) u_q(f) whenever f_p = f_q = 0, p != q."""
    import z3
    reorder = utd
    pos = [fock.interleaved_to_updown(p, n) if reorder else p for p in range(n)]     # register position of interleaved index p
    if not env.symbolic:
        f = inp.value
        b = fn(f)

        def amp_on(terms, src, tgt_f):
            out = PB.pauli_apply(terms, fn(src))
            tgt = fn(tgt_f)
            rest = {k: v for k, v in out.items() if k != tgt and abs(v) > 1e-9}
            return out.get(tgt, 0), rest

        def flip(v, i):
            w = list(v)
            w[i] ^= 1
            return tuple(w)
        u = {}
        for p in range(n):
            r = pos[p]
            a, rest = amp_on(qops[p, 1], f, flip(f, r))
            want = 0.0 if f[r] else 1.0
            if canary and p == n - 1:
                want = 1.0 - want
            env.check_true(not rest and abs(abs(a) - want) < 1e-8, f"{mapping}: map(a_{p}^+)|Enc f> is (1-f_p) x unit x |Enc(f+e_p)>",
                           detail=f"f={f} amplitude {a!r}, stray {rest}")
            u[p] = a
            a0, rest0 = amp_on(qops[p, 0], f, flip(f, r))
            # adjoint: <Enc(f-e_p)| A_p |Enc f> = conj <Enc f| A_p^+ |Enc(f-e_p)>
            back, _ = amp_on(qops[p, 1], flip(f, r), f)
            env.check_true(not rest0 and abs(a0 - complex(back).conjugate()) < 1e-8, f"{mapping}: map(a_{p}) is the adjoint of map(a_{p}^+) on basis states",
                           detail=f"f={f}: {a0!r} vs conj {back!r}")
        for p in range(n):
            for q in range(p + 1, n):
                rp, rq = pos[p], pos[q]
                if f[rp] or f[rq]:
                    continue
                upq, _ = amp_on(qops[q, 1], flip(f, rp), flip(flip(f, rp), rq))
                uqp, _ = amp_on(qops[p, 1], flip(f, rq), flip(flip(f, rp), rq))
                env.check_true(abs(upq * u[p] + uqp * u[q]) < 1e-8, f"{mapping}: map(a_{p}^+), map(a_{q}^+) anticommute on |Enc f>",
                               detail=f"f={f}")
        return
    if enc is None:
        env.fail(f"{mapping}: encoder is not affine; gauge check needs the affine form", detail=str(env.notes[-1:]))
        return
    fb = inp.bits

    def unit_amp(terms, bits_f, r):
        """amplitudes of terms|Enc bits_f>: returns (re, im, scale, others_zero) for the target mask Enc(e_r)"""
        tgt = enc.mask(tuple(1 if i == r else 0 for i in range(n)))
        act = PB.pauli_action(terms, enc.bits(bits_f))
        zero = []
        re = im = z3.IntVal(0)
        scale = 1
        for mask, amp in act.items():
            ex, sc = PB.amp_z3(amp)
            extra = [m for m in ex if m not in (PB.RE_M, PB.IM_M)]
            if mask == tgt:
                re, im, scale = ex.get(PB.RE_M, z3.IntVal(0)), ex.get(PB.IM_M, z3.IntVal(0)), sc
                zero += [ex[m] == 0 for m in extra]
            else:
                zero += [e == 0 for e in ex.values()]
        return re, im, scale, (z3.And(*zero) if zero else z3.BoolVal(True))

    def flipped(bits, r):
        w = list(bits)
        w[r] = z3.Not(w[r])
        return w
    for p in range(n):
        r = pos[p]
        re, im, sc, oz = unit_amp(qops[p, 1], fb, r)
        unit, k = PB.unit_phase_z3(re, im, sc)
        occ = fb[r]
        if canary and p == n - 1:
            occ = z3.Not(occ)
        inp.holds_for_all(z3.And(oz, z3.If(occ, z3.And(re == 0, im == 0), unit)),
                          f"{mapping} utd={utd}: map(a_{p}^+)|Enc f> = (1-f_p) u_p(f) |Enc(f+e_p)>, |u|=1")
        # adjoint: amplitude of A_p on |Enc f> towards f+e_r  ==  conj( amplitude of A_p^+ on |Enc(f+e_r)> towards f )
        re0, im0, sc0, oz0 = unit_amp(qops[p, 0], fb, r)
        re1, im1, sc1, _ = unit_amp(qops[p, 1], flipped(fb, r), r)
        inp.holds_for_all(z3.And(oz0, re0 * sc1 == re1 * sc0, im0 * sc1 == -im1 * sc0),
                          f"{mapping} utd={utd}: map(a_{p}) is the adjoint of map(a_{p}^+) on basis states")
    for p in range(n):
        for q in range(p + 1, n):
            rp, rq = pos[p], pos[q]
            _, kp = PB.unit_phase_z3(*unit_amp(qops[p, 1], fb, rp)[:3])
            _, kq = PB.unit_phase_z3(*unit_amp(qops[q, 1], fb, rq)[:3])
            _, kq_p = PB.unit_phase_z3(*unit_amp(qops[q, 1], flipped(fb, rp), rq)[:3])
            _, kp_q = PB.unit_phase_z3(*unit_amp(qops[p, 1], flipped(fb, rq), rp)[:3])
            (i1, s1), (i2, s2) = PB.unit_mul(kq_p, kp), PB.unit_mul(kp_q, kq)
            stmt = z3.Implies(z3.And(z3.Not(fb[rp]), z3.Not(fb[rq])), z3.And(i1 == i2, s1 != s2))
            inp.holds_for_all(stmt, f"{mapping} utd={utd}: map(a_{p}^+) map(a_{q}^+) = - map(a_{q}^+) map(a_{p}^+) on every |Enc f>")


# ------------------------------------------------------------------ (c) linearity, multiplicativity, adjoints of the code path
def spin_of(p):
    return p % 2          # interleaved input convention of fermion_to_qubit_mapping


def all_monomials(idx, max_len=2):
    ops = [(p, d) for p in idx for d in (1, 0)]
    out = []
    for k in range(1, max_len + 1):
        out += list(itertools.product(ops, repeat=k))
    return out


def conserving_monomials(idx, k_pairs):
    """number- and S_z-conserving monomials a+_p a_q [a+_r a_s] with spin(p)=spin(q), spin(r)=spin(s)"""
    one = [((p, 1), (q, 0)) for p in idx for q in idx if spin_of(p) == spin_of(q)]
    if k_pairs == 1:
        return one
    return [a + b for a in one for b in one]


def compare_terms(env, lhs, rhs, label):
    words = sorted(set(lhs) | set(rhs))
    env.check_vec_eq([lhs.get(w, 0) for w in words], [rhs.get(w, 0) for w in words], label)


def h_linear(env, mapping, n, utd, monos_a, monos_b, n_electrons=None, spin=0, canary=False):
    from tangelo.toolboxes.operators import FermionOperator
    from tangelo.toolboxes.qubit_mappings.mapping_transform import fermion_to_qubit_mapping
    al = [env.real(f"a{k}", -2, 2) for k in range(len(monos_a))]
    be = [env.real(f"b{k}", -2, 2) for k in range(len(monos_b))]
    kw = dict(n_spinorbitals=n, up_then_down=utd, n_electrons=n_electrons, spin=spin)

    def mp(op):
        before = dict(op.terms)
        out = dict(fermion_to_qubit_mapping(op, mapping, **kw).terms)
        if op.terms != before:
            env.fail(f"{mapping} utd={utd}: fermion_to_qubit_mapping leaves its input operator unchanged", f"{before} -> {dict(op.terms)}"[:300])
        return out

    def comb(cs, monos):
        op = FermionOperator()
        for c, t in zip(cs, monos):
            op += FermionOperator(t, c)
        return op
    mA = [mp(FermionOperator(t)) for t in monos_a]
    mB = [mp(FermionOperator(t)) for t in monos_b]
    # linearity: map(sum a_k A_k + sum b_l B_l) = sum a_k map(A_k) + sum b_l map(B_l)   (identity of polynomials in a, b)
    lhs = mp(comb(al + be, list(monos_a) + list(monos_b)))
    rhs = PB.pauli_lincomb([(c, t) for c, t in zip(al, mA)] + [((-c if canary and k == 0 else c), t) for k, (c, t) in enumerate(zip(be, mB))])
    compare_terms(env, lhs, rhs, f"{mapping} utd={utd}: map(sum a_k A_k + sum b_l B_l) = sum a_k map(A_k) + sum b_l map(B_l)")
    # multiplicativity (bilinear in a, b => holds for every pair A_k, B_l)
    qa, qb = mp(comb(al, monos_a)), mp(comb(be, monos_b))
    prod = comb(al, monos_a) * comb(be, monos_b)
    compare_terms(env, mp(prod), PB.pauli_mul(qa, qb), f"{mapping} utd={utd}: map(A B) = map(A) map(B)")
    # adjoints
    dag = comb(al, [tuple((p, 1 - d) for p, d in reversed(t)) for t in monos_a])
    conj = {w: (c.conjugate() if hasattr(c, "conjugate") else c) for w, c in qa.items()}
    compare_terms(env, mp(dag), conj, f"{mapping} utd={utd}: map(A^+) = map(A)^+")


# ------------------------------------------------------------------ (d) symmetry-conserving Bravyi-Kitaev
def admissible(n):
    """(n_electrons, spin) with n_alpha, n_beta in [0, n/2]"""
    out = []
    for na in range(n // 2 + 1):
        for nb in range(n // 2 + 1):
            out.append((na + nb, na - nb))
    return sorted(set(out))


def h_scbk(env, n, n_electrons, spin, utd, monos, canary=False):
    import z3
    from tangelo.toolboxes.operators import FermionOperator
    from tangelo.toolboxes.qubit_mappings.mapping_transform import fermion_to_qubit_mapping
    inp = PB.BitInput(env, n, "f")           # occupation vector in the up-then-down register ordering
    fn = real_encoder("SCBK", n, utd)
    enc = get_affine(env, inp, fn, n, f"scBK n={n}") if env.symbolic else None
    n_alpha = (n_electrons + spin) // 2      # spin = n_alpha - n_beta
    half = n // 2

    def in_sector(f):
        return sum(f) % 2 == n_electrons % 2 and sum(f[:half]) % 2 == n_alpha % 2
    dom = True
    if env.symbolic:
        par_all = PB._xor_all(inp.bits, PB.Z3Bits)
        par_a = PB._xor_all(inp.bits[:half], PB.Z3Bits)
        dom = z3.And(PB._zb(par_all) == bool(n_electrons % 2), PB._zb(par_a) == bool((n_alpha + (1 if canary else 0)) % 2))
    elif canary:
        def in_sector(f, _n=n_electrons, _a=n_alpha + 1):        # noqa: F811  (canary: wrong sector)
            return sum(f) % 2 == _n % 2 and sum(f[:half]) % 2 == _a % 2
    for t in monos:
        q = fermion_to_qubit_mapping(FermionOperator(t), "scbk", n_spinorbitals=n, n_electrons=n_electrons, up_then_down=utd, spin=spin).terms
        ref = fock.relabel_terms({t: 1}, n)
        PB.check_action(env, inp, q, ref, enc, fn, f"scBK N={n_electrons} spin={spin} utd={utd}: map({t}) intertwines on the sector",
                        domain=dom, domain_fn=in_sector)
    if env.symbolic and enc is not None:
        g = [z3.Bool(f"g_{i}") for i in range(n)]
        dom_g = z3.And(PB._zb(PB._xor_all(g, PB.Z3Bits)) == bool(n_electrons % 2), PB._zb(PB._xor_all(g[:half], PB.Z3Bits)) == bool(n_alpha % 2))
        if not canary:
            env.check_true(("z3", enc.injective_formula(inp.bits, g, dom, dom_g)), "scBK: Enc injective on the sector")


# ------------------------------------------------------------------ (e), (f) Hamiltonians against Slater-Condon
def sym_integrals(env, m, lo=-2, hi=2):
    """generic real spin-free integrals with the 8-fold symmetry: const, h[i][j], (ij|kl)"""
    const = env.real("E0", lo, hi)
    h = [[None] * m for _ in range(m)]
    for i in range(m):
        for j in range(i, m):
            h[i][j] = h[j][i] = env.real(f"h{i}{j}", lo, hi)
    eri = [[[[None] * m for _ in range(m)] for _ in range(m)] for _ in range(m)]
    for i, j, k, l in itertools.product(range(m), repeat=4):
        if eri[i][j][k][l] is None:
            v = env.real(f"g{i}{j}{k}{l}", lo, hi)
            for (a, b, c, d) in ((i, j, k, l), (j, i, k, l), (i, j, l, k), (j, i, l, k), (k, l, i, j), (l, k, i, j), (k, l, j, i), (l, k, j, i)):
                eri[a][b][c][d] = v
    return const, h, eri


def build_fermion_op(terms):
    from tangelo.toolboxes.operators import FermionOperator
    op = FermionOperator()
    for t, c in terms.items():
        op.terms[t] = c
    return op


def h_hcb(env, m, canary=False):
    from symx import shim
    from tangelo.toolboxes.qubit_mappings.mapping_transform import fermion_to_qubit_mapping
    const, h, eri = sym_integrals(env, m)
    H = build_fermion_op(fock.molecular_hamiltonian_terms(const, h, eri, m))
    old = shim.ALLOC_OBJECT
    shim.ALLOC_OBJECT = bool(env.symbolic)
    try:
        q = fermion_to_qubit_mapping(H, "HCB", n_spinorbitals=2 * m).terms
    finally:
        shim.ALLOC_OBJECT = old
    for k in itertools.product((0, 1), repeat=m):
        f = tuple(x for ki in k for x in (ki, ki))                 # seniority-zero determinant, interleaved
        got = PB.pauli_apply(q, k, exact=env.symbolic)
        row = fock.slater_condon_row(f, const, h, eri)
        exp = {}
        for g, v in row.items():
            if all(g[2 * i] == g[2 * i + 1] for i in range(m)):
                exp[tuple(g[2 * i] for i in range(m))] = v
        if canary and sum(k) == 1 and m >= 2:
            kk = next(x for x in exp if x != k and sum(x) == 1)
            exp[kk] = exp[kk] * 2
        keys = sorted(set(got) | set(exp))
        env.check_vec_eq([got.get(x, 0) for x in keys], [exp.get(x, 0) for x in keys],
                         f"HCB {m} orbitals: map(H)|pairs {k}> = Slater-Condon row within the paired space")


def sym_integrals4(env, m, lo=-2, hi=2):
    """real integrals of a Hermitian, spin-free Hamiltonian WITHOUT the extra symmetry of real orbitals:
    (ij|kl) = (kl|ij) = (ji|lk) only (as for complex orbitals / model Hamiltonians)"""
    const = env.real("E0", lo, hi)
    h = [[None] * m for _ in range(m)]
    for i in range(m):
        for j in range(i, m):
            h[i][j] = h[j][i] = env.real(f"h{i}{j}", lo, hi)
    eri = [[[[None] * m for _ in range(m)] for _ in range(m)] for _ in range(m)]
    for i, j, k, l in itertools.product(range(m), repeat=4):
        if eri[i][j][k][l] is None:
            v = env.real(f"g{i}{j}{k}{l}", lo, hi)
            for (a, b, c, d) in ((i, j, k, l), (k, l, i, j), (j, i, l, k), (l, k, j, i)):
                eri[a][b][c][d] = v
    return const, h, eri


def sym_integrals4c(env, m, lo=-2, hi=2):
    """COMPLEX integrals of a Hermitian, spin-free Hamiltonian (complex orbitals): h[j][i] = conj(h[i][j]),
    (ij|kl) = (kl|ij) = conj((ji|lk)) = conj((lk|ji))"""
    const = env.real("E0", lo, hi)
    h = [[None] * m for _ in range(m)]
    for i in range(m):
        for j in range(i, m):
            if i == j:
                h[i][i] = env.real(f"h{i}{i}", lo, hi)
            else:
                h[i][j] = env.complex(f"h{i}{j}")
                h[j][i] = h[i][j].conjugate()
    eri = [[[[None] * m for _ in range(m)] for _ in range(m)] for _ in range(m)]
    for i, j, k, l in itertools.product(range(m), repeat=4):
        if eri[i][j][k][l] is None:
            selfconj = (i, j, k, l) in ((j, i, l, k), (l, k, j, i))
            v = env.real(f"g{i}{j}{k}{l}", lo, hi) if selfconj else env.complex(f"g{i}{j}{k}{l}")
            for (a, b, c, d) in ((i, j, k, l), (k, l, i, j)):
                eri[a][b][c][d] = v
            for (a, b, c, d) in ((j, i, l, k), (l, k, j, i)):
                eri[a][b][c][d] = v.conjugate()
    return const, h, eri


def h_hcb_general(env, m, canary=False, complex_ints=False):
    """HCB on a Hermitian number- and spin-conserving Hamiltonian whose two-body integrals have only the 4-fold symmetry;
    oracle = action of the fermionic operator itself (operator route), restricted to the paired space"""
    from symx import shim
    from tangelo.toolboxes.qubit_mappings.mapping_transform import fermion_to_qubit_mapping
    const, h, eri = (sym_integrals4c if complex_ints else sym_integrals4)(env, m)
    terms = fock.molecular_hamiltonian_terms(const, h, eri, m)
    H = build_fermion_op(terms)
    old = shim.ALLOC_OBJECT
    shim.ALLOC_OBJECT = bool(env.symbolic)
    try:
        q = fermion_to_qubit_mapping(H, "HCB", n_spinorbitals=2 * m).terms
    finally:
        shim.ALLOC_OBJECT = old
    for k in itertools.product((0, 1), repeat=m):
        f = tuple(x for ki in k for x in (ki, ki))
        got = PB.pauli_apply(q, k, exact=env.symbolic)
        row = fock.apply_operator(terms, f)
        exp = {}
        for g, v in row.items():
            if all(g[2 * i] == g[2 * i + 1] for i in range(m)):
                kk = tuple(g[2 * i] for i in range(m))
                exp[kk] = exp.get(kk, 0) + v
        if canary and sum(k) == 1 and m >= 2:
            kk = next(x for x in exp if x != k and sum(x) == 1)
            exp[kk] = exp[kk] * 2
        keys = sorted(set(got) | set(exp))
        env.check_vec_eq([got.get(x, 0) for x in keys], [exp.get(x, 0) for x in keys],
                         f"HCB {m} orbitals, integrals with 4-fold symmetry only: map(H)|pairs {k}> = H|pairs {k}> within the paired space")


def h_hcb_spin(env, m, which):
    """HCB on operators WITHOUT spin symmetry (the spin operators S_z, S^2 requested through VQESolver.operator_expectation, or
    an arbitrary normal-ordered one- plus two-body operator with independent symbolic coefficients): on the paired space the
    mapped operator acts like the seniority-zero block of the fermionic operator"""
    from symx import shim
    from tangelo.toolboxes.qubit_mappings.mapping_transform import fermion_to_qubit_mapping
    n = 2 * m
    if which == "up-only":
        # only spin-up operators of the TOP orbital appear (highest spin-orbital index even): the spin-down partner is absent from the
        # operator, the register still has m orbitals
        terms = {(): env.real("E0", -2, 2)}
        for p, q in itertools.product(range(n - 1), repeat=2):
            terms[((p, 1), (q, 0))] = env.real(f"h{p}{q}", -2, 2)
        top = n - 2
        for r, s_ in itertools.combinations(range(n - 2, -1, -1), 2):
            terms[((top, 1), (r, 1), (r, 0), (top, 0))] = env.real(f"g{top}{r}", -2, 2)
            break
        H = build_fermion_op(terms)
    elif which == "generic":
        terms = {(): env.real("E0", -2, 2)}
        for p, q in itertools.product(range(n), repeat=2):
            terms[((p, 1), (q, 0))] = env.real(f"h{p}{q}", -2, 2)
        for (p, q), (r, s_) in itertools.product(itertools.combinations(range(n - 1, -1, -1), 2), repeat=2):
            terms[((p, 1), (q, 1), (r, 0), (s_, 0))] = env.real(f"g{p}{q}{r}{s_}", -2, 2)
        H = build_fermion_op(terms)
    else:
        from tangelo.toolboxes.ansatz_generator import fermionic_operators as fo
        H = {"N": fo.number_operator, "Sz": fo.spinz_operator, "S2": fo.spin2_operator}[which](m, up_then_down=False)
        terms = dict(H.terms)
    old = shim.ALLOC_OBJECT
    shim.ALLOC_OBJECT = bool(env.symbolic)
    try:
        q = fermion_to_qubit_mapping(H, "HCB", n_spinorbitals=n).terms
    finally:
        shim.ALLOC_OBJECT = old
    for k in itertools.product((0, 1), repeat=m):
        f = tuple(x for ki in k for x in (ki, ki))
        got = PB.pauli_apply(q, k + (0,) * (max([i for w in q for i, _ in w] + [m - 1]) + 1 - m), exact=env.symbolic)
        got = {g[:m]: v for g, v in got.items()}
        exp = {}
        for g, v in fock.apply_operator(terms, f).items():
            if all(g[2 * i] == g[2 * i + 1] for i in range(m)):
                kk = tuple(g[2 * i] for i in range(m))
                exp[kk] = exp.get(kk, 0) + v
        keys = sorted(set(got) | set(exp))
        env.check_vec_eq([got.get(x, 0) for x in keys], [exp.get(x, 0) for x in keys],
                         f"HCB {m} orbitals, operator '{which}' without spin symmetry: map(Op)|pairs {k}> = seniority-zero block of Op|pairs {k}>")


def h_interaction_operator(env, n, mapping, utd, hermitian):
    """the documented second input form: an openfermion InteractionOperator (constant, one-body and two-body tensors; generic,
    NOT necessarily Hermitian dyadic entries, enumerated) gives the same qubit operator as the FermionOperator
    const + sum h[p,q] a+_p a_q + sum g[p,q,r,s] a+_p a+_q a_r a_s written out term by term (exact dyadic arithmetic, 1e-12)"""
    from openfermion import InteractionOperator
    from tangelo.toolboxes.operators import FermionOperator
    from tangelo.toolboxes.qubit_mappings.mapping_transform import fermion_to_qubit_mapping
    rnd = random.Random(1000 * n + 7 * len(mapping) + int(utd) + 2 * int(hermitian))
    with shim.concrete_mode():
        h = np.zeros((n, n), dtype=complex)
        g = np.zeros((n, n, n, n), dtype=complex)
        for p_ in range(n):
            for q_ in range(n):
                h[p_, q_] = rnd.randint(-8, 8) / 8 + 1j * rnd.randint(-4, 4) / 8
                for r_ in range(n):
                    for s_ in range(n):
                        if rnd.random() < 0.5:
                            g[p_, q_, r_, s_] = rnd.randint(-8, 8) / 16 + 1j * rnd.randint(-4, 4) / 16
        if hermitian:
            h = (h + h.conj().T) / 2
            g = (g + g.conj().transpose(3, 2, 1, 0)) / 2
        const = 0.375
        iop = InteractionOperator(const, h.copy(), g.copy())
        fop = FermionOperator((), const)
        for p_ in range(n):
            for q_ in range(n):
                if h[p_, q_] != 0:
                    fop += FermionOperator(((p_, 1), (q_, 0)), h[p_, q_])
                for r_ in range(n):
                    for s_ in range(n):
                        if g[p_, q_, r_, s_] != 0:
                            fop += FermionOperator(((p_, 1), (q_, 1), (r_, 0), (s_, 0)), g[p_, q_, r_, s_])
        kw = dict(n_spinorbitals=n, up_then_down=utd)
        got = dict(fermion_to_qubit_mapping(iop, mapping, **kw).terms)
        want = dict(fermion_to_qubit_mapping(fop, mapping, **kw).terms)
        keys = set(k for k, v in got.items() if abs(v) > 1e-12) | set(k for k, v in want.items() if abs(v) > 1e-12)
        dev = max([abs(complex(got.get(k, 0)) - complex(want.get(k, 0))) for k in keys] or [0.0])
        env.check_true(dev < 1e-12, f"{mapping} utd={utd}: map(InteractionOperator) == map(the same operator written as a FermionOperator) "
                                    f"[{'Hermitian' if hermitian else 'generic non-Hermitian'} tensors, {n} spin-orbitals]",
                       detail=f"max coefficient deviation {dev} over {len(keys)} words")
        env.check_true(np.array_equal(iop.one_body_tensor, h) and np.array_equal(iop.two_body_tensor, g) and iop.constant == const,
                       "the InteractionOperator handed in is unchanged")


def h_comb_reject(env):
    """combinatorial(): n_electrons is a (n_alpha, n_beta) tuple or an EVEN int; other forms are refused (an odd int would have to
    be split silently), and the int form equals the tuple form"""
    import importlib
    import numpy as np
    from symx import shim
    cmod = importlib.import_module("tangelo.toolboxes.qubit_mappings.combinatorial")
    terms = fock.molecular_hamiltonian_terms(0.5, [[1, 0.25, 0], [0.25, -1, 0.5], [0, 0.5, 2]],
                                             [[[[0.125 if (i == j and k == l) else 0 for l in range(3)] for k in range(3)] for j in range(3)] for i in range(3)], 3)
    H = build_fermion_op({t: float(c) for t, c in terms.items() if c != 0})
    with shim.concrete_mode():
        for bad in (3, 1, np.int64(3), 2.0, "2", (1, 1, 1), [1, 1]):
            env.check_raises(lambda: cmod.combinatorial(H, 3, bad), f"combinatorial(n_electrons={bad!r}) is refused")
        a = cmod.combinatorial(H, 3, 2)
        b = cmod.combinatorial(H, 3, (1, 1))
    keys = sorted(set(a.terms) | set(b.terms), key=str)
    env.check_true(all(abs(complex(a.terms.get(k, 0)) - complex(b.terms.get(k, 0))) < 1e-12 for k in keys), "combinatorial(H, 3, 2) == combinatorial(H, 3, (1, 1))")


def h_comb(env, m, na, nb, canary=False, complex_ints=False):
    """complex_ints: Hermitian Hamiltonian with COMPLEX integrals (complex orbitals / magnetic field); the oracle is then the action
    of the fermionic operator itself on every configuration of the sector"""
    import math
    from symx import shim
    import importlib
    cmod = importlib.import_module("tangelo.toolboxes.qubit_mappings.combinatorial")
    const, h, eri = (sym_integrals4c if complex_ints else sym_integrals)(env, m)
    fterms = fock.molecular_hamiltonian_terms(const, h, eri, m)
    H = build_fermion_op(fterms)
    old = shim.ALLOC_OBJECT
    shim.ALLOC_OBJECT = bool(env.symbolic)
    try:
        before = dict(H.terms)
        q = cmod.combinatorial(H, m, (na, nb)).terms
        # encoding reads its input: the caller's operator (constant included) is the same afterwards, so that encoding it again
        # - with this or any other mapping - gives the same result
        keys = sorted(set(before) | set(H.terms), key=str)
        env.check_same([k for k in keys if k not in H.terms or k not in before], [], "combinatorial() leaves the term set of its input operator unchanged")
        env.check_vec_eq([H.terms.get(k, 0) for k in keys], [before.get(k, 0) for k in keys], "combinatorial() leaves the coefficients of its input operator unchanged")
    finally:
        shim.ALLOC_OBJECT = old
    # documented basis numbering: lexicographic rank per spin (module function basis()), alpha-major composition
    ba, bb = cmod.basis(m, na), cmod.basis(m, nb)
    index = {}
    for sa, ia in ba.items():
        for sb, ib in bb.items():
            f = [0] * (2 * m)
            for i in sa:
                f[2 * i] = 1
            for i in sb:
                f[2 * i + 1] = 1
            index[tuple(f)] = ia * len(bb) + ib
    nbasis = len(index)
    env.check_same(sorted(index.values()), list(range(nbasis)), "configuration numbering is a bijection onto 0..n_basis-1")
    nq = max(1, math.ceil(math.log2(nbasis))) if nbasis > 1 else 0
    nq = max(nq, max([qq for w in q for qq, _ in w], default=-1) + 1)

    def bits(v):
        # qubit j of the Pauli sum carries bit j of the index (int_to_tuple: bit pair j of the stabilizer code)
        return tuple((v >> j) & 1 for j in range(nq))
    rep = {bits(v): f for f, v in index.items()}
    from symx import refsem as _R
    d_same, d_transposed = _R.C(0), _R.C(0)
    for f, v in index.items():
        got = PB.pauli_apply(q, bits(v), exact=env.symbolic)
        row = fock.apply_operator(fterms, f) if complex_ints else fock.slater_condon_row(f, const, h, eri)
        exp = {bits(index[g]): val for g, val in row.items() if g in index}
        if canary and v == 0:
            exp[bits(0)] = exp[bits(0)] + 1
        keys = sorted(set(got) | set(exp))
        if complex_ints:
            # the property asks for the same SPECTRUM on the sector: the matrix of Q may be that of H or its transpose
            # (= complex conjugate, H being Hermitian); accumulated squared distances to both
            for x in keys:
                g_, e_ = _R.C(1) * got.get(x, 0), _R.C(1) * exp.get(x, 0)
                d1, d2 = g_ - e_, g_ - _R.n_conj(e_)
                d_same, d_transposed = d_same + d1 * _R.n_conj(d1), d_transposed + d2 * _R.n_conj(d2)
            continue
        env.check_vec_eq([got.get(x, 0) for x in keys], [exp.get(x, 0) for x in keys],
                         f"combinatorial m={m} (n_alpha,n_beta)=({na},{nb}): Q|index {v}> = Slater-Condon row of configuration {f}")
    if complex_ints:
        env.check_eq(d_same * d_transposed, 0, f"combinatorial m={m} (n_alpha,n_beta)=({na},{nb}), complex Hermitian integrals: the sector matrix of Q is that "
                                               f"of H or of its transpose (same spectrum)")
    for v in range(nbasis, 2 ** nq):
        got = PB.pauli_apply(q, bits(v), exact=env.symbolic)
        leak = [got[x] for x in sorted(got) if x in rep]
        env.check_vec_eq(leak, [0] * len(leak), f"combinatorial: padding index {v} does not couple to the represented space")


def h_comb_complex_numeric(env, m, na, nb, seed=0):
    """AUXILIARY concrete shape (ordinary numpy arrays, no solver role): complex Hermitian integrals through the real combinatorial():
    the sector matrix of the returned operator equals that of H or of its transpose (same spectrum), entry by entry (1e-9). The
    symbolic twin (combinatorial-complex/*) runs on object arrays, which cannot show a loss caused by the dtype of a numpy array."""
    import importlib
    cmod = importlib.import_module("tangelo.toolboxes.qubit_mappings.combinatorial")
    rnd = random.Random(2000 + seed)

    class Fixed:
        symbolic = False

        def real(self, name, lo, hi):
            return rnd.randint(-16, 16) / 8

        def complex(self, name):
            return complex(rnd.randint(-16, 16) / 8, rnd.choice([-1, 1]) * rnd.randint(1, 16) / 8)
    with shim.concrete_mode():
        const, h, eri = sym_integrals4c(Fixed(), m)
        terms = {t: complex(c) for t, c in fock.molecular_hamiltonian_terms(const, h, eri, m).items() if c != 0}
        q = cmod.combinatorial(build_fermion_op(dict(terms)), m, (na, nb)).terms
        ba, bb = cmod.basis(m, na), cmod.basis(m, nb)
        index = {}
        for sa, ia in ba.items():
            for sb, ib in bb.items():
                f = [0] * (2 * m)
                for i in sa:
                    f[2 * i] = 1
                for i in sb:
                    f[2 * i + 1] = 1
                index[tuple(f)] = ia * len(bb) + ib
        nq = max([qq for w in q for qq, _ in w], default=0) + 1
        d_same = d_tr = 0.0
        n_complex = 0
        for f, v in index.items():
            got = PB.pauli_apply(q, tuple((v >> j) & 1 for j in range(nq)))
            row = fock.apply_operator(terms, f)
            for g, val in row.items():
                if g in index:
                    gg = complex(got.get(tuple((index[g] >> j) & 1 for j in range(nq)), 0))
                    d_same, d_tr = max(d_same, abs(gg - val)), max(d_tr, abs(gg - val.conjugate()))
                    n_complex += abs(val.imag) > 1e-6
    env.check_true(n_complex > 0, "harness premise: the sector matrix has complex entries")
    env.check_true(min(d_same, d_tr) < 1e-9, f"combinatorial m={m} ({na},{nb}), complex Hermitian integrals (numpy arrays): sector matrix == that of H or of its transpose",
                   detail=f"max deviation from H {d_same}, from H^T {d_tr}")


def h_comb_precision(env, m, na, nb, seed=0):
    """ordinary double-precision integrals (not representable in single precision) through the real combinatorial():
    matrix elements of the returned operator vs Slater-Condon values computed in exact rational arithmetic, tolerance 1e-8"""
    import importlib
    cmod = importlib.import_module("tangelo.toolboxes.qubit_mappings.combinatorial")
    rnd = random.Random(1000 + seed)

    class Fixed:
        symbolic = False

        def real(self, name, lo, hi):
            return F(rnd.randint(-19, 19), 10)
    const, h, eri = sym_integrals(Fixed(), m)
    terms = fock.molecular_hamiltonian_terms(const, h, eri, m)
    H = build_fermion_op({t: float(c) for t, c in terms.items() if c != 0})
    q = cmod.combinatorial(H, m, (na, nb)).terms
    ba, bb = cmod.basis(m, na), cmod.basis(m, nb)
    index = {}
    for sa, ia in ba.items():
        for sb, ib in bb.items():
            f = [0] * (2 * m)
            for i in sa:
                f[2 * i] = 1
            for i in sb:
                f[2 * i + 1] = 1
            index[tuple(f)] = ia * len(bb) + ib
    nq = max([qq for w in q for qq, _ in w], default=0) + 1
    worst, where = 0.0, ""
    for f, v in index.items():
        b = tuple((v >> j) & 1 for j in range(nq))
        got = PB.pauli_apply(q, b)
        row = fock.slater_condon_row(f, const, h, eri)
        for g, val in row.items():
            if g in index:
                bg = tuple((index[g] >> j) & 1 for j in range(nq))
                d = abs(complex(got.get(bg, 0)) - float(val)) / max(1.0, abs(float(val)))
                if d > worst:
                    worst, where = d, f"<{g}|H|{f}>: got {complex(got.get(bg, 0))!r}, exact {float(val)!r} (= {val})"
    env.check_true(worst <= 1e-8, f"combinatorial m={m} ({na},{nb}): matrix elements agree with exact values to 1e-8 for double-precision input",
                   detail=f"largest relative deviation {worst:.3g}: {where}")


def shapes(tier, seed):
    rnd = random.Random(seed)
    quick = tier == "quick"
    out = []
    # (a)+(b)
    ns = (2, 3, 4, 5, 6, 8) if quick else (2, 3, 4, 5, 6, 7, 8, 10, 12)
    for mapping in ("JW", "BK", "JKMN"):
        for n in ns:
            for utd in ((False, True) if n % 2 == 0 else (False,)):
                out.append(Shape(f"ladder/{mapping}/n{n}/utd{int(utd)}", h_ladder, dict(mapping=mapping, n=n, utd=utd), modules=MODS))
    out.append(Shape("canary/ladder/BK/sign", h_ladder, dict(mapping="BK", n=4, utd=True, canary=True), modules=MODS, canary=True))
    out.append(Shape("canary/ladder/JKMN/occ", h_ladder, dict(mapping="JKMN", n=4, utd=False, canary=True), modules=MODS, canary=True))
    # (c)
    for mapping in ("JW", "BK", "JKMN"):
        for utd in (False, True):
            singles = all_monomials(range(4), 1)
            out.append(Shape(f"linear/{mapping}/n4/utd{int(utd)}/singles", h_linear,
                             dict(mapping=mapping, n=4, utd=utd, monos_a=singles, monos_b=singles), modules=MODS))
            pool = all_monomials(range(4), 2)
            for b in range(1 if quick else 6):
                out.append(Shape(f"linear/{mapping}/n4/utd{int(utd)}/mixed{b}", h_linear,
                                 dict(mapping=mapping, n=4, utd=utd, monos_a=rnd.sample(pool, 10), monos_b=rnd.sample(pool, 5)), modules=MODS))
            low = all_monomials(range(3), 2)          # never touches the highest index; n_spinorbitals passed explicitly
            out.append(Shape(f"linear/{mapping}/n4/utd{int(utd)}/low", h_linear,
                             dict(mapping=mapping, n=4, utd=utd, monos_a=rnd.sample(low, 8), monos_b=rnd.sample(low, 4)), modules=MODS))
            pool6 = all_monomials(range(5), 2) + conserving_monomials(range(6), 2)
            for b in range(1 if quick else 4):
                out.append(Shape(f"linear/{mapping}/n6/utd{int(utd)}/mixed{b}", h_linear,
                                 dict(mapping=mapping, n=6, utd=utd, monos_a=rnd.sample(pool6, 8), monos_b=rnd.sample(pool6, 4)), modules=MODS))
    for (n, ne, sp) in ((4, 2, 0), (4, 3, 1), (4, 1, -1)) + (() if quick else ((6, 2, 0), (6, 3, -1), (6, 4, 2))):
        for utd in (False, True):
            pool = conserving_monomials(range(n), 1) + conserving_monomials(range(n - 1), 2)
            out.append(Shape(f"linear/scBK/n{n}/N{ne}s{sp}/utd{int(utd)}", h_linear,
                             dict(mapping="scbk", n=n, utd=utd, monos_a=rnd.sample(pool, 8), monos_b=rnd.sample(pool, 4), n_electrons=ne, spin=sp),
                             modules=MODS))
    out.append(Shape("canary/linear/BK", h_linear, dict(mapping="BK", n=4, utd=True, monos_a=all_monomials(range(4), 1)[:3],
                                                        monos_b=all_monomials(range(4), 1)[3:5], canary=True), modules=MODS, canary=True))
    # (d)
    for n in ((4, 6) if quick else (4, 6, 8, 10)):
        one, two = conserving_monomials(range(n), 1), conserving_monomials(range(n), 2)
        for (ne, sp) in admissible(n):
            for utd in (False, True):
                monos = one + (two if n == 4 else rnd.sample(two, 24 if quick else 48))
                out.append(Shape(f"scbk/n{n}/N{ne}s{sp}/utd{int(utd)}", h_scbk, dict(n=n, n_electrons=ne, spin=sp, utd=utd, monos=monos), modules=MODS))
    out.append(Shape("canary/scbk/sector", h_scbk, dict(n=4, n_electrons=3, spin=-1, utd=True, monos=conserving_monomials(range(4), 1), canary=True),
                     modules=MODS, canary=True))
    # (e)
    for m in ((2, 3) if quick else (2, 3, 4)):
        out.append(Shape(f"hcb/m{m}", h_hcb, dict(m=m), modules=MODS))
        out.append(Shape(f"hcb4fold/m{m}", h_hcb_general, dict(m=m), modules=MODS))
        out.append(Shape(f"hcb4fold-complex/m{m}", h_hcb_general, dict(m=m, complex_ints=True), modules=MODS))
    for which, ms in (("N", (2, 3)), ("Sz", (2, 3)), ("S2", (2, 3)), ("generic", (2,)), ("up-only", (2, 3))):
        for m in ms:
            out.append(Shape(f"hcb-spin/{which}/m{m}", h_hcb_spin, dict(m=m, which=which), modules=MODS))
    out.append(Shape("comb/reject-n_electrons", h_comb_reject, {}, modules=()))
    for mp_ in ("jw", "bk", "jkmn"):
        for utd_ in (False, True):
            for herm_ in (False, True):
                for n_ in ((4,) if tier == "quick" else (2, 4, 6)):
                    out.append(Shape(f"aux/interaction-operator/{mp_}/utd={int(utd_)}/n{n_}/{'herm' if herm_ else 'generic'}", h_interaction_operator,
                                     dict(n=n_, mapping=mp_, utd=utd_, hermitian=herm_), modules=()))
    out.append(Shape("canary/hcb", h_hcb, dict(m=2, canary=True), modules=MODS, canary=True))
    # (f)  every (n_alpha, n_beta) with at least two configurations
    import math
    for m in ((2, 3) if quick else (2, 3, 4)):
        for na in range(m + 1):
            for nb in range(m + 1):
                if math.comb(m, na) * math.comb(m, nb) >= 2:
                    out.append(Shape(f"combinatorial/m{m}/a{na}b{nb}", h_comb, dict(m=m, na=na, nb=nb), modules=MODS))
    for (m_, na_, nb_) in ((2, 1, 1), (3, 1, 1), (2, 1, 0)) + (((3, 2, 1),) if tier == "thorough" else ()):
        out.append(Shape(f"combinatorial-complex/m{m_}/a{na_}b{nb_}", h_comb, dict(m=m_, na=na_, nb=nb_, complex_ints=True), modules=MODS))
    for (m_, na_, nb_) in ((2, 1, 1), (3, 1, 1), (3, 2, 1)):
        out.append(Shape(f"aux/combinatorial-complex-numeric/m{m_}/a{na_}b{nb_}", h_comb_complex_numeric, dict(m=m_, na=na_, nb=nb_, seed=seed), modules=()))
    out.append(Shape("canary/combinatorial", h_comb, dict(m=2, na=1, nb=1, canary=True), modules=MODS, canary=True))
    for (m, na, nb) in ((2, 1, 1), (3, 2, 1)):
        out.append(Shape(f"precision/combinatorial/m{m}/a{na}b{nb}", h_comb_precision, dict(m=m, na=na, nb=nb), modules=MODS))
    return out
