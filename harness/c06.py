"""C06  Pauli-exponential and time-evolution circuits implement exp(-itH)."""
import itertools
import random

from symx.core import Shape
from symx import refsem as R, shim
from symx.num import Sym

PROPERTY = "C06"
MODS = ("tangelo.toolboxes.ansatz_generator.ansatz_utils", "tangelo.toolboxes.unitary_generator.trotter_suzuki")

META = dict(
    explanation="(a) exp_pauliword_to_gates(P, c, control) is executed on a symbolic real coefficient c (both branches "
                "c>=0 / c<0 are separate solver-explored paths); the unitary of the returned gate list (documented gate "
                "matrices, symx.refsem) is compared entry-wise, phase included, with cos(c) I - i sin(c) P (controlled: "
                "block form). (b) get_exponentiated_qubit_operator_circuit / trotterize / TrotterSuzukiUnitary on "
                "operators with symbolic coefficients and symbolic time(s): circuit x returned phase equals the ordered "
                "Trotter-Suzuki product built by the oracle from exact cos I - i sin P factors.",
    bounds=dict(quick="words on <=3 qubits inside width 4 (seeded subset + fixed core), control in {none, 1, 2 qubits}; "
                      "operators of 1-3 words (+identity), orders 1,2, steps 1-2; |c| <= 20",
                thorough="all 63 words on <=3 qubits inside width 4, control none/1/2 qubits; operators 1-3 words, "
                         "orders 1,2,4, steps 1-3, qubit and fermionic input (JW, BK)"),
    outside=["IEEE rounding", "terms with |coef*t| below the 1e-10 skip threshold (threshold-assume policy; aux/small-terms checks concrete angles just above it)",
             "the analytic commutator error bound of the product formula for non-commuting terms (cited, not re-proved): "
             "for those the check is equality with the product formula S_k(t/n)^n itself",
             "4th-order formula on two non-commuting terms WITHOUT control: the exact comparison exceeds the 900 s shape budget "
             "(decided with a control qubit and for commuting / single-term operators)"],
    stubs=[], trusted_base=["documented gate matrices in symx.refsem"],
)


def preload():
    import tangelo.toolboxes.ansatz_generator.ansatz_utils  # noqa
    import tangelo.toolboxes.unitary_generator  # noqa


def spec_exp_word(word, c, nq, controls, sign=-1):
    """columns of  cos(c) I + sign*i sin(c) P  (identity unless all controls are 1)"""
    cols = []
    cc, ss = R.n_cos(c), R.n_sin(c)
    for col in range(2 ** nq):
        e = R.basis_state(nq, col)
        if controls and not all((col >> (nq - 1 - q)) & 1 for q in controls):
            cols.append(e)
            continue
        pe = R.apply_pauli_word(e, nq, word)
        cols.append([cc * a + (sign * R.IMAG()) * ss * b for a, b in zip(e, pe)])
    return cols


def h_pauliword(env, word, nq, control, canary=False):
    from tangelo.toolboxes.ansatz_generator.ansatz_utils import exp_pauliword_to_gates
    c = env.real("c", lo=-20, hi=20)
    gates = exp_pauliword_to_gates(word, c, control=control)
    ctl = [] if control is None else ([control] if isinstance(control, int) else list(control))
    U = R.unitary(gates, nq)
    S = spec_exp_word(word, c, nq, ctl, sign=(+1 if canary else -1))
    env.check_vec_eq([x for col in U for x in col], [x for col in S for x in col],
                     f"unitary of exp_pauliword_to_gates({word}, c, control={control}) == cos(c) I - i sin(c) P")
    # structural: the rotation gate is flagged variational, every gate acts inside the word's support (+control)
    sup = {q for q, _ in word} | set(ctl)
    env.check_true(all(set(g.target) | set(g.control or []) <= sup for g in gates), "gates stay on support")


def all_words(qubits):
    for k in range(1, len(qubits) + 1):
        for qs in itertools.combinations(qubits, k):
            for ps in itertools.product("XYZ", repeat=k):
                yield tuple(zip(qs, ps))


# ------------------------------------------------------------------ (b) operators
def product_formula(terms_in_order, nq, ctl):
    """ordered product of exact single-word exponentials: list of (word, angle) applied left to right"""
    cols = [R.basis_state(nq, j) for j in range(2 ** nq)]
    for word, ang in terms_in_order:
        cc, ss = R.n_cos(ang), R.n_sin(ang)
        new = []
        for j, st in enumerate(cols):
            pst = R.apply_pauli_word(st, nq, word)
            out = []
            for idx, (a, b) in enumerate(zip(st, pst)):
                if ctl and not all((idx >> (nq - 1 - q)) & 1 for q in ctl):
                    out.append(a)
                else:
                    out.append(cc * a - R.IMAG() * ss * b)
            new.append(out)
        cols = new
    return cols


def suzuki(terms, order, t):
    """reference Trotter-Suzuki sequence [(word, coef*time)] (math-ph/0506007)"""
    if order == 1:
        return [(w, c * t) for w, c in terms]
    if order == 2:
        return suzuki(terms, 1, t / 2) + suzuki(terms[::-1], 1, t / 2)
    p = 1 / (4 - 4 ** (1 / (order - 1)))
    out = suzuki(terms, order - 2, p * t) * 2
    return out + suzuki(terms, order - 2, (1 - 4 * p) * t) + out


def h_qubit_op(env, words, nq, order, steps, control, time_mode, use_trotterize, ident, canary=False, pi_multiples=None, pauli_order=False):
    from tangelo.toolboxes.operators import QubitOperator
    from tangelo.toolboxes.ansatz_generator.ansatz_utils import trotterize, get_exponentiated_qubit_operator_circuit
    if pi_multiples is not None:
        # concrete coefficients that are exact multiples of pi (whole and half turns of the Pauli rotation): a measure-zero set
        # the symbolic shapes assume away at the skip threshold
        import numpy as np
        coefs = [float(k) * np.pi for k in pi_multiples]
    else:
        coefs = [env.real(f"c{i}", lo=-3, hi=3) for i in range(len(words))]
    op = QubitOperator()
    for w, c in zip(words, coefs):
        op.terms[w] = c
    c_id = None
    if ident:
        c_id = env.real("cid", lo=-3, hi=3)
        op.terms[()] = c_id
    if time_mode == "one":
        time = 1.
        times = {w: 1 for w in op.terms}
    elif time_mode == "scalar":
        t = env.real("t", lo=-3, hi=3)
        time = t
        times = {w: t for w in op.terms}
    else:
        times = {w: env.real(f"t{i}", lo=-3, hi=3) for i, w in enumerate(op.terms)}
        time = dict(times)
    if use_trotterize:
        circ, phase = trotterize(op, time=time, n_trotter_steps=steps, trotter_order=order, control=control, return_phase=True)
    elif pauli_order:
        # user-chosen term order, the SAME list object handed in twice: the second call is the same circuit, the list is untouched
        steps = 1
        po = [(w, op.terms[w]) for w in reversed(list(op.terms))]
        keep = list(po)
        get_exponentiated_qubit_operator_circuit(op, time=time, trotter_order=order, control=control, return_phase=True, pauli_order=po)
        circ, phase = get_exponentiated_qubit_operator_circuit(op, time=time, trotter_order=order, control=control, return_phase=True, pauli_order=po)
        env.check_true(len(po) == len(keep) and all(a[0] == b[0] and a[1] is b[1] for a, b in zip(po, keep)), "the pauli_order list passed in is unchanged")
    else:
        steps = 1
        circ, phase = get_exponentiated_qubit_operator_circuit(op, time=time, trotter_order=order, control=control, return_phase=True)
    ctl = [] if control is None else ([control] if isinstance(control, int) else list(control))
    U = R.unitary(circ._gates, nq)
    U = [[phase * x for x in col] for col in U]
    # oracle: per step, Suzuki sequence over ALL terms in the operator's own term order, identity included
    seq = []
    items = [(w, op.terms[w] * times[w]) for w in (reversed(list(op.terms)) if pauli_order else op.terms)]     # (word, c_j * t_j)
    one = suzuki([(w, a) for w, a in items], order, R.C(1) / steps)
    if canary:
        one = one[::-1] if len(one) > 1 and order == 1 else [(w, -a) for w, a in one]
    seq = one * steps
    # exp(-i a * Identity) is the scalar e^{-ia} (uncontrolled) or a phase on the controlled block
    S = product_formula([(w, a) for w, a in seq], nq, ctl)
    env.check_vec_eq([x for col in U for x in col], [x for col in S for x in col],
                     f"phase*unitary(trotterize order={order} steps={steps} control={control}) == product formula")


def _np_unitary(gates, n):
    """double-precision unitary of a circuit of one-qubit (possibly controlled) gates; index = bitstring with qubit 0 first"""
    import numpy as np

    def m1(name, th):
        c, s_ = np.cos(th / 2) if th is not None else 0, np.sin(th / 2) if th is not None else 0
        return {"H": np.array([[1, 1], [1, -1]]) / np.sqrt(2), "X": np.array([[0, 1], [1, 0]]), "Y": np.array([[0, -1j], [1j, 0]]),
                "Z": np.diag([1, -1]), "S": np.diag([1, 1j]), "T": np.diag([1, np.exp(0.25j * np.pi)]),
                "RX": np.array([[c, -1j * s_], [-1j * s_, c]]), "RY": np.array([[c, -s_], [s_, c]]),
                "RZ": np.diag([np.exp(-0.5j * th), np.exp(0.5j * th)]) if th is not None else None,
                "PHASE": np.diag([1, np.exp(1j * th)]) if th is not None else None}[name]
    U = np.eye(2 ** n, dtype=complex)
    for g in gates:
        name, ctl = g.name, list(g.control or [])
        base = {"CNOT": "X", "CX": "X", "CY": "Y", "CZ": "Z", "CH": "H", "CRX": "RX", "CRY": "RY", "CRZ": "RZ", "CPHASE": "PHASE"}.get(name, name)
        M = m1(base, float(g.parameter) if g.parameter != "" else None)
        t = g.target[0]
        G = np.zeros((2 ** n, 2 ** n), dtype=complex)
        for col in range(2 ** n):
            bits = [(col >> (n - 1 - q)) & 1 for q in range(n)]
            if all(bits[c_] for c_ in ctl):
                for b_ in (0, 1):
                    nb = list(bits)
                    nb[t] = b_
                    G[int("".join(map(str, nb)), 2), col] += M[b_, bits[t]]
            else:
                G[col, col] = 1
        U = G @ U
    return U


def h_small_terms(env, eps, steps, via):
    """AUXILIARY concrete shape (no solver role; the subject is the numeric skip threshold): terms whose rotation angle per step is
    small but ABOVE the documented skip threshold (|coef * time / n_steps| > 1e-10) are still exponentiated. Two commuting terms on
    different qubits, so the product formula is exact: phase * U == exp(-i a Z0) (x) exp(-i eps X1) entry by entry (1e-13 << eps)"""
    import cmath
    import math
    from tangelo.toolboxes.operators import QubitOperator
    from tangelo.toolboxes.ansatz_generator.ansatz_utils import trotterize, get_exponentiated_qubit_operator_circuit
    from tangelo.toolboxes.unitary_generator import TrotterSuzukiUnitary
    with shim.concrete_mode():
        a = 0.7
        op = QubitOperator()
        op.terms[((0, "Z"),)] = a
        op.terms[((1, "X"),)] = eps * steps      # eps is the per-step angle of the small term
        if via == "trotterize":
            circ, phase = trotterize(op, time=1.0, n_trotter_steps=steps, trotter_order=1, return_phase=True)
        elif via == "unitary":
            circ, phase = TrotterSuzukiUnitary(op, time=1.0, trotter_order=1, n_trotter_steps=steps).build_circuit(1), 1.0
        else:
            steps_eff = 1
            op.terms[((1, "X"),)] = eps
            circ, phase = get_exponentiated_qubit_operator_circuit(op, time=1.0, return_phase=True)
        Un = complex(phase) * _np_unitary(circ._gates, 2)
        U = [[Un[r, c] for r in range(4)] for c in range(4)]
        tot = eps * steps if via != "direct" else eps
        z = [cmath.exp(-1j * a), cmath.exp(1j * a)]
        x = [[math.cos(tot), -1j * math.sin(tot)], [-1j * math.sin(tot), math.cos(tot)]]
        # index = bitstring with qubit 0 first (most significant)
        ref = [[z[i0] * x[i1][j1] if i0 == j0 else 0j for (i0, i1) in ((0, 0), (0, 1), (1, 0), (1, 1))] for (j0, j1) in ((0, 0), (0, 1), (1, 0), (1, 1))]
        dev = max(abs(U[c][r] - ref[c][r]) for c in range(4) for r in range(4))
    env.check_true(dev < 1e-13, f"{via}: a term with per-step angle {eps} (above the 1e-10 skip threshold) is exponentiated [n_steps={steps}]",
                   detail=f"max entry deviation {dev}")


def h_unitary(env, words, nq, order, steps, n_steps, control, method, via_default):
    """TrotterSuzukiUnitary.build_circuit(n_steps, control, method): 'time' -> one product formula for time*n_steps,
    'repeat' -> the product formula for `time`, n_steps times; with the order / step count the object was created with."""
    from tangelo.toolboxes.operators import QubitOperator
    from tangelo.toolboxes.unitary_generator import TrotterSuzukiUnitary
    coefs = [env.real(f"c{i}", lo=-3, hi=3) for i in range(len(words))]
    op = QubitOperator()
    for w, c in zip(words, coefs):
        op.terms[w] = c
    t = env.real("t", lo=-3, hi=3)
    if via_default:
        un = TrotterSuzukiUnitary(op, time=t, trotter_order=order, n_trotter_steps=steps, n_steps_method=method)
        circ = un.build_circuit(n_steps, control=control)
    else:
        other = "repeat" if method == "time" else "time"
        un = TrotterSuzukiUnitary(op, time=t, trotter_order=order, n_trotter_steps=steps, n_steps_method=other)
        circ = un.build_circuit(n_steps, control=control, method=method)
    ctl = [] if control is None else ([control] if isinstance(control, int) else list(control))
    U = R.unitary(circ._gates, nq)
    if method == "time":
        seq = suzuki([(w, op.terms[w] * t * n_steps) for w in op.terms], order, R.C(1) / steps) * steps
    else:
        seq = suzuki([(w, op.terms[w] * t) for w in op.terms], order, R.C(1) / steps) * steps * n_steps
    S = product_formula([(w, a) for w, a in seq], nq, ctl)
    env.check_vec_eq([x for col in U for x in col], [x for col in S for x in col],
                     f"TrotterSuzukiUnitary(order={order}, n_trotter_steps={steps}).build_circuit({n_steps}, control={control}, {method}) == product formula")
    sq, anc = un.qubit_indices()
    env.check_true(list(sq) == list(range(nq - len(ctl))) and list(anc) == [], "qubit_indices")
    if isinstance(control, int):
        # the same object asked again for the same power with ANOTHER control qubit (QPE registers of different sizes)
        c2 = control + 1
        circ2 = un.build_circuit(n_steps, control=c2, method=method) if not via_default else un.build_circuit(n_steps, control=c2)
        U2 = R.unitary(circ2._gates, nq + 1)
        S2 = product_formula([(w, a) for w, a in seq], nq + 1, [c2])
        env.check_vec_eq([x for col in U2 for x in col], [x for col in S2 for x in col],
                         f"same TrotterSuzukiUnitary object, build_circuit({n_steps}, control={c2}) after control={control} == product formula controlled by {c2}")


def h_fermion_op(env, nq, mapping, order, steps, time_mode="scalar", canary=False, complex_hop=False):
    """fermionic input: trotterize maps with the real fermion_to_qubit_mapping (C03 checks the mapping itself); the oracle
    maps the time-scaled operator sum_k c_k t_k T_k and exponentiates the result by the reference product formula"""
    from tangelo.toolboxes.operators import FermionOperator
    from tangelo.toolboxes.ansatz_generator.ansatz_utils import trotterize
    from tangelo.toolboxes.qubit_mappings.mapping_transform import fermion_to_qubit_mapping
    a = env.real("a", lo=-2, hi=2)
    b = env.real("b", lo=-2, hi=2)
    # hermitian: a (p^q + q^p) + b n_r
    # hopping 0<->1 and the occupation of orbital 1 do NOT commute (a product formula of order 1 and of order 2 differ)
    terms = [(((0, 1), (1, 0)), a), (((1, 1), (0, 0)), a), (((1, 1), (1, 0)), b)]
    if complex_hop:
        # Hermitian operator with a COMPLEX hopping amplitude (Peierls phase): z p^q + conj(z) q^p + b n_r
        z = env.complex("z")
        terms = [(((0, 1), (1, 0)), z), (((1, 1), (0, 0)), z.conjugate()), (((1, 1), (1, 0)), b)]
    op = FermionOperator()
    for t_, c in terms:
        op += FermionOperator(t_, c)
    if time_mode == "scalar":
        t = env.real("t", lo=-2, hi=2)
        time = t
        times = {t_: t for t_, _ in terms}
    else:
        # equal times for the two hermitian-conjugate hopping terms (keeps the scaled operator Hermitian), another for n_r
        t1, t2 = env.real("t1", lo=-2, hi=2), env.real("t2", lo=-2, hi=2)
        times = {terms[0][0]: t1, terms[1][0]: t1, terms[2][0]: t2}
        time = dict(times)
    # the caller's operator is evolved TWICE (e.g. once per step count of a scan): it is left untouched and the second circuit,
    # the one checked below, is the evolution of the same operator
    before = dict(op.terms)
    trotterize(op, time=time, n_trotter_steps=steps, trotter_order=order, return_phase=True,
               mapping_options={"qubit_mapping": mapping, "n_spinorbitals": nq})
    env.check_true(dict(op.terms) == before, "trotterize leaves the caller's FermionOperator unchanged", detail=f"{before} -> {dict(op.terms)}"[:300])
    circ, phase = trotterize(op, time=time, n_trotter_steps=steps, trotter_order=order, return_phase=True,
                             mapping_options={"qubit_mapping": mapping, "n_spinorbitals": nq})
    U = R.unitary(circ._gates, nq)
    U = [[phase * x for x in col] for col in U]
    scaled = FermionOperator()
    for t_, c in terms:
        scaled += FermionOperator(t_, c * times[t_])
    qop = fermion_to_qubit_mapping(scaled, mapping, n_spinorbitals=nq)
    items = [(w, (R.C(1) * c if complex_hop else R.C(c).real)) for w, c in qop.terms.items()]
    if canary:
        items = [(w, -x) for w, x in items]
    one = suzuki(items, order, R.C(1) / steps)
    S = product_formula(one * steps, nq, [])
    env.check_vec_eq([x for col in U for x in col], [x for col in S for x in col],
                     f"fermionic trotterize({mapping}, time={time_mode}) == product formula of the mapped, time-scaled operator")


def shapes(tier, seed):
    rnd = random.Random(seed)
    out = []
    nq = 4
    words = list(all_words([0, 1, 2]))
    core = [((0, "X"),), ((1, "Y"),), ((2, "Z"),), ((0, "X"), (1, "Y")), ((0, "Z"), (2, "Y")), ((0, "Y"), (1, "X"), (2, "Z")),
            ((2, "Y"), (0, "X"))]
    if tier == "quick":
        extra = rnd.sample([w for w in words if w not in core], 8)
        sel = core + extra
    else:
        sel = words + [((2, "Y"), (0, "X")), ((2, "Z"), (1, "X"), (0, "Y"))]
    for w in sel:
        for control in (None, 3):
            nm = "".join(f"{p}{q}" for q, p in w)
            out.append(Shape(f"pauliword/{nm}/ctl={control}", h_pauliword, dict(word=w, nq=nq, control=control), modules=MODS))
    # two control qubits: words on qubits 0,1 in width 4 with controls [2,3]
    w2 = list(all_words([0, 1]))
    for w in (w2 if tier == "thorough" else rnd.sample(w2, 4)):
        nm = "".join(f"{p}{q}" for q, p in w)
        out.append(Shape(f"pauliword/{nm}/ctl=[2,3]", h_pauliword, dict(word=w, nq=nq, control=[2, 3]), modules=MODS))
    # control qubit BELOW the system register (index 0), as int and as one-element list
    for w in [((1, "X"), (2, "Y")), ((3, "Z"),), ((1, "Y"), (3, "X")), ((2, "Z"), (1, "X"))]:
        nm = "".join(f"{p}{q}" for q, p in w)
        for control in (0, [0]):
            out.append(Shape(f"pauliword/{nm}/ctl={control}", h_pauliword, dict(word=w, nq=nq, control=control), modules=MODS))
    out.append(Shape("qubitop/X1X2+Z1/ctl=0/id", h_qubit_op, dict(words=[((1, "X"), (2, "X")), ((1, "Z"),)], nq=3, order=2, steps=1, control=0,
                                                                 time_mode="scalar", use_trotterize=True, ident=True), modules=MODS))
    out.append(Shape("canary/pauliword/sign", h_pauliword, dict(word=((0, "X"), (1, "Y")), nq=3, control=2, canary=True),
                     modules=MODS, canary=True))
    # (b)
    opsets = [
        ([((0, "Z"),)], 2),
        ([((0, "X"), (1, "X")), ((0, "Z"),)], 2),                       # non-commuting
        ([((0, "Z"), (1, "Z")), ((0, "X"), (1, "X"))], 2),              # commuting
        ([((0, "X"),), ((1, "Y"), (2, "Z")), ((0, "Z"), (2, "X"))], 3),
    ]
    cfgs = []
    for (ws, n) in opsets:
        for order in ((1, 2) if tier == "quick" else (1, 2, 4)):
            for steps in ((1, 2) if tier == "quick" else (1, 2, 3)):
                if order == 4 and (len(ws) > 2 or steps > 1):
                    continue
                if order == 4 and ws == opsets[1][0]:
                    # the 4th-order weights contain 4**(1/3): for two NON-commuting terms without a control the exact comparison
                    # does not finish within the 900 s shape budget (measured); the controlled variant and the commuting sets do
                    skip_unctl_o4 = True
                else:
                    skip_unctl_o4 = False
                for control in (None, n):
                    if control is None and skip_unctl_o4:
                        continue
                    for time_mode in ("scalar", "dict"):
                        for ident in (False, True):
                            cfgs.append((ws, n, order, steps, control, time_mode, ident))
    if tier == "quick":
        keep = [c for c in cfgs if (c[2], c[3]) in ((1, 1), (2, 2))]
        cfgs = rnd.sample(keep, min(len(keep), 16)) + [c for c in cfgs if len(c[0]) == 2 and c[2] == 2 and c[3] == 1 and c[5] == "dict" and c[6]][:2]
    seen = set()
    for (ws, n, order, steps, control, time_mode, ident) in cfgs:
        nm = "+".join("".join(f"{p}{q}" for q, p in w) for w in ws)
        name = f"qubitop/{nm}/o{order}s{steps}/ctl={control}/{time_mode}/id={int(ident)}"
        if name in seen:
            continue
        seen.add(name)
        nq = n + (1 if control is not None else 0)
        out.append(Shape(name, h_qubit_op, dict(words=ws, nq=nq, order=order, steps=steps, control=control,
                                                time_mode=time_mode, use_trotterize=True, ident=ident), modules=MODS))
    # two controls for the identity term (CPHASE + CRZ branch), and the non-trotterize entry point
    out.append(Shape("qubitop/Z0/ctl=[1,2]/id", h_qubit_op, dict(words=[((0, "Z"),)], nq=3, order=1, steps=1, control=[1, 2],
                                                                time_mode="scalar", use_trotterize=True, ident=True), modules=MODS))
    out.append(Shape("qubitop/Z1/ctl=[0,2]/id", h_qubit_op, dict(words=[((1, "Z"),)], nq=3, order=1, steps=1, control=[0, 2],
                                                                time_mode="scalar", use_trotterize=True, ident=True), modules=MODS))
    out.append(Shape("qubitop/X1/ctl=[2,0]/id", h_qubit_op, dict(words=[((1, "X"),)], nq=3, order=2, steps=2, control=[2, 0],
                                                                time_mode="dict", use_trotterize=True, ident=True), modules=MODS))
    out.append(Shape("qubitop/X0X1+Z0/direct/o2", h_qubit_op, dict(words=[((0, "X"), (1, "X")), ((0, "Z"),)], nq=2, order=2, steps=1,
                                                                  control=None, time_mode="dict", use_trotterize=False, ident=True), modules=MODS))
    ucfg = [(o, s, k, c, m, d) for o in (1, 2) for s in (1, 2) for k in (1, 2) for c in (None, 2) for m in ("time", "repeat") for d in (True, False)]
    if tier == "quick":
        ucfg = [u for u in ucfg if u[0] == 2 and u[5]] + rnd.sample([u for u in ucfg if not (u[0] == 2 and u[5])], 6)
    for (o, s, k, c, m, d) in ucfg:
        out.append(Shape(f"unitary/X0X1+Z0/o{o}s{s}/n{k}/ctl={c}/{m}/{'default' if d else 'arg'}", h_unitary,
                         dict(words=[((0, "X"), (1, "X")), ((0, "Z"),)], nq=2 + (c is not None), order=o, steps=s, n_steps=k, control=c,
                              method=m, via_default=d), modules=MODS + ("tangelo.toolboxes.unitary_generator.trotter_suzuki",)))
    for ks in ((1, 0.5), (3, -1), (2, 1), (-1, 0.25), (0, 1)):
        for control in (None, 2):
            out.append(Shape(f"qubitop/pi-multiples/{ks}/ctl={control}", h_qubit_op,
                             dict(words=[((0, "X"), (1, "X")), ((0, "Z"),)], nq=2 + (control is not None), order=1, steps=1, control=control,
                                  time_mode="one", use_trotterize=True, ident=False, pi_multiples=ks), modules=MODS))
    out.append(Shape("qubitop/pi-multiples/steps2", h_qubit_op,
                     dict(words=[((0, "Y"),), ((0, "Z"), (1, "X"))], nq=2, order=2, steps=2, control=None, time_mode="one", use_trotterize=True,
                          ident=True, pi_multiples=(4, 2)), modules=MODS))
    for eps_, st_ in ((5e-9, 1), (2e-10, 1), (3e-9, 4), (1e-6, 2)):
        for via_ in ("direct", "trotterize", "unitary"):
            out.append(Shape(f"aux/small-terms/{via_}/eps={eps_}/steps={st_}", h_small_terms, dict(eps=eps_, steps=st_, via=via_), modules=()))
    # Hamiltonian with an idle qubit below its highest index: the state register is still 0 .. highest index
    for (c, m_) in ((None, "time"), (3, "repeat")):
        out.append(Shape(f"unitary/Z0+X2-gap/o1s1/n1/ctl={c}/{m_}", h_unitary,
                         dict(words=[((0, "Z"),), ((2, "X"),)], nq=3 + (c is not None), order=1, steps=1, n_steps=1, control=c, method=m_, via_default=True),
                         modules=MODS + ("tangelo.toolboxes.unitary_generator.trotter_suzuki",)))
    for tm_, o_, c_ in (("dict", 1, None), ("dict", 2, 2), ("scalar", 2, None)):
        out.append(Shape(f"qubitop/X0X1+Z0/pauli_order/o{o_}/ctl={c_}/{tm_}", h_qubit_op,
                         dict(words=[((0, "X"), (1, "X")), ((0, "Z"),)], nq=2 + (c_ is not None), order=o_, steps=1, control=c_, time_mode=tm_,
                              use_trotterize=False, ident=True, pauli_order=True), modules=MODS))
    out.append(Shape("canary/qubitop/sign", h_qubit_op, dict(words=[((0, "X"), (1, "X")), ((0, "Z"),)], nq=2, order=1, steps=1,
                                                            control=None, time_mode="scalar", use_trotterize=True, ident=False, canary=True),
                     modules=MODS, canary=True))
    for mapping in ("jw", "bk"):
        for (order, steps) in (((1, 1), (2, 2)) if tier == "quick" else ((1, 1), (1, 2), (2, 1), (2, 2))):
            for tm in ("scalar", "dict"):
                out.append(Shape(f"fermionop/{mapping}/o{order}s{steps}/{tm}", h_fermion_op,
                                 dict(nq=3, mapping=mapping, order=order, steps=steps, time_mode=tm),
                                 modules=MODS + ("tangelo.toolboxes.qubit_mappings.mapping_transform",)))
    for mapping in ("jw", "bk"):
        out.append(Shape(f"fermionop/{mapping}/o1s1/scalar/complex-hopping", h_fermion_op,
                         dict(nq=3, mapping=mapping, order=1, steps=1, time_mode="scalar", complex_hop=True),
                         modules=MODS + ("tangelo.toolboxes.qubit_mappings.mapping_transform",)))
    return out
