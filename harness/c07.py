"""C07  Ansatz parameter updates are equivalent to rebuilding the circuit."""
import contextlib
import itertools
import random

from symx.core import Shape
from symx import refsem as R
from symx.num import Sym, SymEscape

PROPERTY = "C07"
AG = "tangelo.toolboxes.ansatz_generator."
MODS = tuple(AG + m for m in (
    "uccsd", "upccgsd", "uccgd", "hea", "qmf", "qcc", "ilc", "vsqs", "puccd", "rucc", "adapt_ansatz",
    "variational_circuit", "ansatz_utils", "_unitary_cc_paired", "_unitary_cc_openshell", "_qubit_mf", "_qubit_cc",
    "_qubit_ilc", "_general_unitary_cc", "_hea_circuit")) + (
    "tangelo.toolboxes.qubit_mappings.mapping_transform", "tangelo.toolboxes.qubit_mappings.statevector_mapping")

SHAPE_BUDGET = dict(quick=170, thorough=1100)

META = dict(
    explanation="For each built-in ansatz class x configuration (molecule built once concretely with PySCF, encoding, "
                "ordering, k / layers / intervals ...) the REAL methods build_circuit(t0), update_var_params(t1), "
                "update_var_params(t2) are executed on SYMBOLIC parameter vectors; per shape a pattern says which components "
                "are exact zeros (concrete 0.0), which are symbolic with a fixed sign ('+' in [1e-3,7], '-' in [-7,-1e-3]) and "
                "which are symbolic of either sign ('s': |x| in [1e-3,7], the sign is a solver-explored fork). The resulting "
                "circuit is compared with the circuit of a FRESH object built at t2: first gate by gate (names, targets, "
                "controls, parameters equal as exact polynomials or modulo the gate's true period); if the gate lists differ, by "
                "the state both prepare from |0..0> (symx.refsem, reference-state preparation included) up to a global phase "
                "(decided by z3, n<=4 qubits); for wider registers a structural difference is only handed to the concrete "
                "replay (numeric refutation attempt) and is otherwise INCONCLUSIVE. Length check: for every length in "
                "0..n+2 other than n, set_var_params / build_circuit / update_var_params must raise (entries symbolic). "
                "All-zero parameters: the excitation-based ansaetze prepare the reference basis state (independent occupation "
                "oracle for JW, BK and scBK on 4 spin-orbitals; like-with-like against prepare_reference_state otherwise).",
    bounds=dict(
        quick="UCCSD (H2 sto-3g singlet 4 so/2 e; H2+ open shell; stretched-H2 UHF) x {jw,bk,scbk,jkmn} x up_then_down; UCC1, UCC3; "
              "UpCCGSD k=1,2,3 on H2 (4 qubits, state comparison) and k=3 on H4 (8 qubits, structural); UCCGD H2; pUCCD H2/H4; "
              "HEA 2-3 qubits x 1-2 layers x euler/real; VariationalCircuitAnsatz; VSQS (H2 molecule structural; rational qubit "
              "Hamiltonian 2 qubits by state) order 1,2, with/without navigator; ADAPT with 1-3 pool operators added one by "
              "one; QMF/QCC/ILC with concrete qubit Hamiltonians / generator lists; per configuration a fixed core of zero/sign "
              "patterns plus a seeded sample; |theta_i| in {0} u [1e-3, 7]",
        thorough="same configurations, all zero patterns over {0,s}^n for n<=2 and a larger seeded sample of {0,+,-,s} patterns "
                 "otherwise; UCCSD also on H4 with 2 active orbitals frozen (6 so/2 e, structural) and H4 (8 so)"),
    outside=["'mp2' / 'random' / keyword initialisers (PySCF, RNG)", "IEEE rounding",
             "parameters with 0 < |theta_i| < 1e-3 (each component ranges over {0} u [1e-3,7] in absolute value)",
             "registers wider than 4 qubits when update and rebuild give different gate lists: not decided (numeric replay only)",
             "QMF/QCC/ILC generator screening (DIS/ACS construction) runs on concrete Hamiltonians; only the parameters are symbolic",
             "which molecule: the checks use H2, H2+, H4 in sto-3g; other molecules only change the sizes"],
    stubs=["PySCF integrals of the fixed molecules are computed once in the parent process and served from a cache "
           "(harness.c07._CachedIntegrals); no Tangelo code is replaced"], trusted_base=["documented gate matrices in symx.refsem", "PySCF mean-field used to construct the molecules (only sizes / "
                            "occupations and, for VSQS/QMF/QCC, concrete Hamiltonian coefficients are read)"],
)


# ------------------------------------------------------------------ molecules (built once, shared by forked workers)
_MOL = {}
XYZ_H2 = [("H", (0., 0., 0.)), ("H", (0., 0., 0.7414))]
XYZ_H2S = [("H", (0., 0., 0.)), ("H", (0., 0., 1.6))]
XYZ_H4 = [("H", [0.7071067811865476, 0.0, 0.0]), ("H", [0.0, 0.7071067811865476, 0.0]),
          ("H", [-1.0071067811865476, 0.0, 0.0]), ("H", [0.0, -1.0071067811865476, 0.0])]


def mol(key):
    if key not in _MOL:
        from tangelo import SecondQuantizedMolecule as M
        if key == "H2":
            m = M(XYZ_H2, q=0, spin=0, basis="sto-3g")
        elif key == "H2+":
            m = M(XYZ_H2, q=1, spin=1, basis="sto-3g")
        elif key == "H2t":      # triplet: both electrons alpha
            m = M(XYZ_H2, q=0, spin=2, basis="sto-3g")
        elif key == "H2uhf":
            m = M(XYZ_H2S, q=0, spin=0, basis="sto-3g", uhf=True)
        elif key == "H4":
            m = M(XYZ_H4, q=0, spin=0, basis="sto-3g")
        elif key == "H4f":      # 3 active orbitals, 2 electrons -> 6 spin-orbitals
            m = M(XYZ_H4, q=0, spin=0, basis="sto-3g", frozen_orbitals=[0])
        elif key == "H4+":
            m = M(XYZ_H4, q=1, spin=1, basis="sto-3g")
        elif key == "H4t":      # triplet H4
            m = M(XYZ_H4, q=0, spin=2, basis="sto-3g")
        elif key == "H4dim":    # two distant H2 dimers: many Hamiltonian coefficients between 1e-8 and 1e-5
            m = M([("H", (0., 0., 0.)), ("H", (0., 0., 0.8)), ("H", (0., 0.4, 4.0)), ("H", (0., 0.5, 4.8))], q=0, spin=0, basis="sto-3g")
        elif key == "H4+q":     # quartet H4+ (three unpaired alpha electrons)
            m = M(XYZ_H4, q=1, spin=3, basis="sto-3g")
        else:
            raise KeyError(key)
        m.solver = _CachedIntegrals(m.solver, m)
        _MOL[key] = m
    return _MOL[key]


class _CachedIntegrals:
    """the molecule's PySCF integral solver, with the (parameter-independent) integrals computed ONCE in the parent
    process: PySCF's OpenMP kernels must not be entered in forked workers"""

    def __init__(self, solver, molecule):
        self._solver = solver
        self._cached = solver.get_integrals(molecule, None)

    def get_integrals(self, molecule, mo_coeff=None):
        import copy
        if mo_coeff is None:
            return copy.deepcopy(self._cached)
        return self._solver.get_integrals(molecule, mo_coeff)

    def __getattr__(self, k):
        return getattr(self._solver, k)


def preload():
    import tangelo.toolboxes.ansatz_generator  # noqa
    import tangelo.toolboxes.ansatz_generator.adapt_ansatz  # noqa
    import tangelo.toolboxes.ansatz_generator.rucc  # noqa
    # (molecules are built lazily in the process that needs them: workers come from a fork server and do not inherit them)


_POOL = {}
POOL_SIZE = 4          # generalised singles + doubles on 4 spin-orbitals (checked in _pool)


def _pool(mapping, utd, n_so=4):
    """ADAPT operator pool exactly as ADAPTSolver prepares it (generalised singles/doubles, coefficients +-1)"""
    key = (mapping, utd) if n_so == 4 else (mapping, utd, n_so)
    if key not in _POOL:
        import math
        from tangelo.toolboxes.ansatz_generator._general_unitary_cc import uccgsd_generator
        from tangelo.toolboxes.qubit_mappings.mapping_transform import fermion_to_qubit_mapping
        ops = [fermion_to_qubit_mapping(f, mapping, n_spinorbitals=n_so, n_electrons=2, up_then_down=utd, spin=0)
               for f in uccgsd_generator(n_qubits=n_so)]
        for op in ops:
            for t, c in op.terms.items():
                op.terms[t] = math.copysign(1., c.imag)
        _POOL[key] = [op for op in ops if op.terms]
        assert len(_POOL[key]) >= POOL_SIZE, len(_POOL[key])
    return _POOL[key]


def _qop(terms):
    from tangelo.toolboxes.operators import QubitOperator
    op = QubitOperator()
    for w, c in terms:
        op += QubitOperator(w, c)
    return op


# toy Hamiltonians with integer coefficients (with time = intervals, i.e. dt = 1, every rotation angle is a small
# integer multiple of the parameter: exact and cheap for the solver)
# (positive: a negative concrete coefficient makes the real code compute the float 4*pi+2c, which has no exact lifting)
H_FINAL2 = [("Z0", 1.), ("Z1", 1.), ("X0 X1", 2.), ("Z0 Z1", 1.)]
H_INIT2 = [("Z0", 1.), ("Z1", 2.)]
H_NAV2 = [("Y0 Y1", 1.), ("X0", 1.)]
H_QCC4 = [("Z0", 0.5), ("Z1", 0.5), ("Z2", -0.25), ("Z3", -0.25), ("Z0 Z2", 0.125), ("X0 X1 Y2 Y3", 0.0625),
          ("Y0 X1 X2 Y3", -0.0625), ("X0 Y1", 0.03125), ("X2 Y3", 0.03125), ("Y0 Y1 X2 X3", 0.0625)]


def make(kind, cfg):
    """a FRESH ansatz object of the given configuration"""
    c = dict(cfg)
    if kind == "uccsd":
        from tangelo.toolboxes.ansatz_generator.uccsd import UCCSD
        return UCCSD(mol(c["mol"]), mapping=c["mapping"], up_then_down=c["utd"])
    if kind == "upccgsd":
        from tangelo.toolboxes.ansatz_generator.upccgsd import UpCCGSD
        return UpCCGSD(mol(c["mol"]), mapping=c["mapping"], up_then_down=c["utd"], k=c["k"])
    if kind == "uccgd":
        from tangelo.toolboxes.ansatz_generator.uccgd import UCCGD
        return UCCGD(mol(c["mol"]), mapping=c["mapping"], up_then_down=c["utd"])
    if kind == "rucc":
        from tangelo.toolboxes.ansatz_generator.rucc import RUCC
        return RUCC(c["n"])
    if kind == "puccd":
        from tangelo.toolboxes.ansatz_generator.puccd import pUCCD
        return pUCCD(mol(c["mol"]))
    if kind == "hea":
        from tangelo.toolboxes.ansatz_generator.hea import HEA
        if c.get("mol"):
            return HEA(molecule=mol(c["mol"]), mapping=c["mapping"], up_then_down=c["utd"], n_layers=c["layers"], rot_type=c["rot"])
        return HEA(n_qubits=c["nq"], n_electrons=c.get("ne"), n_layers=c["layers"], rot_type=c["rot"],
                   reference_state=c.get("ref", "HF"), spin=0)
    if kind == "varcirc":
        from tangelo.toolboxes.ansatz_generator.variational_circuit import VariationalCircuitAnsatz
        from tangelo.linq import Circuit, Gate
        gs = [Gate("H", 0), Gate("RX", 0, parameter=0.25, is_variational=True), Gate("CNOT", 1, control=0),
              Gate("CRZ", 1, control=0, parameter=1.0, is_variational=True), Gate("RY", 2, parameter=0.5),
              Gate("PHASE", 2, parameter=0.125, is_variational=True), Gate("CPHASE", 0, control=2, parameter=-0.5, is_variational=True),
              Gate("XX", [1, 2], parameter=0.75, is_variational=True), Gate("CRY", 2, control=1, parameter=2.0, is_variational=True)]
        return VariationalCircuitAnsatz(Circuit(gs[:c.get("ng", len(gs))]))
    if kind == "vsqs":
        from tangelo.toolboxes.ansatz_generator.vsqs import VSQS
        if c.get("mol"):
            return VSQS(mol(c["mol"]), mapping=c["mapping"], up_then_down=c["utd"], intervals=c["intervals"], trotter_order=c["order"])
        from tangelo.linq import Circuit, Gate
        return VSQS(qubit_hamiltonian=_qop(H_FINAL2), h_init=_qop(H_INIT2), reference_state=Circuit([Gate("X", 1)], n_qubits=2),
                    h_nav=_qop(H_NAV2) if c.get("nav") else None, intervals=c["intervals"], trotter_order=c["order"],
                    time=float(c["intervals"]))
    if kind == "qmf":
        from tangelo.toolboxes.ansatz_generator.qmf import QMF
        return QMF(mol(c["mol"]), mapping=c["mapping"], up_then_down=c["utd"])
    if kind == "qcc":
        from tangelo.toolboxes.ansatz_generator.qcc import QCC
        if c.get("mol"):
            extra = {"max_qcc_gens": c["max_gens"]} if c.get("max_gens") else {}
            return QCC(mol(c["mol"]), mapping=c["mapping"], up_then_down=c["utd"], **extra)
        dis = [_qop([(w, 1.)]) for w in c["dis"]]
        return QCC({"n_spinorbitals": 4, "n_electrons": 2, "spin": 0}, mapping=c["mapping"], up_then_down=True,
                   qubit_ham=_qop(H_QCC4), dis=dis)
    if kind == "ilc":
        from tangelo.toolboxes.ansatz_generator.ilc import ILC
        if c.get("mol"):
            return ILC(mol(c["mol"]), mapping=c["mapping"], up_then_down=c["utd"])
        acs = [_qop([(w, 1.)]) for w in c["acs"]]
        return ILC({"n_spinorbitals": 4, "n_electrons": 2, "spin": 0}, mapping=c["mapping"], up_then_down=True,
                   qubit_ham=_qop(H_QCC4), acs=acs)
    raise KeyError(kind)


# ------------------------------------------------------------------ inputs
def _ranged(env, name, lo, hi, **kw):
    x = env.real(name, lo=lo, hi=hi, **kw)
    if not env.symbolic:
        env.assume(lo - 1e-12 <= x <= hi + 1e-12, "replay candidate outside the declared range")
    return x


_ODD = (3, -5, 7, 1, -3, 5, -7, 9, -1, 11, -9, 13)


def vec(env, name, patt, salt=0):
    """patt: string over 0 (exact zero), + / - (symbolic, fixed sign), s (symbolic, either sign, |x|>=1e-3),
    p (concrete non-zero odd multiple of pi/2, distinct per position: keeps large vectors within reach of the solver)"""
    import math
    out = []
    for i, ch in enumerate(patt):
        if ch == "0":
            out.append(0.0)
        elif ch == "p":
            out.append(_ODD[(i + 5 * salt) % len(_ODD)] * math.pi / 2)
        elif ch == "+":
            out.append(_ranged(env, f"{name}{i}", 1e-3, 7))
        elif ch == "-":
            out.append(_ranged(env, f"{name}{i}", -7, -1e-3))
        else:
            x = _ranged(env, f"{name}{i}", -7, 7, nonzero=True)
            env.assume(abs(x) >= 1e-3, "")
            if env.symbolic:
                from fractions import Fraction
                from symx import num
                num.ctx().info[num.ctx().by_name[f"{name}{i}"]]["absmin"] = Fraction(1, 1000)
            out.append(x)
    return out


@contextlib.contextmanager
def sym_alloc(env):
    """np.zeros(..., dtype=float) inside the shimmed modules allocate object arrays while parameters are symbolic"""
    import io
    from symx import shim
    old = shim.ALLOC_OBJECT
    shim.ALLOC_OBJECT = bool(env.symbolic)
    try:
        with contextlib.redirect_stdout(io.StringIO()):      # UCCGD prints debugging output
            yield
    finally:
        shim.ALLOC_OBJECT = old


# ------------------------------------------------------------------ comparison
PERIOD_PI = {"RX": 2, "RY": 2, "RZ": 2, "PHASE": 2, "CPHASE": 2, "CRX": 4, "CRY": 4, "CRZ": 4, "XX": 2}
# (uncontrolled rotations: R(t+2pi) = -R(t), a global phase of the whole circuit)


def _is_num(x):
    return isinstance(x, (int, float, Sym)) or (hasattr(x, "dtype") and getattr(x, "shape", None) == ())


def params_equiv(name, a, b):
    """sufficient condition: parameters identical for all inputs, or differing by a multiple of the true period"""
    if not _is_num(a) or not _is_num(b):
        return a == b if not (_is_num(a) or _is_num(b)) else False
    if not isinstance(a, Sym) and not isinstance(b, Sym):
        d = float(a) - float(b)
        if abs(d) < 1e-12:
            return True
        per = PERIOD_PI.get(name.upper())
        if per is None:
            return False
        import math
        q = d / (per * math.pi)
        return abs(q - round(q)) < 1e-12
    d = (Sym.of(a) - Sym.of(b)).p
    if d.is_zero():
        return True
    per = PERIOD_PI.get(name.upper())
    if per is None or len(d.t) != 1:
        return False
    from symx import num
    (k, vs), c = next(iter(d.t.items()))
    if k == 0 and vs == ((num.ctx().pi, 1),):
        return (c / per).denominator == 1
    return False


SELF_INVERSE = {"H", "X", "Y", "Z", "CNOT", "CX", "CY", "CZ", "SWAP", "CSWAP", "CH"}


def _is_zero_param(pa):
    if isinstance(pa, Sym):
        return pa.p.is_zero()
    return isinstance(pa, (int, float)) and pa == 0


def normalize(gates):
    """peephole normal form used by the structural (sufficient) comparison: rotations by exactly zero are dropped and
    adjacent mutually inverse gates cancel (H H, CNOT CNOT, R(a) R(-a) on the same qubits) -- identities only"""
    st = []
    for g in gates:
        nm = g.name.upper()
        if nm in PERIOD_PI and _is_zero_param(g.parameter):
            continue
        if st:
            t = st[-1]
            if (t.name.upper(), list(t.target), list(t.control or [])) == (nm, list(g.target), list(g.control or [])):
                if nm in SELF_INVERSE:
                    st.pop()
                    continue
                if nm in PERIOD_PI and _is_num(t.parameter) and _is_num(g.parameter):
                    try:
                        if _is_zero_param(Sym.of(t.parameter) + Sym.of(g.parameter)) if (isinstance(t.parameter, Sym) or isinstance(g.parameter, Sym)) \
                                else (t.parameter + g.parameter == 0):
                            st.pop()
                            continue
                    except Exception:
                        pass
        st.append(g)
    return st


def same_structure(g1, g2):
    g1, g2 = normalize(g1), normalize(g2)
    if len(g1) != len(g2):
        return False, f"{len(g1)} gates vs {len(g2)} gates"
    for i, (a, b) in enumerate(zip(g1, g2)):
        if (a.name, list(a.target), list(a.control or [])) != (b.name, list(b.target), list(b.control or [])):
            return False, f"gate {i}: {a.name}{a.target}{a.control} vs {b.name}{b.target}{b.control}"
        if a.parameter == "" and b.parameter == "":
            continue
        if not params_equiv(a.name, a.parameter, b.parameter):
            return False, f"gate {i} ({a.name}{a.target}): parameter {a.parameter!r} vs {b.parameter!r}"
    return True, ""


def states_of(c1, c2):
    n = max(c1.width, c2.width)
    return n, R.run_gates(c1._gates, n), R.run_gates(c2._gates, n)


MAX_SYM_QUBITS = 4
MAX_SYM_VARS = 4
MAX_NUM_QUBITS = 10


def _sym_vars(*circuits):
    vs = set()
    for c in circuits:
        for g in c._gates:
            if isinstance(g.parameter, Sym):
                vs |= g.parameter.p.variables()
    from symx import num
    return vs - {num.ctx().pi}


MAX_RESIDUAL_TERMS = 1500


def _numeric_differs(c1, c2, n, tries=24, need=3):
    """symbolic mode helper: evaluate both circuits with floats at random points that satisfy the current path
    condition.  True: the states differ (up to phase) at some point; False: equal at `need` points; None: no point found"""
    import math
    import random as _r
    from symx import core, num, path
    ctx = num.ctx()
    rnd = _r.Random(12345)
    pcs = list(path.PATH.pc) if path.PATH is not None else []
    ok = 0
    for _ in range(tries):
        val = {}
        for i, kind in enumerate(ctx.kind):
            if kind != "real":
                continue
            info = ctx.info[i]
            if i == ctx.pi:
                val[i] = math.pi
            elif info.get("tiny"):
                val[i] = float(info["value"])
            elif "!" in ctx.names[i]:
                return None          # fresh (defined) variables: no cheap sampling
            else:
                lo = float(info["lo"]) if info.get("lo") is not None else -2.0
                hi = float(info["hi"]) if info.get("hi") is not None else 2.0
                val[i] = rnd.uniform(lo, hi)
        try:
            if not all(core._holds(f, val, 1e-9) for f in pcs):
                continue
        except Exception:
            return None

        def conc(c):
            out = []
            for g in c._gates:
                pa = g.parameter
                if isinstance(pa, Sym):
                    pa = pa.p.evaluate(val).real
                out.append((g.name, g.target, g.control, pa if pa != "" else None))
            return out
        old = R.EXACT
        R.EXACT = False
        try:
            a, b = R.run_gates(conc(c1), n), R.run_gates(conc(c2), n)
        finally:
            R.EXACT = old
        k = max(range(len(b)), key=lambda j: abs(b[j]))
        if abs(a[k]) < 1e-9:
            return True
        ph = a[k] / b[k]
        ph /= abs(ph)
        if any(abs(x - ph * y) > 1e-7 for x, y in zip(a, b)):
            return True
        ok += 1
        if ok >= need:
            return False
    return None


def _formula_size(f):
    from symx.smt import formula_polys
    try:
        return sum(len(p.t) for p in formula_polys(f))
    except Exception:
        return 0


def _nice_angles(*circuits):
    """every rotation angle is an exact small-denominator combination of parameters, pi and 1 (radian): only then the
    trigonometric encoding of the state is within reach of the solver (arbitrary molecular floats are not)"""
    for c in circuits:
        for g in c._gates:
            pa = g.parameter
            if pa == "" or pa is None or isinstance(pa, str):
                continue
            try:
                pp = Sym.of(pa).p
            except Exception:
                return False
            for (k, vs), co in pp.t.items():
                if k != 0 or co.denominator > 64:
                    return False
    return True


def refute_by_replay(env, label, detail):
    """symbolic mode: hand the question to the concrete replay (inputs from a solver model of the path condition);
    reproduces -> violation, otherwise the obligation is reported inconclusive"""
    from symx.num import Poly
    from symx.smt import Cons
    env.check_true(Cons(Poly.const(1), "=="), label, detail)


def compare(env, c1, c2, what):
    """c1: circuit after the updates, c2: freshly built circuit"""
    n = max(c1.width, c2.width)
    lab = f"{what}: state after updates == state of the fresh circuit (up to phase)"
    if not env.symbolic:
        if n <= MAX_NUM_QUBITS:
            _, s1, s2 = states_of(c1, c2)
            env.check_vec_eq_up_to_phase(s1, s2, lab)
        return
    ok, why = same_structure(c1._gates, c2._gates)
    if ok:
        # parameters are identical polynomials (or equal modulo the period): recorded as obligations, trivial for the solver
        n1, n2 = normalize(c1._gates), normalize(c2._gates)
        pa = [g.parameter for g in n1 if isinstance(g.parameter, Sym)]
        pb = [g2.parameter for g, g2 in zip(n1, n2) if isinstance(g.parameter, Sym)]
        pb = [b if params_equal_poly(a, b) else a for a, b in zip(pa, pb)]
        env.check_vec_eq(pa, pb, f"{what}: gate list after updates == fresh gate list (parameters as polynomials; "
                                 "zero rotations and adjacent inverse pairs removed)")
        env.check_same(len(n1), len(n2), f"{what}: same number of gates")
        return
    if n <= MAX_NUM_QUBITS and _numeric_differs(c1, c2, n) is True:
        # routing only (no claim rests on it): at a sampled point of the path the two states already differ, so the
        # exact symbolic evaluation is skipped and the witness is left to the solver-model + concrete replay
        refute_by_replay(env, lab, f"gate lists differ ({why}); states differ at a sampled point of the path")
        return
    if n <= MAX_SYM_QUBITS and len(_sym_vars(c1, c2)) <= MAX_SYM_VARS and _nice_angles(c1, c2):
        _, s1, s2 = states_of(c1, c2)
        env.check_vec_eq_up_to_phase(s1, s2, lab)
        ob = env.obls[-1]
        if not ob.get("trivial") and _formula_size(ob["neg"]) > MAX_RESIDUAL_TERMS:
            # the exact residual is NOT identically zero and too large for the solver's trigonometric encoding:
            # the states differ for generic inputs; leave the witness to the numeric replay
            env.obls.pop()
            env.checked -= 1
            refute_by_replay(env, lab, f"gate lists differ ({why}); non-zero residual of {_formula_size(ob['neg'])} monomials, numeric replay only")
        return
    refute_by_replay(env, lab, f"gate lists differ on {n} qubits ({why}); beyond the symbolic state comparison, numeric replay only")


def params_equal_poly(a, b):
    try:
        return (Sym.of(a) - Sym.of(b)).p.is_zero()
    except Exception:
        return False


# ------------------------------------------------------------------ harness functions
def guarded(env, label, fn):
    """run a call of the real code; an exception of the real code is a finding with a stable label"""
    from symx import path
    try:
        fn()
        return True
    except (SymEscape, path.Infeasible, path.PathBudget):
        raise
    except Exception as e:
        if type(e).__name__ == "_Timeout":
            raise
        env.fail(f"{label} raised {type(e).__name__}", str(e)[:200])
        return False


def _zdesc(patt):
    return "all-zero vector" if set(patt) == {"0"} else ("vector with exact zeros" if "0" in patt else "non-zero vector")


def h_update(env, kind, cfg, patts, canary=False):
    A = make(kind, cfg)
    n = A.n_var_params
    assert all(len(p) == n for p in patts), (kind, cfg, n, patts)
    th = [vec(env, f"t{j}_", p, salt=j) for j, p in enumerate(patts)]
    with sym_alloc(env):
        final = list(th[-1])
        if canary:
            # wrong spec: "the circuit equals a fresh circuit built at a sign-flipped vector"
            final = [-x for x in final]
        Fr = make(kind, cfg)
        if not guarded(env, f"{kind}: build_circuit of a fresh ansatz at {_zdesc(patts[-1])}", lambda: Fr.build_circuit(final)):
            return
        if not guarded(env, f"{kind}: build_circuit at {_zdesc(patts[0])}", lambda: A.build_circuit(list(th[0]))):
            return
        for j, t in enumerate(th[1:]):
            if not guarded(env, f"{kind}: update_var_params #{j + 1} ({_zdesc(patts[j])} -> {_zdesc(patts[j + 1])})",
                           lambda: A.update_var_params(list(t))):
                return
    env.check_same(A.n_var_params, Fr.n_var_params, f"{kind}: n_var_params unchanged by updates")
    compare(env, A.circuit, Fr.circuit, f"{kind}")


def h_adapt(env, mapping, utd, picks, patts, rebuild=False, canary=False):
    """ADAPT: operators are added one by one (add_operator), each followed by update_var_params with a vector of the
    new length; finally compared with a fresh ansatz constructed with the full operator list"""
    import copy
    from tangelo.toolboxes.ansatz_generator.adapt_ansatz import ADAPTAnsatz
    pool = _pool(mapping, utd)
    opts = {"mapping": mapping, "up_then_down": utd}
    A = ADAPTAnsatz(4, 2, 0, dict(opts))
    with sym_alloc(env):
        A.build_circuit()
        last = None
        for step, (pk, patt) in enumerate(zip(picks, patts)):
            A.add_operator(copy.deepcopy(pool[pk]))
            env.check_same(A.n_var_params, step + 1, "adapt: n_var_params == number of operators added")
            last = vec(env, f"t{step}_", patt)
            A.update_var_params(list(last))
        if rebuild:
            A.build_circuit(list(last))
        final = list(last)
        if canary:
            final = [-x for x in final]
        Fr = ADAPTAnsatz(4, 2, 0, dict(opts, operators=[copy.deepcopy(pool[pk]) for pk in picks]))
        Fr.build_circuit(final)
    env.check_same(A.n_var_params, Fr.n_var_params, "adapt: n_var_params equals that of the fresh ansatz")
    compare(env, A.circuit, Fr.circuit, "adapt")


def h_uccgd_special(env, cfg):
    """ENUMERATED concrete shape: UCCGD parameter vectors with exact ratios (p2 = -2 p0, p2 = -4 p0, ...) at which partial sums
    of the generator cancel while it is accumulated, so that the term dictionary of the freshly computed generator is ordered
    differently although its support is the same. After update_var_params the i-th variational gate must carry the angle of the
    i-th Pauli word OF THE ORDER THE CIRCUIT WAS BUILT WITH (the words stay where they are; only the angles are written)."""
    import math
    from symx import shim
    bad = []
    with shim.concrete_mode():
        A = make("uccgd", cfg)
        n = A.n_var_params
        t0 = [0.7, 0.2, 0.4, -0.3, 0.55, 0.15][:n]
        A.build_circuit(list(t0))
        order = [t for t, _ in A.pauli_order]
        specials = [[0.5, 0.3, -1.0], [0.5, 0.3, -2.0], [0.25, -0.5, 0.5], [1.0, 1.0, -2.0], [0.3, 0.3, 0.3], [-0.5, 0.25, 1.0]]
        for t1 in specials:
            t1 = (t1 + [0.1 * (k + 1) for k in range(n)])[:n]
            A.update_var_params(list(t1))
            if [t for t, _ in A.pauli_order] != order:
                order = [t for t, _ in A.pauli_order]          # the support changed: the circuit was rebuilt, new order
            q = dict(A._get_qubit_operator().terms)
            if set(q) != set(order):
                bad.append((t1, "support of the generator differs from the words of the circuit"))
                continue
            for i, w in enumerate(order):
                c = float(complex(q[w]).real)
                want = 2 * c if c >= 0 else 4 * math.pi + 2 * c
                got = float(A.circuit._variational_gates[i].parameter)
                if abs(got - want) > 1e-12:
                    bad.append((t1, i, w, got, want))
                    break
    env.check_true(not bad, "uccgd: after update_var_params gate i carries the angle of the i-th word of the circuit's own term order", detail=str(bad[:3]))


def h_length(env, kind, cfg):
    """vectors of any length other than n_var_params are rejected by every entry point"""
    def fresh_built():
        A = make_any(kind, cfg)
        n = A.n_var_params
        with sym_alloc(env):
            A.build_circuit([env.real(f"b{i}", lo=0.25, hi=1) for i in range(n)])
        return A
    A0 = make_any(kind, cfg)
    n = A0.n_var_params
    env.check_true(n >= 1, f"{kind}: at least one parameter")
    for L in (range(0, n + 3) if n <= 12 else (0, 1, n // 2, n - 1, n, n + 1, n + 2)):
        v = [env.real(f"x{L}_{i}", lo=0.25, hi=1) for i in range(L)]
        if L == n:
            A = fresh_built()
            env.check_same(A.n_var_params, n, f"{kind}: n_var_params advertised before the first build_circuit is the one in force afterwards")
            with sym_alloc(env):
                A.set_var_params(list(v))
                A.update_var_params(list(v))
            continue
        with sym_alloc(env):
            env.check_raises(lambda: make_any(kind, cfg).set_var_params(list(v)), f"{kind}: set_var_params rejects length {L} != {n}")
            env.check_raises(lambda: make_any(kind, cfg).build_circuit(list(v)), f"{kind}: build_circuit rejects length {L} != {n}")
            A = fresh_built()
            size0, width0 = A.circuit.size, A.circuit.width
            env.check_raises(lambda: A.update_var_params(list(v)),
                             f"{kind}: update_var_params rejects a vector that is too {'short' if L < n else 'long'}")
            # a REJECTED vector leaves the ansatz as it was: rebuilding from the stored parameters gives the same circuit shape
            try:
                with sym_alloc(env):
                    A.build_circuit()
                ok = (A.circuit.size, A.circuit.width, A.n_var_params) == (size0, width0, n)
                det = f"{(A.circuit.size, A.circuit.width, A.n_var_params)} vs {(size0, width0, n)}"
            except (SymEscape,):
                raise
            except Exception as e:       # noqa
                ok, det = False, f"{type(e).__name__}: {e}"[:200]
            env.check_true(ok, f"{kind}: build_circuit() after a rejected update_var_params (length {L}) rebuilds the same circuit shape", detail=det)


def make_any(kind, cfg):
    if kind == "adapt":
        import copy
        from tangelo.toolboxes.ansatz_generator.adapt_ansatz import ADAPTAnsatz
        pool = _pool(cfg["mapping"], cfg["utd"])
        return ADAPTAnsatz(4, 2, 0, dict({"mapping": cfg["mapping"], "up_then_down": cfg["utd"],
                                          "operators": [copy.deepcopy(pool[pk]) for pk in cfg["picks"]]},
                                         **({"reference_state": cfg["ref"]} if cfg.get("ref") else {})))
    return make(kind, cfg)


# ---- reference occupations (independent of Tangelo)
def _bk_matrix(n):
    """Bravyi-Kitaev encoder for n a power of two: beta_1 = [1]; beta_2x = [[beta_x, 0], [A, beta_x]], A = last row all ones"""
    m = [[1]]
    while len(m) < n:
        x = len(m)
        new = [[0] * (2 * x) for _ in range(2 * x)]
        for i in range(x):
            for j in range(x):
                new[i][j] = m[i][j]
                new[x + i][x + j] = m[i][j]
        for j in range(x):
            new[2 * x - 1][j] = 1
        m = new
    return m


def reference_bits(n_so, n_alpha, n_beta, mapping, utd):
    """qubit bit pattern of the mean-field determinant (alpha/beta lowest orbitals filled)"""
    occ = [0] * n_so            # interleaved: spin-orbital 2p = alpha p, 2p+1 = beta p
    for p in range(n_alpha):
        occ[2 * p] = 1
    for p in range(n_beta):
        occ[2 * p + 1] = 1
    m = mapping.lower()
    if utd or m == "scbk":
        occ = occ[::2] + occ[1::2]
    if m == "jw":
        return occ
    if n_so & (n_so - 1):
        return None
    B = _bk_matrix(n_so)
    enc = [sum(B[i][j] * occ[j] for j in range(n_so)) % 2 for i in range(n_so)]
    if m == "bk":
        return enc
    if m == "scbk":
        return [b for i, b in enumerate(enc) if i not in (n_so // 2 - 1, n_so - 1)]
    return None


def h_zero(env, kind, cfg, occ, canary=False):
    """all-zero parameters prepare exactly the reference state (excitation-based ansaetze); also after a symbolic
    build followed by an update to the zero vector"""
    A = make_any(kind, cfg)
    n = A.n_var_params
    zeros = [0.0] * n
    B = make_any(kind, cfg)
    with sym_alloc(env):
        if not guarded(env, f"{kind}: build_circuit at the all-zero vector", lambda: A.build_circuit(list(zeros))):
            return
        B.build_circuit(vec(env, "t0_", ("+-" * n)[:n]))
        if not guarded(env, f"{kind}: update_var_params to the all-zero vector", lambda: B.update_var_params(list(zeros))):
            return
    ref = A.prepare_reference_state()
    nq = max(A.circuit.width, ref.width, B.circuit.width)
    if nq > (MAX_NUM_QUBITS if not env.symbolic else 8):
        raise SymEscape(f"{nq} qubits")
    st = R.run_gates(A.circuit._gates, nq)
    st_b = R.run_gates(B.circuit._gates, nq)
    env.check_vec_eq_up_to_phase(st, R.run_gates(ref._gates, nq), f"{kind}: zero parameters give the state of prepare_reference_state()")
    env.check_vec_eq_up_to_phase(st_b, st, f"{kind}: update to the zero vector gives the same state as building at zero")
    if occ is not None:
        bits = list(occ)
        if canary:
            bits[0] ^= 1
        env.check_same(len(bits), nq, f"{kind}: register width equals the number of reference bits")
        idx = int("".join(str(b) for b in bits), 2)
        env.check_vec_eq_up_to_phase(st, R.basis_state(nq, idx), f"{kind}: zero parameters give the reference determinant |{''.join(map(str, bits))}>")


# ------------------------------------------------------------------ shapes
def patterns(n, tier, rnd, n_extra):
    """list of (t0, t1, t2) zero/sign patterns for vectors of length n"""
    def full_pm():
        return "".join(rnd.choice("+-") for _ in range(n))

    def s_limited(k=2):
        idx = set(rnd.sample(range(n), min(k, n)))
        return "".join("s" if i in idx else rnd.choice("+-") for i in range(n))
    out = []
    # core: (1) pure update path, final signs solver-forked on up to 3 components
    out.append((full_pm(), full_pm(), s_limited()))
    if n >= 1:
        z1 = "0" + full_pm()[1:]
        zl = full_pm()[:-1] + "0"
        # (2) support shrinks then grows again (rebuild twice); (3) starts sparse; (4) from all-zero; (5) ends at a sparse vector
        out.append((full_pm(), z1, s_limited(2)))
        out.append((zl, full_pm(), "0" + s_limited(2)[1:] if n > 1 else "s"))
        out.append(("0" * n, full_pm(), s_limited(2)))
        out.append((full_pm(), zl if n > 1 else full_pm(), z1.replace("+", "s", 1).replace("-", "s", 1) if n > 1 else "0"))
    if n >= 2:
        # (6)/(7) the zero SUPPORT stays the same across the three vectors (pure update path on a circuit built at a sparse
        # vector): alternating support, and first-half-zero support
        def on(support, symbolic=0):
            idx = [i for i in range(n) if support[i]]
            sy = set(idx[-symbolic:]) if symbolic else set()
            return "".join("0" if not support[i] else ("s" if i in sy else rnd.choice("+-")) for i in range(n))
        for support in ([i % 2 == 1 for i in range(n)], [i >= n // 2 for i in range(n)], [i < (n + 1) // 2 for i in range(n)]):
            out.append((on(support), on(support), on(support, 2)))
    if tier == "thorough" and n <= 2:
        alph = ["".join(p) for p in itertools.product("0s", repeat=n)]
        for t in itertools.product(alph, repeat=3):
            t = tuple(x.replace("s", rnd.choice("+-")) if j < 2 else x for j, x in enumerate(t))
            out.append(t)
    for _ in range(n_extra):
        t = []
        for j in range(3):
            pz = rnd.choice([0.0, 0.25, 0.5])
            s = "".join("0" if rnd.random() < pz else rnd.choice("+-") for _ in range(n))
            t.append(s)
        if t[2].count("0") < n:
            k = rnd.choice([i for i, ch in enumerate(t[2]) if ch != "0"])
            t[2] = t[2][:k] + "s" + t[2][k + 1:]
        out.append(tuple(t))
    seen, res = set(), []
    for t in out:
        if t not in seen:
            seen.add(t)
            res.append(t)
    return res


_NP = {}
_NP_LOADED = [False]


def _np_file():
    import hashlib
    import os
    import tempfile
    from symx import core
    tag = hashlib.sha1(core.REPO.encode()).hexdigest()[:10]
    return os.path.join(tempfile.gettempdir(), f"verif_c07_nparams_{os.getuid()}_{tag}.json")


def _nparams(kind, cfg):
    """n_var_params of a configuration (needed to lay out the zero/sign patterns).  The parent process computes the table
    from the real classes and leaves it in a temp file; worker processes (started by a fork server, so they do not
    inherit the parent's objects) read it instead of constructing every ansatz and molecule again"""
    import json
    import multiprocessing
    import os
    key = kind + "|" + _cname(cfg)
    parent = multiprocessing.current_process().name == "MainProcess"
    if not parent and not _NP_LOADED[0]:
        _NP_LOADED[0] = True
        try:
            _NP.update(json.load(open(_np_file())))
        except Exception:
            pass
    if key not in _NP:
        _NP[key] = make_any(kind, cfg).n_var_params
        if parent:
            try:
                tmp = _np_file() + f".{os.getpid()}"
                json.dump(_NP, open(tmp, "w"))
                os.replace(tmp, _np_file())
            except Exception:
                pass
    return _NP[key]


def _cname(cfg):
    return ",".join(f"{k}={v}" for k, v in cfg.items() if k not in ("dis", "acs", "picks")) + \
        ("," + "+".join(w.replace(" ", "") for w in cfg.get("dis", cfg.get("acs", []))) if ("dis" in cfg or "acs" in cfg) else "")


def configs(tier):
    """(kind, cfg, n_extra_patterns_quick, n_extra_patterns_thorough, zero_check_occupation or None/False)"""
    out = []
    T = tier == "thorough"
    for mp in ("jw", "bk", "scbk", "jkmn"):
        for utd in (False, True):
            occ = reference_bits(4, 1, 1, mp, utd)
            out.append(("uccsd", dict(mol="H2", mapping=mp, utd=utd), 1, 6, occ if occ else "ref"))
    out.append(("uccsd", dict(mol="H2+", mapping="jw", utd=False), 1, 4, reference_bits(4, 1, 0, "jw", False)))
    out.append(("uccsd", dict(mol="H2+", mapping="bk", utd=True), 0, 4, reference_bits(4, 1, 0, "bk", True)))
    out.append(("uccsd", dict(mol="H2uhf", mapping="jw", utd=False), 1, 4, reference_bits(4, 1, 1, "jw", False)))
    out.append(("uccsd", dict(mol="H2uhf", mapping="scbk", utd=True), 0, 4, reference_bits(4, 1, 1, "scbk", True)))
    if T:
        out.append(("uccsd", dict(mol="H4f", mapping="jw", utd=False), 0, 3, reference_bits(6, 1, 1, "jw", False)))
        out.append(("uccsd", dict(mol="H4f", mapping="bk", utd=True), 0, 2, "ref"))
        out.append(("uccsd", dict(mol="H4", mapping="jw", utd=True), 0, 1, reference_bits(8, 2, 2, "jw", True)))
    for n in (1, 3):
        out.append(("rucc", dict(n=n), 1, 8, [1, 0, 1, 0]))
    for k in (1, 2, 3):
        for mp, utd in (("jw", False), ("bk", True), ("scbk", True), ("jw", True)):
            if not T and (k, mp, utd) not in ((1, "jw", False), (1, "bk", True), (2, "jw", False), (2, "scbk", True),
                                              (3, "jw", False), (3, "bk", True), (3, "jw", True)):
                continue
            occ = reference_bits(4, 1, 1, mp, utd)
            out.append(("upccgsd", dict(mol="H2", mapping=mp, utd=utd, k=k), 1, 4, occ))
    out.append(("upccgsd", dict(mol="H4", mapping="jw", utd=False, k=3), 0, 2, reference_bits(8, 2, 2, "jw", False)))
    if T:
        out.append(("upccgsd", dict(mol="H4", mapping="bk", utd=True, k=2), 0, 1, reference_bits(8, 2, 2, "bk", True)))
        out.append(("upccgsd", dict(mol="H2", mapping="jw", utd=False, k=4), 0, 2, reference_bits(4, 1, 1, "jw", False)))
    for mp, utd in (("jw", False), ("bk", False), ("scbk", True), ("jw", True)):
        out.append(("uccgd", dict(mol="H2", mapping=mp, utd=utd), 1, 4, reference_bits(4, 1, 1, mp, utd)))
    for mp, utd in (("jw", False), ("bk", True)):       # high-spin reference (n_alpha = 2, n_beta = 0)
        out.append(("uccgd", dict(mol="H2t", mapping=mp, utd=utd), 0, 1, reference_bits(4, 2, 0, mp, utd)))
    out.append(("puccd", dict(mol="H2"), 1, 4, [1, 0]))
    out.append(("puccd", dict(mol="H4"), 2, 8, [1, 1, 0, 0]))
    out.append(("puccd", dict(mol="H4f"), 1, 4, [1, 0, 0]))      # frozen core: 3 active orbitals, ONE active pair (the molecule holds two)
    for nq, layers, rot in ((2, 1, "euler"), (2, 2, "real"), (3, 1, "real"), (3, 2, "euler"), (3, 1, "euler"), (2, 2, "euler")):
        if not T and (nq, layers, rot) in ((3, 1, "euler"), (2, 2, "euler")):
            continue
        out.append(("hea", dict(nq=nq, ne=2 if nq > 2 else 1, layers=layers, rot=rot), 0, 2, False))
    out.append(("hea", dict(nq=2, layers=1, rot="real", ref="zero"), 0, 1, False))
    out.append(("hea", dict(mol="H2", mapping="scbk", utd=True, layers=1, rot="real"), 0, 1, False))
    if T:
        out.append(("hea", dict(mol="H2", mapping="jw", utd=False, layers=1, rot="real"), 0, 1, False))
        out.append(("hea", dict(nq=4, ne=2, layers=1, rot="real"), 0, 1, False))
    out.append(("varcirc", dict(ng=9), 1, 6, False))
    out.append(("varcirc", dict(ng=4), 0, 3, False))
    for order in (1, 2):
        for nav in (False, True):
            out.append(("vsqs", dict(intervals=2, order=order, nav=nav), 1, 4, False))
    out.append(("vsqs", dict(intervals=3, order=1, nav=False), 1, 3, False))
    out.append(("vsqs", dict(intervals=3, order=2, nav=True), 0, 3, False))
    out.append(("vsqs", dict(mol="H2", mapping="jw", utd=False, intervals=2, order=1), 0, 2, False))
    out.append(("vsqs", dict(mol="H2", mapping="scbk", utd=True, intervals=3, order=2), 0, 2, False))
    for mp, utd in (("jw", False), ("bk", True), ("scbk", True)):
        out.append(("qmf", dict(mol="H2", mapping=mp, utd=utd), 0, 2, False))
    out.append(("qcc", dict(mol="H2", mapping="jw", utd=True), 0, 2, False))
    out.append(("qcc", dict(mol="H2", mapping="scbk", utd=True), 0, 2, False))
    out.append(("qcc", dict(mol="H2", mapping="jw", utd=True, max_gens=3), 0, 1, False))       # more generators allowed than DIS groups exist
    out.append(("qcc", dict(mapping="jw", dis=["Y0 X1 X2 X3", "Y0 X1", "Y2 X3"]), 2, 8, False))
    out.append(("qcc", dict(mapping="jw", dis=["X0 Y1 X2 X3", "Y2 X3"]), 1, 6, False))
    out.append(("ilc", dict(mol="H2", mapping="jw", utd=True), 0, 2, False))
    out.append(("ilc", dict(mapping="jw", acs=["Y0 X1 X2 X3", "Y0 Z1 Z2", "X0 Z1 Y2"]), 1, 6, False))
    out.append(("ilc", dict(mapping="jw", acs=["Y0 X1", "Z0 Y2 X3"]), 1, 4, False))
    return out


# the leading 2*n_qubits entries of QCC / ILC vectors are QMF angles that the classes store but never use for the circuit;
# they are exercised with every pattern like the others.

def shapes(tier, seed):
    rnd = random.Random(seed * 7919 + 7)
    out = []
    T = tier == "thorough"
    first_canary = {}
    for kind, cfg, nq_extra, nt_extra, occ in configs(tier):
        n = _nparams(kind, cfg)
        cn = _cname(cfg)
        r = random.Random(f"{seed}/{kind}/{cn}/{tier}")
        pats = patterns(n, tier, r, 3 * nt_extra if T else nq_extra)
        if not T:
            pats = pats[:8 + nq_extra]
        for t in pats:
            out.append(Shape(f"update/{kind}/{cn}/{t[0]}>{t[1]}>{t[2]}", h_update, dict(kind=kind, cfg=cfg, patts=t),
                             modules=MODS, max_paths=64, group=f"update/{kind}"))
        if kind == "upccgsd" and cfg["k"] >= 3 and cfg["mol"] == "H2":
            # pure update path with <= 3 symbolic components: the solver itself decides the state comparison
            per = n // cfg["k"]
            for t in (("p" * n, "p" * n, "p" * per + ("s" + "p" * (per - 1)) * 2 + "p" * (n - 3 * per)),
                      ("p" * n, "+" + "p" * (n - 1), "p" * (n - 2) + "s-")):
                out.append(Shape(f"update/{kind}/{cn}/{t[0]}>{t[1]}>{t[2]}", h_update, dict(kind=kind, cfg=cfg, patts=t),
                                 modules=MODS, max_paths=64, group=f"update/{kind}"))
        out.append(Shape(f"length/{kind}/{cn}", h_length, dict(kind=kind, cfg=cfg), modules=MODS, group=f"length/{kind}"))
        if occ is not False and occ is not None:
            out.append(Shape(f"zero/{kind}/{cn}", h_zero, dict(kind=kind, cfg=cfg, occ=None if occ == "ref" else occ),
                             modules=MODS, max_paths=600, group=f"zero/{kind}"))
        if kind not in first_canary:
            first_canary[kind] = (cfg, n, occ)
    # ADAPT (its reference_state option is read case-insensitively): zero parameters give the Hartree-Fock determinant |1100> (JW)
    for sp_ in ("HF", "hf", "Hf"):
        out.append(Shape(f"zero/adapt/jw/picks=0,2/reference_state={sp_}", h_zero,
                         dict(kind="adapt", cfg=dict(mapping="jw", utd=False, picks=(0, 2), ref=sp_), occ=[1, 1, 0, 0]), modules=MODS, max_paths=600, group="zero/adapt"))
    for mp_, utd_ in (("jw", False), ("bk", True), ("scbk", True)):
        out.append(Shape(f"update/uccgd-special-ratios/H2/{mp_}/utd={int(utd_)}", h_uccgd_special, dict(cfg=dict(mol="H2", mapping=mp_, utd=utd_)), modules=(),
                         group="update/uccgd"))
    # ADAPT: operators added one by one
    pool_n = POOL_SIZE
    adapt_cfgs = [("jw", False, (0, 2)), ("jw", False, (pool_n - 1, 1, 3)), ("bk", True, (2, pool_n - 2)), ("scbk", True, (1,))]
    if T:
        adapt_cfgs += [("jw", True, (3, 0, pool_n - 1)), ("bk", False, (0, 1, 2)), ("jw", False, tuple(range(min(pool_n, 4))))]
    for mp, utd, picks in adapt_cfgs:
        picks = tuple(p % POOL_SIZE for p in picks)
        r = random.Random(f"{seed}/adapt/{mp}/{utd}/{picks}")
        variants = [tuple("".join(r.choice("+-") if i < j else "s" for i in range(j + 1)) for j in range(len(picks)))]
        variants.append(tuple("".join(r.choice("+-0") for i in range(j + 1)) if j + 1 < len(picks) else "s" * (j + 1) for j in range(len(picks))))
        if len(picks) > 1:
            variants.append(tuple("0" * (j + 1) if j + 1 < len(picks) else "0" + "s" * j for j in range(len(picks))))
        for vi, patts in enumerate(dict.fromkeys(variants)):
            for rebuild in ((False, True) if vi == 0 else (False,)):
                nm = f"update/adapt/{mp},utd={utd},ops={'-'.join(map(str, picks))}/{'>'.join(patts)}" + ("/rebuild" if rebuild else "")
                out.append(Shape(nm, h_adapt, dict(mapping=mp, utd=utd, picks=picks, patts=patts, rebuild=rebuild), modules=MODS,
                                 max_paths=64, group="update/adapt"))
        out.append(Shape(f"length/adapt/{mp},utd={utd},ops={'-'.join(map(str, picks))}", h_length,
                         dict(kind="adapt", cfg=dict(mapping=mp, utd=utd, picks=picks)), modules=MODS, group="length/adapt"))
    # canary twins: wrong spec (sign-flipped final vector / flipped occupation bit) must be refuted and replayed
    for kind, (cfg, n, occ) in first_canary.items():
        t = ("+" * n, "-" * n, "+" * n)
        if kind == "uccgd":
            # one symbolic component, the others concrete: keeps the refutation cheap for the solver
            t = ("p" * n, "p" * n, "+" + "p" * (n - 1))
        if kind in ("qcc", "ilc"):
            # the leading QMF angles do not reach the circuit: flip a generator amplitude instead
            t = ("+" * n, "-" * n, "0" * (n - 1) + "+")
        out.append(Shape(f"canary/update/{kind}", h_update, dict(kind=kind, cfg=cfg, patts=t, canary=True), modules=MODS,
                         canary=True, group="canary"))
        if occ not in (False, None, "ref"):
            out.append(Shape(f"canary/zero/{kind}", h_zero, dict(kind=kind, cfg=cfg, occ=occ, canary=True), modules=MODS,
                             canary=True, max_paths=600, group="canary"))
    out.append(Shape("canary/update/adapt", h_adapt, dict(mapping="jw", utd=False, picks=(0, 2), patts=("+", "+-"), canary=True),
                     modules=MODS, canary=True, group="canary"))
    return out
