"""C14  Qubit-reduction techniques keep the eigenvalue they are meant to keep."""
import itertools
import random

import numpy as np

from symx.core import Shape
from symx import refsem as R, shim, fock, path
from symx.num import Sym
from symx.smt import Cons
from harness.c03 import sym_integrals, build_fermion_op
from harness.c04 import alloc

PROPERTY = "C14"
MODS = ("tangelo.toolboxes.operators.multiformoperator", "tangelo.toolboxes.operators.z2_tapering",
        "tangelo.toolboxes.operators.taper_qubits", "tangelo.toolboxes.operators.trim_trivial_qubits",
        "tangelo.toolboxes.qubit_mappings.mapping_transform")

META = dict(
    explanation="(1) Z2 tapering: the generic spin-free molecular Hamiltonian on 2 (thorough: 3) orbitals with SYMBOLIC "
                "integrals is mapped (JW/BK/JKMN, both orderings) and tapered by the real QubitTapering. The spectral "
                "statement is decided through an algebraic certificate checked for ALL integral values: with U the Clifford "
                "unitary the code built and Emb the embedding of the reduced register into the joint eigenspace of the "
                "single-qubit Paulis sigma_i with the sector eigenvalues, V = U Emb is an isometry (V^dag V = 1) that "
                "intertwines, H V = V H_tapered; hence every eigenvalue of the tapered operator is an eigenvalue of H. "
                "Every symmetry generator commutes with every Hamiltonian term, the sector eigenvalues are those of the "
                "encoded reference determinant of (n_electrons, spin), that determinant lies in range(V) (so the retained sector is "
                "the one the caller asked for, whatever order the code visits the generators in), and the register shrinks by the "
                "number of symmetries. PySCF molecules (closed shell, doublet, triplet): the tapered spectrum equals the spectrum of "
                "H in the reference sector (projector built from the kernel rows; numpy, 1e-8). aux/product-large: the "
                "MultiformOperator product behind U*H*U on tables of more than 2**15 / 2**16 rows (enumerated, vs openfermion). "
                "(2) trim_trivial_qubits: circuits = arbitrary entangled part with SYMBOLIC angles (x) wires that the code "
                "classifies as idle / flipped / phase-only; operator with SYMBOLIC coefficients: <op>_full == <op_trim>_trimmed. "
                "(3) frobenius_norm_compression(eps, n): diagonal operators with SYMBOLIC coefficients and SYMBOLIC eps on "
                "n = 1, 2, 3 qubits: every eigenvalue moves by at most eps on every path (which terms get dropped is "
                "explored by the solver).",
    bounds=dict(quick="tapering: 2 orbitals (4 qubits); trimming: <=4 qubits; compression: <=3 terms on n<=3",
                thorough="tapering: 3 orbitals (6 qubits) for JW; more trimming layouts"),
    outside=["that the target sector's lowest eigenvalue lies in the retained eigenspace beyond the certificate premises "
             "(generators commute with H; eigenvalues taken from the reference determinant)", "IEEE rounding",
             "trimming of rotations whose angle is only within atol of an odd multiple of pi (exact multiples are checked)",
             "non-diagonal operators in the solver-decided compression check (auxiliary numeric shapes aux/compress-nondiagonal only)", "molecular Hamiltonians from PySCF (symbolic integrals instead)"],
    stubs=[], trusted_base=["symx.refsem", "symx.fock"],
)


def preload():
    import tangelo.toolboxes.operators  # noqa


def word_from_binary(vec, n):
    """(x|z) binary vector -> list of (qubit, pauli)"""
    out = []
    for q in range(n):
        x, z = int(vec[q]), int(vec[q + n])
        if x and z:
            out.append((q, "Y"))
        elif x:
            out.append((q, "X"))
        elif z:
            out.append((q, "Z"))
    return out


def h_taper(env, n_orbs, mapping, utd, ne, spin, canary=False):
    from tangelo.toolboxes.qubit_mappings.mapping_transform import fermion_to_qubit_mapping
    from tangelo.toolboxes.operators.taper_qubits import QubitTapering
    from tangelo.toolboxes.operators.z2_tapering import get_clifford_operators
    from tangelo.toolboxes.qubit_mappings.statevector_mapping import get_vector
    n = 2 * n_orbs
    const, h, eri = sym_integrals(env, n_orbs)
    Hf = build_fermion_op(fock.molecular_hamiltonian_terms(const, h, eri, n_orbs))
    with alloc(env):
        qH = fermion_to_qubit_mapping(Hf, mapping, n_spinorbitals=n, n_electrons=ne, up_then_down=utd, spin=spin)
        tap = QubitTapering(qH, n, ne, spin, mapping, utd)
        Ht = tap.z2_tapered_op.qubitoperator
        kernel = tap.initial_op.get_kernel()
        cliffords, q_indices = get_clifford_operators(kernel)
        U = tap.z2_properties["unitary"].qubitoperator
    eig = [int(round(float(e))) for e in tap.z2_properties["eigenvalues"]]
    k = tap.z2_properties["n_symmetries"]
    q_indices = [int(q) for q in q_indices]
    env.check_true(k >= 1, "at least one Z2 symmetry found", detail=str(k))
    env.check_same(len(q_indices), k, "one tapered qubit per symmetry")
    nr = n - k
    from tangelo.toolboxes.operators import count_qubits
    env.check_true(count_qubits(Ht) <= nr, "tapered operator acts on n - k qubits")
    # generators commute with every Hamiltonian term (GF(2) symplectic product)
    taus = [word_from_binary(kernel[i], n) for i in range(k)]
    sigmas = [word_from_binary(cliffords[i].binary[0], n) for i in range(k)]
    for tau in taus:
        td = dict(tau)
        for term in qH.terms:
            anti = sum(1 for q, p in term if q in td and td[q] != p) % 2
            env.check_true(anti == 0, f"symmetry generator {tau} commutes with Hamiltonian term {term}")
    # sector eigenvalues = eigenvalues of the generators on the encoded reference determinant
    with shim.concrete_mode():
        ref = [int(b) for b in get_vector(n, ne, mapping, utd, spin)]
    for tau, e in zip(taus, eig):
        st = R.basis_state(n, int("".join(map(str, ref)), 2))
        out = R.apply_pauli_word(st, n, tau)
        env.check_vec_eq(out, [R.C(e) * a for a in st], f"generator {tau} has eigenvalue {e} on the encoded reference determinant")
    for s in sigmas:
        env.check_true(len(s) == 1, "sigma_i is a single-qubit Pauli", detail=str(s))
    # isometry V = U Emb and intertwining H V = V H_t on every basis state of the reduced register
    keep = [q for q in range(n) if q not in q_indices]
    Ut, Hq, Htt = dict(U.terms), dict(qH.terms), dict(Ht.terms)
    if canary:
        k0 = [w for w in Htt if w][0]
        Htt[k0] = Htt[k0] + 1
    rs2 = R.rsqrt2()
    cols = []
    for b in range(2 ** nr):
        bits = [(b >> (nr - 1 - j)) & 1 for j in range(nr)]
        # product state: kept qubits carry the bits, tapered qubits the eigenvector of sigma_i with eigenvalue eig_i
        amp1 = {}
        for (qw, e), qi in zip(zip(sigmas, eig), q_indices):
            p = qw[0][1]
            if p == "Z":
                amp1[qi] = (R.C(1), R.C(0)) if e == 1 else (R.C(0), R.C(1))
            elif p == "X":
                amp1[qi] = (rs2, rs2 * e)
            else:
                amp1[qi] = (rs2, rs2 * R.IMAG() * e)
        emb = []
        for idx in range(2 ** n):
            a = R.C(1)
            for q in range(n):
                bit = (idx >> (n - 1 - q)) & 1
                if q in amp1:
                    a = a * amp1[q][bit]
                else:
                    a = a * (1 if bit == bits[keep.index(q)] else 0)
            emb.append(a)
        cols.append(R.apply_qubit_operator(emb, n, Ut))        # V|b>
    for b in range(2 ** nr):
        for b2 in range(b, 2 ** nr):
            env.check_eq(R.inner(cols[b], cols[b2]), 1 if b == b2 else 0, f"V^dag V = 1 (columns {b},{b2})")
    # the retained sector is the one of the reference determinant: |ref> lies in range(V), sum_b |<V b|ref>|^2 = 1
    ridx = int("".join(map(str, ref)), 2)
    weight = R.C(0)
    for b in range(2 ** nr):
        a = cols[b][ridx]
        weight = weight + a * R.n_conj(a)
    env.check_eq(weight, 1, f"the encoded reference determinant {ref} lies in the retained subspace range(V)  [{mapping}, up_then_down={utd}, "
                            f"n_electrons={ne}, spin={spin}]")
    for b in range(2 ** nr):
        lhs = R.apply_qubit_operator(cols[b], n, Hq)
        htb = R.apply_qubit_operator(R.basis_state(nr, b), nr, Htt) if nr > 0 else [Htt.get((), R.C(0))]
        rhs = [R.C(0)] * (2 ** n)
        for b2, c in enumerate(htb):
            if R.is_zero(c):
                continue
            rhs = [x + c * y for x, y in zip(rhs, cols[b2])]
        env.check_vec_eq(lhs, rhs, f"H V|{b}> == V H_tapered|{b}>  [{mapping}, up_then_down={utd}]")


def h_taper_structure(env, molkey, mapping, utd):
    """larger registers (enumerated, concrete PySCF Hamiltonians): the structural premises of the certificate - distinct
    tapered qubits, sigma_i anticommutes with tau_i and commutes with every other tau_j, generators commute with every
    term, register shrinks by k - plus a numerical spectral inclusion (numpy eigenvalues, tolerance 1e-8)"""
    from tangelo.toolboxes.qubit_mappings.mapping_transform import fermion_to_qubit_mapping
    from tangelo.toolboxes.operators.taper_qubits import QubitTapering
    from tangelo.toolboxes.operators.z2_tapering import get_clifford_operators
    from tangelo.toolboxes.operators import count_qubits
    from harness.c07 import mol
    from openfermion import get_sparse_operator, QubitOperator as QubitOperatorOF
    with shim.concrete_mode():
        m = mol(molkey)
        n = m.n_active_sos
        qH = fermion_to_qubit_mapping(m.fermionic_hamiltonian, mapping, n_spinorbitals=n, n_electrons=m.n_active_electrons,
                                      up_then_down=utd, spin=m.active_spin)
        tap = QubitTapering(qH, n, m.n_active_electrons, m.active_spin, mapping, utd)
        Ht = tap.z2_tapered_op.qubitoperator
        kernel = tap.initial_op.get_kernel()
        cliffords, q_indices = get_clifford_operators(kernel)
        k = tap.z2_properties["n_symmetries"]
        q_indices = [int(q) for q in q_indices]
        taus = [dict(word_from_binary(kernel[i], n)) for i in range(len(kernel))]
        sigmas = [dict(word_from_binary(cliffords[i].binary[0], n)) for i in range(len(cliffords))]

        def anti(a, b):
            return sum(1 for q, p in a.items() if q in b and b[q] != p) % 2
        env.check_same(len(set(q_indices)), len(q_indices), f"tapered qubit indices are pairwise distinct ({q_indices})")
        env.check_same(len(q_indices), k, "one tapered qubit per symmetry")
        for i, s_ in enumerate(sigmas):
            env.check_true(len(s_) == 1, f"sigma_{i} is a single-qubit Pauli")
            for j, t_ in enumerate(taus[:len(sigmas)]):
                env.check_same(anti(s_, t_), 1 if i == j else 0, f"sigma_{i} {'anti' if i == j else ''}commutes with tau_{j}")
        for t_ in taus:
            env.check_true(all(anti(t_, dict(term)) == 0 for term in qH.terms), "generator commutes with every Hamiltonian term")
        env.check_true(count_qubits(Ht) <= n - k, "tapered operator acts on n - k qubits")
        ev_full = np.linalg.eigvalsh(get_sparse_operator(qH.to_qubitoperator() if hasattr(qH, "to_qubitoperator") else qH, n_qubits=n).toarray())
        ev_tap = np.linalg.eigvalsh(get_sparse_operator(Ht, n_qubits=n - k).toarray()) if n - k > 0 else np.array([Ht.terms.get((), 0.0).real])
        worst = max(min(abs(e - f) for f in ev_full) for e in ev_tap)
        env.check_true(worst < 1e-8, "every eigenvalue of the tapered operator is an eigenvalue of the original (numerical, 1e-8)", detail=str(worst))
        # the retained sector is that of the reference determinant: with the code's unitary, tapered qubits and eigenvalues,
        # |ref> lies in range(U Emb); and the lowest tapered eigenvalue is the lowest eigenvalue of H in the joint eigenspace
        # tau_i = <ref|tau_i|ref> (projector built from the kernel rows, independent of the code's ordering choices)
        from tangelo.toolboxes.qubit_mappings.statevector_mapping import get_vector
        ref = [int(b) for b in get_vector(n, m.n_active_electrons, mapping, utd, m.active_spin)]
        ridx = int("".join(map(str, ref)), 2)
        dim = 2 ** n
        P = np.eye(dim, dtype=complex)
        for t_ in taus:
            T = get_sparse_operator(QubitOperatorOF(tuple(sorted(t_.items()))), n_qubits=n).toarray()
            e_ = T[ridx, ridx].real
            P = P @ (np.eye(dim) + e_ * T) / 2.0
        Hfull = get_sparse_operator(qH.to_qubitoperator() if hasattr(qH, "to_qubitoperator") else qH, n_qubits=n).toarray()
        w_, v_ = np.linalg.eigh(P)
        B = v_[:, w_ > 0.5]
        e_sector = np.linalg.eigvalsh(B.conj().T @ Hfull @ B)
        env.check_true(abs(P[ridx, ridx] - 1.0) < 1e-9, "reference determinant is a joint eigenvector of the generators")
        env.check_true(abs(float(ev_tap.min()) - float(e_sector.min())) < 1e-8,
                       "lowest eigenvalue of the tapered operator == lowest eigenvalue of H in the symmetry sector of the reference determinant (1e-8)",
                       detail=f"tapered {float(ev_tap.min())} vs sector {float(e_sector.min())}")
        env.check_true(len(ev_tap) == len(e_sector) and float(np.abs(np.sort(ev_tap) - np.sort(e_sector)).max()) < 1e-8,
                       "spectrum of the tapered operator == spectrum of H restricted to the sector of the reference determinant (1e-8)",
                       detail=f"{len(ev_tap)} vs {len(e_sector)} eigenvalues")
        # (a) the same tapering object applied to ANOTHER operator with the same Pauli words (another geometry): the result's
        #     eigenvalues are eigenvalues of THAT operator; (b) the documented per-call `eigenvalues` argument selects the sector:
        #     over all 2^k sign patterns the tapered spectra together are exactly the spectrum of the original
        from tangelo.toolboxes.operators import QubitOperator, MultiformOperator
        other = QubitOperator()
        for i_, (t_, c_) in enumerate(sorted(qH.terms.items(), key=str)):
            other.terms[t_] = c_ * (1.0 + 0.05 * ((i_ * 7) % 11 - 5) / 5.0)
        Ht2 = tap.z2_tapering(other, n)
        ev_o = np.linalg.eigvalsh(get_sparse_operator(other, n_qubits=n).toarray())
        ev_t2 = np.linalg.eigvalsh(get_sparse_operator(Ht2, n_qubits=n - k).toarray()) if n - k > 0 else np.array([Ht2.terms.get((), 0.0).real])
        worst2 = max(min(abs(e - f) for f in ev_o) for e in ev_t2)
        env.check_true(worst2 < 1e-8, "z2_tapering(another operator with the same Pauli words): eigenvalues are eigenvalues of THAT operator (1e-8)",
                       detail=str(worst2))
        if k <= 3 and n <= 8:
            union = []
            for signs in itertools.product((1, -1), repeat=k):
                sect = tap.z2_taper(MultiformOperator.from_qubitop(qH, n), eigenvalues=list(signs)).qubitoperator
                union += list(np.linalg.eigvalsh(get_sparse_operator(sect, n_qubits=n - k).toarray()) if n - k > 0 else [sect.terms.get((), 0.0).real])
            union = np.sort(np.array(union, dtype=float))
            env.check_true(len(union) == len(ev_full) and float(np.abs(union - np.sort(ev_full)).max()) < 1e-8,
                           "z2_taper(op, eigenvalues=signs) over all sign patterns: the sector spectra together are the spectrum of the original (1e-8)",
                           detail=f"{len(union)} vs {len(ev_full)} eigenvalues")
        # the operator handed out is the user's to post-process: doing so in place must not change what the tapering object
        # returns the next time (its eigenvalues would no longer be those of the original Hamiltonian)
        snap = dict(Ht.terms)
        Ht *= 1000.
        Ht -= 1.
        again = tap.z2_tapered_op.qubitoperator
        keys = sorted(set(snap) | set(again.terms), key=str)
        dev = max([abs(complex(again.terms.get(k_, 0)) - complex(snap.get(k_, 0))) for k_ in keys] or [0.])
        env.check_true(dev < 1e-12, "z2_tapered_op.qubitoperator read again after in-place post-processing of the first result is the same operator",
                       detail=f"max coefficient change {dev}")


def h_trim(env, layout, words, canary=False):
    """layout: list of per-qubit wire descriptions; entangled part on the qubits marked 'E'"""
    from tangelo.linq import Circuit, Gate
    from tangelo.toolboxes.operators import QubitOperator
    from tangelo.toolboxes.operators.trim_trivial_qubits import trim_trivial_qubits
    n = len(layout)
    gates, k = [], 0
    eq = [q for q, w in enumerate(layout) if w == "E"]
    state_of = {}
    for q, w in enumerate(layout):
        if w == "E":
            continue
        for name in [x for x in w.split(".") if x]:
            if name in ("RZ",):
                th = env.angle(f"ph{k}")
                k += 1
                gates.append(Gate("RZ", q, parameter=th))
            elif name == "RXpi":
                gates.append(Gate("RX", q, parameter=np.pi))
            elif name == "RX3pi":
                gates.append(Gate("RX", q, parameter=-3 * np.pi))
            elif name in ("RX", "RY"):
                th = env.angle(f"ph{k}")
                k += 1
                gates.append(Gate(name, q, parameter=th))
            else:
                gates.append(Gate(name, q))
    if len(eq) >= 2:
        a, b = eq[0], eq[1]
        gates += [Gate("RY", a, parameter=env.angle("e0")), Gate("CNOT", b, a), Gate("RX", b, parameter=env.angle("e1"))]
        if len(eq) > 2:
            gates += [Gate("CRY", eq[2], b, parameter=env.angle("e2"))]
    circ = Circuit(gates, n_qubits=n)
    op = QubitOperator()
    for i, w in enumerate(words):
        op.terms[tuple(w)] = env.real(f"c{i}", lo=-2, hi=2)
    op.terms[()] = env.real("cid", lo=-2, hi=2)
    full = R.run_gates(circ._gates, n)
    e_full = R.expectation(full, n, dict(op.terms))
    top, tcirc = trim_trivial_qubits(op, circ)
    nt = tcirc.width
    if nt > 0:
        st = R.run_gates(tcirc._gates, nt)
        e_trim = R.expectation(st, nt, dict(top.terms))
    else:
        e_trim = top.terms.get((), R.C(0))
    if canary:
        e_trim = e_trim + 1
    env.check_eq(e_trim, e_full, f"<op_trim>_trimmed == <op>_full for layout {layout}")
    env.check_true(nt <= n, "trimmed circuit is not wider")


def h_compress(env, n, words, canary=False):
    from tangelo.toolboxes.operators import QubitOperator
    op = QubitOperator()
    cs = []
    for i, w in enumerate(words):
        c = env.real(f"c{i}", lo=-2, hi=2, nonzero=True)
        env.assume(abs(c) >= 1e-3, "")
        cs.append(c)
        op.terms[tuple(w)] = c
    eps = env.real("eps", lo=1e-3, hi=3)
    before = dict(op.terms)
    op.frobenius_norm_compression(eps, n)
    after = dict(op.terms)
    bound = eps if not canary else eps * 0.5
    # diagonal operators: the eigenvalue on basis state b moves by exactly the removed part's eigenvalue
    for b in range(2 ** n):
        d = R.C(0)
        for w, c in before.items():
            if w in after:
                continue
            sign = 1
            for q, p in w:
                if (b >> (n - 1 - q)) & 1:
                    sign = -sign
            d = d + sign * c
        env.check_le(d, bound, f"eigenvalue of basis state {b} moves up by at most eps")
        env.check_le(-d, bound, f"eigenvalue of basis state {b} moves down by at most eps")
    for w in after:
        env.check_true(w in before, "no new terms")
        env.check_eq(after[w], before[w], f"kept coefficient of {w} unchanged")


def h_compress_aux(env, n, n_terms, seed):
    """AUXILIARY concrete shape (numpy eigenvalues, no solver role): NON-diagonal operators. frobenius_norm_compression(eps, n)
    on seeded random Hermitian Pauli sums: every sorted eigenvalue moves by at most eps (1e-9 slack), the kept coefficients are
    unchanged and no term is added; eps is chosen so that some terms are dropped and some kept"""
    from openfermion import get_sparse_operator
    from tangelo.toolboxes.operators import QubitOperator
    rnd = random.Random(1000 * n + 17 * n_terms + seed)
    worst = 0.0
    with shim.concrete_mode():
        for trial in range(6):
            op = QubitOperator()
            while len(op.terms) < n_terms:
                w = tuple((q, rnd.choice("XYZ")) for q in range(n) if rnd.random() < 0.6)
                op.terms[w] = rnd.choice([1, -1]) * 10 ** rnd.uniform(-3, 0)
            before = dict(op.terms)
            M0 = get_sparse_operator(op, n_qubits=n).toarray()
            mags = sorted(abs(c) for c in before.values())
            # threshold between the 3rd smallest coefficient and the largest ones, in the units of the documented criterion
            eps = float(np.sqrt(sum(m * m for m in mags[:3])) * np.sqrt(2 ** n) * 1.0000001)
            op.frobenius_norm_compression(eps, n)
            after = dict(op.terms)
            M1 = get_sparse_operator(op, n_qubits=n).toarray() if after else np.zeros_like(M0)
            shift = float(np.abs(np.linalg.eigvalsh(M0) - np.linalg.eigvalsh(M1)).max())
            worst = max(worst, shift / eps)
            env.check_true(shift <= eps + 1e-9, f"non-diagonal operator ({n} qubits, {n_terms} terms, trial {trial}): every sorted eigenvalue moves by at most eps",
                           detail=f"shift {shift} > eps {eps}")
            env.check_true(all(w in before and abs(after[w] - before[w]) < 1e-15 for w in after), "kept terms are input terms with unchanged coefficients")
            env.check_true(0 < len(after) < len(before) or n_terms < 4, "the chosen eps drops some terms and keeps others", detail=f"{len(before)} -> {len(after)}")


def h_compress_complex(env, n, n_terms, seed):
    """AUXILIARY concrete shape (numpy, no solver role): operators with IMAGINARY / COMPLEX coefficients (anti-Hermitian generators,
    Hermitian + anti-Hermitian mixtures): frobenius_norm_compression(eps, n) changes the operator by at most eps in spectral norm
    (hence every eigenvalue of a normal operator by at most eps), keeps coefficients unchanged and adds no term"""
    from openfermion import get_sparse_operator
    from tangelo.toolboxes.operators import QubitOperator
    rnd = random.Random(3000 * n + 13 * n_terms + seed)
    with shim.concrete_mode():
        for kind in ("imaginary", "complex"):
            op = QubitOperator()
            while len(op.terms) < n_terms:
                w = tuple((q, rnd.choice("XYZ")) for q in range(n) if rnd.random() < 0.6)
                mag = rnd.choice([1, -1]) * 10 ** rnd.uniform(-3, 0)
                op.terms[w] = 1j * mag if kind == "imaginary" else complex(mag * rnd.uniform(-1, 1), mag)
            before = dict(op.terms)
            M0 = get_sparse_operator(op, n_qubits=n).toarray()
            mags = sorted(abs(c) for c in before.values())
            eps = float(np.sqrt(sum(m * m for m in mags[:3])) * np.sqrt(2 ** n) * 1.0000001)
            op.frobenius_norm_compression(eps, n)
            after = dict(op.terms)
            M1 = get_sparse_operator(op, n_qubits=n).toarray() if after else np.zeros_like(M0)
            dist = float(np.linalg.norm(M0 - M1, 2))
            env.check_true(dist <= eps + 1e-9, f"{kind} coefficients ({n} qubits, {n_terms} terms): ||A - A'||_2 <= eps", detail=f"{dist} > eps {eps}")
            env.check_true(all(w in before and abs(after[w] - before[w]) < 1e-15 for w in after), f"{kind} coefficients: kept terms are input terms with unchanged coefficients")
            env.check_true(0 < len(after) < len(before), f"{kind} coefficients: the chosen eps drops some terms and keeps others", detail=f"{len(before)} -> {len(after)}")


def h_product_large(env, n, n_a, n_b, seed):
    """AUXILIARY concrete shape (no solver role; the index arithmetic lives in numpy): the MultiformOperator product that the
    tapering rotation U*H*U is made of, for operand sizes whose (term, term) table has MORE than 2**15 (and, thorough, 2**16) rows:
    the product equals the openfermion product of the same two operators, coefficient by coefficient (1e-9)"""
    from tangelo.toolboxes.operators import QubitOperator, MultiformOperator
    rnd = random.Random(31 * n + n_a + 7 * n_b + seed)
    with shim.concrete_mode():
        def rand_op(k):
            op = QubitOperator()
            while len(op.terms) < k:
                w = tuple((q, p) for q in range(n) for p in [rnd.choice("IXYZ")] if p != "I")
                op.terms[w] = rnd.choice([1, -1]) * rnd.randint(1, 64) / 64.0
            return op
        a, b = rand_op(n_a), rand_op(n_b)
        ref = a * b
        got = (MultiformOperator.from_qubitop(a, n) * MultiformOperator.from_qubitop(b, n)).qubitoperator
        keys = set(k_ for k_, v in ref.terms.items() if abs(v) > 1e-12) | set(k_ for k_, v in got.terms.items() if abs(v) > 1e-12)
        dev = max([abs(complex(ref.terms.get(k_, 0)) - complex(got.terms.get(k_, 0))) for k_ in keys] or [0.0])
        env.check_true(dev < 1e-9, f"MultiformOperator product with {n_a} x {n_b} = {n_a * n_b} (term, term) rows on {n} qubits == openfermion product (1e-9)",
                       detail=f"max coefficient deviation {dev} over {len(keys)} words")


def shapes(tier, seed):
    out = []
    for (n_, na_, nb_) in ((6, 16, 2100), (5, 200, 200)) + (((6, 300, 300), (5, 1, 1000), (7, 70000 // 64, 64)) if tier == "thorough" else ()):
        out.append(Shape(f"aux/product-large/n{n_}/{na_}x{nb_}", h_product_large, dict(n=n_, n_a=na_, n_b=nb_, seed=seed), modules=()))
    taper = [(2, "jw", False, 2, 0), (2, "jw", True, 2, 0), (2, "bk", False, 2, 0), (2, "bk", True, 2, 0), (2, "jkmn", False, 2, 0), (3, "jkmn", False, 2, 0),
             (2, "jkmn", True, 2, 0)]
    if tier == "thorough":
        taper += [(2, "jw", False, 2, 2), (2, "bk", True, 1, 1), (3, "jw", False, 2, 0), (3, "jw", True, 4, 0), (3, "bk", False, 2, 0)]
    for (no, mp, utd, ne, sp) in taper:
        out.append(Shape(f"taper/o{no}/{mp}/utd={int(utd)}/e{ne}s{sp}", h_taper, dict(n_orbs=no, mapping=mp, utd=utd, ne=ne, spin=sp),
                         modules=MODS, max_paths=16))
    for mk in (("H4", "H4+", "H4t", "H4+q", "H4dim") if tier == "quick" else ("H4", "H4+", "H4t", "H4+q", "H4dim", "H2", "H2t")):
        for mp in ("jw", "bk", "jkmn"):
            for utd in ((False, True) if (mk == "H4" or tier == "thorough") else (False,)):
                out.append(Shape(f"taper_structure/{mk}/{mp}/utd={int(utd)}", h_taper_structure, dict(molkey=mk, mapping=mp, utd=utd), modules=()))
    out.append(Shape("canary/taper", h_taper, dict(n_orbs=2, mapping="jw", utd=False, ne=2, spin=0, canary=True), modules=MODS, max_paths=16, canary=True))
    layouts = [
        (["E", "E", ""], [[(0, "X"), (1, "Y")], [(2, "Z")], [(0, "Z"), (2, "Z")], [(2, "X")]]),
        (["E", "X", "E"], [[(0, "X"), (2, "Y")], [(1, "Z")], [(0, "Z"), (1, "Z")], [(1, "Y"), (2, "Z")]]),
        (["RZ", "E", "E"], [[(0, "Z"), (1, "X")], [(0, "X")], [(1, "Z"), (2, "Z")]]),
        (["RXpi", "E", "E", "Z"], [[(0, "Z"), (1, "Z")], [(3, "Z"), (2, "X")], [(0, "Y"), (3, "Z")]]),
        (["X.X", "E", "E"], [[(0, "Z")], [(0, "Z"), (2, "Y")]]),
        (["RZ.X", "E", "E"], [[(0, "Z")], [(0, "Z"), (1, "X")], [(0, "X"), (2, "Z")]]),
        (["RZ.RZ", "X.RXpi", "E", "E"], [[(0, "Z"), (1, "Z")], [(1, "Z"), (2, "X")], [(0, "Y")]]),
        (["H", "E", "E"], [[(0, "X")], [(0, "Z"), (1, "Z")]]),
        (["X.Z", "E", "E"], [[(0, "Z")], [(0, "Z"), (1, "Y")]]),
        (["RX3pi", "E", "E"], [[(0, "Z")], [(0, "Z"), (2, "Z")]]),
        (["RX", "E", "E"], [[(0, "Z")], [(0, "Y"), (2, "Z")]]),
        (["Y", "E", "E"], [[(0, "Z")], [(0, "Z"), (2, "X")]]),
        (["RY", "", "E", "E"], [[(0, "Z")], [(1, "Z"), (2, "X")]]),
    ]
    wire_gates = ["X", "Z", "RX", "RZ", "RXpi"] if tier == "quick" else ["X", "Z", "RX", "RZ", "RXpi", "Y", "RY", "H", "RX3pi"]
    for g0 in wire_gates:
        for g1 in wire_gates:
            layouts.append(([f"{g0}.{g1}", "E", "E"], [[(0, "Z")], [(0, "Z"), (1, "X")], [(0, "X"), (2, "Z")], [(0, "Y")]]))
    for i, (lay, words) in enumerate(layouts if tier == "thorough" else layouts[:11] + layouts[13:]):
        out.append(Shape(f"trim/{i}_" + "|".join(x or "idle" for x in lay), h_trim, dict(layout=lay, words=words), modules=MODS, max_paths=64,
                         policy=dict(mod_range=(-4, 4))))
    # wide registers: few kept qubits with labels >= 8 (orderings that depend on hashing of small integers show only there)
    def wide(nq, kept, extra=None):
        lay = [""] * nq
        for q in kept:
            lay[q] = "E"
        for q, g in (extra or {}).items():
            lay[q] = g
        return lay
    wides = [(wide(10, (2, 9)), [[(2, "Z")], [(9, "X"), (2, "Y")], [(9, "Z")]]),
             (wide(11, (1, 3, 10), {5: "X"}), [[(1, "Z")], [(3, "X"), (10, "Z")], [(10, "Y"), (1, "X")], [(5, "Z"), (3, "Z")]]),
             (wide(9, (1, 5, 8)), [[(8, "Z")], [(1, "X"), (5, "Y")], [(5, "Z"), (8, "X")]])]
    for i, (lay, words) in enumerate(wides[:2] if tier == "quick" else wides):
        out.append(Shape(f"trim/wide{i}_n{len(lay)}_" + "-".join(str(q) for q, w in enumerate(lay) if w), h_trim, dict(layout=lay, words=words),
                         modules=MODS, max_paths=64, policy=dict(mod_range=(-4, 4))))
    out.append(Shape("canary/trim", h_trim, dict(layout=["X", "E", "E"], words=[[(0, "Z")], [(1, "Z")]], canary=True), modules=MODS, max_paths=64, canary=True))
    comp = [(1, [[], [(0, "Z")]]), (2, [[(0, "Z")], [(1, "Z")]]), (2, [[], [(0, "Z")], [(0, "Z"), (1, "Z")]]),
            (3, [[(0, "Z")], [(1, "Z"), (2, "Z")]]), (3, [[], [(2, "Z")], [(0, "Z"), (1, "Z"), (2, "Z")]]), (1, [[(0, "Z")]]),
            (2, [[(0, "Z"), (1, "Z")]])]
    for i, (n, words) in enumerate(comp):
        out.append(Shape(f"compress/n{n}/{i}", h_compress, dict(n=n, words=words), modules=MODS, max_paths=128, policy=dict(threshold="fork")))
    for (n_, k_) in ((1, 3), (2, 6), (3, 8), (3, 12), (4, 10)) + (((5, 14), (4, 20)) if tier == "thorough" else ()):
        out.append(Shape(f"aux/compress-nondiagonal/n{n_}/k{k_}", h_compress_aux, dict(n=n_, n_terms=k_, seed=seed), modules=()))
    for (n_, k_) in ((2, 6), (3, 8), (4, 10)):
        out.append(Shape(f"aux/compress-complex/n{n_}/k{k_}", h_compress_complex, dict(n=n_, n_terms=k_, seed=seed), modules=()))
    out.append(Shape("canary/compress", h_compress, dict(n=2, words=[[(0, "Z")], [(1, "Z")]], canary=True), modules=MODS, max_paths=128,
                     canary=True, policy=dict(threshold="fork")))
    return out
