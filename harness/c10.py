"""C10  Mid-circuit measurement and classical control follow the Born rule."""
import itertools
import random

import numpy as np

from symx.core import Shape
from symx import refsem as R, shim, cirqstub, path, num
from symx.num import Sym
from symx.smt import Cons
from harness.c01 import make_backend, as_array, PARAM

PROPERTY = "C10"
MODS = ("tangelo.linq.target.backend", "tangelo.linq.target.target_cirq", "tangelo.linq.translator.translate_cirq",
        "tangelo.toolboxes.post_processing.post_selection")

META = dict(
    explanation="Circuits with MEASURE / CMEASURE gates (dictionary, function and class control, nested) with SYMBOLIC angles "
                "and a SYMBOLIC initial state are simulated through the real Backend.simulate / CirqSimulator.simulate_circuit "
                "with the exact cirq stub. For every outcome string b: returned statevector x sqrt(P_b) equals the "
                "unnormalised refsem branch state, success_probabilities[b] equals the branch probability, the final "
                "frequencies are the branch distribution, applied_gates are the gates selected by the outcomes; the "
                "probabilities of all outcome strings sum to the norm of the input; the density-matrix route hands the "
                "unconditioned distribution (sum_b p_b freq_b) to the sampler; without a desired result the random draw "
                "(np.random.random) is a SYMBOLIC uniform variable so both outcomes are explored; "
                "collapse_statevector_to_desired_measurement on a fully symbolic vector for both index orders; "
                "split_frequency_dict* on symbolic frequencies.",
    bounds=dict(quick="n<=3 qubits, 1-2 measurements, one level of nesting, all outcome strings",
                thorough="n<=3 qubits, up to 3 measurements, nesting, more placements"),
    outside=["IEEE rounding", "probability-zero branches (the code raises; division by the branch norm is assumed non-zero)",
             "shot statistics for n_shots>1 (only the per-shot draw and the distribution handed to the sampler are checked)"],
    stubs=["cirq.Simulator / DensityMatrixSimulator -> exact stubs", "cirq.sample_state_vector / sample_density_matrix -> recorder + solver-chosen draw",
           "np.random.random -> fresh symbolic real in [0,1)"],
    trusted_base=["symx.refsem projections"],
)


def preload():
    import cirq  # noqa
    from tangelo.linq import get_backend  # noqa
    cirqstub.self_check()


# ---------------------------------------------------------------- program descriptions
# op = ("g", name, targets, controls)            unitary gate, angle symbolic if parameterised
#    | ("m", qubit)                              MEASURE
#    | ("cm", qubit, {"0": [ops], "1": [ops]})   CMEASURE with dictionary control (possibly nested)
#    | ("cmf", qubit)                            CMEASURE controlled by the circuit-level function / class

class Builder:
    def __init__(self, env):
        self.env = env
        self.k = 0
        self.angles = {}

    def angle(self, key):
        if key not in self.angles:
            self.angles[key] = self.env.angle(f"th{len(self.angles)}")
        return self.angles[key]

    def gates(self, ops, prefix="r"):
        from tangelo.linq import Gate
        out = []
        for i, op in enumerate(ops):
            key = f"{prefix}.{i}"
            if op[0] == "g":
                _, name, tg, ct = op
                th = self.angle(key) if name in PARAM else ""
                out.append(Gate(name, tg, control=ct if ct else None, parameter=th))
            elif op[0] == "m":
                out.append(Gate("MEASURE", op[1]))
            elif op[0] == "cm":
                d = {b: self.gates(sub, f"{key}.{b}") for b, sub in op[2].items()}
                out.append(Gate("CMEASURE", op[1], parameter=d))
            elif op[0] == "cmf":
                out.append(Gate("CMEASURE", op[1], parameter="func"))
        return out


def run_branch(b, ops, n, state, outcomes, func_ops=None, prefix="r"):
    """oracle: unnormalised state after following `outcomes` (list consumed left to right), and the gates applied"""
    applied = []
    st = list(state)
    for i, op in enumerate(ops):
        key = f"{prefix}.{i}"
        if op[0] == "g":
            _, name, tg, ct = op
            th = b.angle(key) if name in PARAM else None
            st = R.apply_gate(st, n, name, tg, ct, th)
            applied.append((name, list(tg), list(ct) if ct else None))
        elif op[0] == "m":
            o = int(outcomes.pop(0))
            st, _ = R.project(st, n, op[1], o)
            applied.append(("MEASURE", [op[1]], None, str(o)))
        elif op[0] in ("cm", "cmf"):
            o = int(outcomes.pop(0))
            st, _ = R.project(st, n, op[1], o)
            applied.append(("CMEASURE", [op[1]], None, str(o)))
            sub = op[2][str(o)] if op[0] == "cm" else func_ops[str(o)]
            subprefix = f"{key}.{o}" if op[0] == "cm" else f"f.{o}"
            st, app2 = run_branch(b, sub, n, st, outcomes, func_ops, subprefix)
            applied += app2
    return st, applied


def n_meas_on_path(ops, outcomes, func_ops=None):
    """number of outcome characters consumed along the branch selected by `outcomes`"""
    outcomes = list(outcomes)
    cnt = 0

    def walk(ops):
        nonlocal cnt
        for op in ops:
            if op[0] == "m":
                outcomes.pop(0)
                cnt += 1
            elif op[0] in ("cm", "cmf"):
                o = outcomes.pop(0)
                cnt += 1
                walk(op[2][o] if op[0] == "cm" else func_ops[o])
    walk(ops)
    return cnt


def norm2(st):
    s = R.C(0)
    for a in st:
        s = s + a * R.n_conj(a)
    return s


def _sqrt(env, x):
    if env.symbolic:
        return Sym.of(x).sqrt()
    return complex(x).real ** 0.5


def h_desired(env, ops, n, outcome, init, func_ops=None, control_kind=None, canary=False):
    """exact simulation conditioned on an outcome string"""
    from tangelo.linq import Circuit, Gate
    from tangelo.linq.circuit import ClassicalControl
    B = Builder(env)
    gates = B.gates(ops)
    cm = None
    if func_ops is not None:
        fg = {b: B.gates(sub, f"f.{b}") for b, sub in func_ops.items()}
        if control_kind == "class":
            class Ctl(ClassicalControl):
                def __init__(self):
                    self.seen = []
                    self.finalized = 0

                def return_gates(self, measurement):
                    self.seen.append(measurement)
                    return fg[measurement]

                def finalize(self):
                    self.finalized += 1
            cm = Ctl()
        else:
            cm = lambda m: fg[m]  # noqa
    circ = Circuit(gates, n_qubits=n, cmeasure_control=cm)
    b = make_backend(env)
    psi = env.state(n, "psi") if init else R.basis_state(n, 0)
    arr0 = as_array(env, psi) if init else None
    kw = dict(initial_statevector=arr0) if init else {}
    phi, applied = run_branch(B, ops, n, psi, list(outcome), func_ops)
    pb = norm2(phi)
    if (isinstance(pb, Sym) and pb.p.is_zero()) or (not isinstance(pb, Sym) and abs(complex(pb)) < 1e-28):
        # a branch of probability exactly zero cannot be conditioned on: the code is documented to raise
        env.check_raises(lambda: b.simulate(circ, return_statevector=True, desired_meas_result=outcome, **kw),
                         f"conditioning on the impossible outcome string {outcome} is refused")
        return
    n_sims = 1
    if init and not canary and any(op[0] in ("cm", "cmf") for op in ops):
        # the same circuit object simulated before from ANOTHER initial state for the same outcome string: what is recorded
        # afterwards must belong to the latest run
        chi = [R.C(1) / 2 * (1 if i % 3 else -1) for i in range(2 ** n)] if n == 2 else None
        if chi is not None:
            try:
                b.simulate(circ, return_statevector=True, desired_meas_result=outcome, initial_statevector=as_array(env, chi))
                n_sims = 2
            except ValueError:
                pass
            if control_kind == "class":
                n_sims = cm.finalized + 1       # whatever the first run did, the run under test adds exactly one finalize()
                del cm.seen[:]
    freqs, sv = b.simulate(circ, return_statevector=True, desired_meas_result=outcome, **kw)
    if init:
        # the initial statevector is the caller's array (e.g. reused for the next outcome string): it is not projected in place
        env.check_vec_eq([arr0[i] for i in range(2 ** n)], list(psi), "the caller's initial_statevector array is unchanged by simulate(desired_meas_result=...)")
    if canary:
        phi = [phi[0]] + [-x for x in phi[1:]]
    P = circ.success_probabilities
    env.check_true(outcome in P, f"success_probabilities has key {outcome}", detail=str(list(P)))
    if outcome not in P:
        return
    env.check_eq(P[outcome], pb, f"success_probabilities[{outcome}] == branch probability")
    r = _sqrt(env, P[outcome])
    env.check_vec_eq([x * r for x in list(sv)], phi, f"statevector * sqrt(P) == unnormalised branch state for outcome {outcome}")
    # final frequencies: branch distribution (times P = |unnormalised amplitude|^2)
    seen = set()
    for idx, a in enumerate(phi):
        key = R.bitstring(idx, n)
        p = a * R.n_conj(a)
        if key in freqs:
            seen.add(key)
            env.check_eq(freqs[key] * P[outcome], p, f"frequency[{key}] * P == |branch amplitude|^2")
        elif env.symbolic:
            env.check_eq(0, p, f"missing key {key} has zero probability")
    env.check_true(not (set(freqs) - seen), "no unexpected final keys", detail=str(set(freqs) - seen))
    if not any(op[0] in ("cm", "cmf") for op in ops):
        mid = b.mid_circuit_meas_freqs
        env.check_same(sorted(mid), [outcome], "mid-circuit frequencies carry exactly the requested outcome string")
    if control_kind == "class":
        # the classical-control object is told that the run is over exactly once (stateful controllers reset there), and was
        # consulted once per CMEASURE of the selected branch, with the requested outcomes in order
        env.check_same(cm.finalized, n_sims, "ClassicalControl.finalize() is called once per exact simulation")
        n_cm = sum(1 for a in applied if a[0] == "CMEASURE")
        env.check_true(len(cm.seen) >= 1 and len(cm.seen) <= n_cm, "ClassicalControl.return_gates() consulted once per function-controlled CMEASURE",
                       detail=f"{cm.seen} for {n_cm} CMEASURE gates")
    # gates applied in this run are exactly those selected by the outcomes (CMEASURE circuits only)
    if any(op[0] in ("cm", "cmf") for op in ops):
        got = [(g.name, g.target, g.control) + ((g.parameter,) if g.name in ("MEASURE", "CMEASURE") else ()) for g in circ.applied_gates]
        want = [tuple(a) for a in applied]
        env.check_same(got, want, "applied_gates are the gates selected by the outcomes")
        # the simulation-free helper must list the same gates for the same outcome string
        from tangelo.linq.circuit import generate_applied_gates
        gen = generate_applied_gates(circ, desired_meas_result=outcome)
        got2 = [(g.name, g.target, g.control) + ((g.parameter,) if g.name in ("MEASURE", "CMEASURE") else ()) for g in gen]
        env.check_same(got2, want, "generate_applied_gates lists the gates selected by the outcomes")


def h_total(env, ops, n, func_ops=None):
    """probabilities of all outcome strings sum to the norm of the input state (=1 for normalised input)"""
    from tangelo.linq import Circuit
    B = Builder(env)
    gates = B.gates(ops)
    cm = None
    if func_ops is not None:
        fg = {b: B.gates(sub, f"f.{b}") for b, sub in func_ops.items()}
        cm = lambda m: fg[m]  # noqa
    psi = env.state(n, "psi")
    tot = R.C(0)
    maxlen = 3
    strings = set()
    for L in range(1, maxlen + 1):
        for bits in itertools.product("01", repeat=L):
            s = "".join(bits)
            try:
                if n_meas_on_path(ops, s, func_ops) == L:
                    strings.add(s)
            except IndexError:
                pass
    for s in sorted(strings):
        circ = Circuit(gates, n_qubits=n, cmeasure_control=cm)
        b = make_backend(env)
        b.simulate(circ, return_statevector=True, desired_meas_result=s, initial_statevector=as_array(env, psi))
        tot = tot + circ.success_probabilities[s]
    env.check_eq(tot, norm2(psi), f"sum over outcome strings {sorted(strings)} of success probabilities == <psi|psi>")


def h_random(env, ops, n, func_ops=None, shots=1):
    """no desired result: one shot with a uniform draw u_k per measurement supplied by the harness (SYMBOLIC in symbolic
    mode); the recorded outcome string, the statevector and the applied gates must be those of the branch the draws
    selected, and outcome 1 is taken exactly when P(0) < u (Born rule)"""
    from tangelo.linq import Circuit
    import tangelo.linq.target.backend as bk
    import numpy as real_np
    B = Builder(env)
    gates = B.gates(ops)
    cm = None
    if func_ops is not None:
        fg = {b: B.gates(sub, f"f.{b}") for b, sub in func_ops.items()}
        cm = lambda m: fg[m]  # noqa
    circ = Circuit(gates, n_qubits=n, cmeasure_control=cm)
    psi = R.basis_state(n, 0)
    b = make_backend(env, n_shots=shots)
    us = []

    def fake_random(*a):
        u = env.real(f"u{len(us)}", lo=0, hi=1)
        us.append(u)
        return u

    if env.symbolic:
        class Rnd:
            random = staticmethod(fake_random)

        class NpR:
            def __getattr__(self_inner, k):
                return getattr(bk.__dict__["_verif_np"], k)
            random = Rnd()
        bk.__dict__["_verif_np"] = bk.__dict__["np"]
        bk.__dict__["np"] = NpR()
        try:
            freqs, sv = b.simulate(circ, return_statevector=(shots == 1))
        finally:
            bk.__dict__["np"] = bk.__dict__.pop("_verif_np")
    else:
        orig = real_np.random.random
        real_np.random.random = fake_random
        try:
            freqs, sv = b.simulate(circ, return_statevector=(shots == 1))
        finally:
            real_np.random.random = orig
    outs = list(circ.success_probabilities)
    if shots > 1:
        # several shots: every recorded outcome string carries the Born probability of ITS branch (not an accumulation over
        # shots), the empirical frequencies are multiples of 1/shots and sum to 1
        env.check_true(1 <= len(outs) <= shots, "at most one outcome string per shot", detail=str(outs))
        for s in outs:
            phi, _ = run_branch(B, ops, n, psi, list(s), func_ops)
            env.check_eq(circ.success_probabilities[s], norm2(phi), f"{shots} shots: recorded probability of outcome string {s} == branch probability")
        tot = 0
        for k, v in freqs.items():
            tot = tot + v
            env.check_true(abs(v * shots - round(v * shots)) < 1e-9, "frequencies are multiples of 1/n_shots")
        env.check_true(abs(tot - 1) < 1e-9, "frequencies sum to 1")
        # applied_gates describes ONE run (the latest): it is the gate list selected by one of the recorded outcome strings
        got = [(g.name, g.target, g.control) + ((g.parameter,) if g.name in ("MEASURE", "CMEASURE") else ()) for g in circ.applied_gates]
        cands_ = []
        for s in outs:
            _, applied = run_branch(B, ops, n, psi, list(s), func_ops)
            cands_.append([tuple(a) for a in applied])
        env.check_true(got in cands_, f"{shots} shots: applied_gates is the gate list of one recorded outcome string (the latest run)",
                       detail=f"{len(got)} gates; candidates have {[len(c_) for c_ in cands_]}")
        return
    env.check_true(len(outs) == 1, "one shot records one outcome string", detail=str(outs))
    s = outs[0]
    env.check_true(len(us) == len(s), "one uniform draw per measurement performed", detail=f"{len(us)} draws for outcome string {s}")
    phi, applied = run_branch(B, ops, n, psi, list(s), func_ops)
    P = circ.success_probabilities[s]
    env.check_eq(P, norm2(phi), f"recorded probability of the drawn string {s}")
    r = _sqrt(env, P)
    env.check_vec_eq([x * r for x in list(sv)], phi, f"statevector of the drawn branch {s}")
    got = [(g.name, g.target, g.control) + ((g.parameter,) if g.name in ("MEASURE", "CMEASURE") else ()) for g in circ.applied_gates]
    env.check_same(got, [tuple(a) for a in applied], "applied_gates of the drawn branch")
    # Born rule for the first draw: outcome "1" iff P(first = 0) < u0
    if us:
        st0, _ = run_branch(B, ops[:_first_meas(ops)], n, psi, [], func_ops)
        q = ops[_first_meas(ops)][1]
        _, p0 = R.project(st0, n, q, 0)
        if env.symbolic:
            if s[0] == "1":
                env.check_true((Sym.of(p0) < us[0]), "first outcome 1 only if P(0) < u")
            else:
                env.check_true((Sym.of(p0) >= us[0]), "first outcome 0 only if P(0) >= u")
        else:
            want = "1" if complex(p0).real < us[0] else "0"
            if abs(complex(p0).real - us[0]) > 1e-9:
                env.check_same(s[0], want, "first outcome follows the Born rule for the supplied draw u0")


def h_oneshot_saved(env, ops, n):
    """MEASURE-only circuit, n_shots=1, save_mid_circuit_meas + return_statevector, no desired result (the single-run branch of
    the cirq target): whatever outcome the run produced, the string reported in mid_circuit_meas_freqs lists the outcomes in
    the order of the MEASURE gates of the circuit, and the returned statevector is the normalised branch state of that string"""
    from tangelo.linq import Circuit
    B = Builder(env)
    circ = Circuit(B.gates(ops), n_qubits=n)
    psi = R.basis_state(n, 0)
    b = make_backend(env, n_shots=1)
    freqs, sv = b.simulate(circ, return_statevector=True, save_mid_circuit_meas=True)
    mid = dict(b.mid_circuit_meas_freqs)
    nm = sum(1 for op in ops if op[0] == "m")
    env.check_true(len(mid) == 1 and len(list(mid)[0]) == nm, "one shot: one mid-circuit outcome string with one character per MEASURE", detail=str(mid))
    s = list(mid)[0]
    phi, _ = run_branch(B, ops, n, psi, list(s))
    pb = norm2(phi)
    env.check_true(not ((isinstance(pb, Sym) and pb.p.is_zero()) or (not isinstance(pb, Sym) and abs(complex(pb)) < 1e-28)),
                   f"the reported outcome string {s} has non-zero probability")
    r = _sqrt(env, pb)
    env.check_vec_eq([x * r for x in list(sv)], phi, f"returned statevector == normalised branch state of the reported string {s} (outcomes in gate order)")


def h_allshots(env, ops, n, shots, init_index):
    """MEASURE-only circuit, finite n_shots, save_mid_circuit_meas, no statevector requested (all shots are run at once), with or
    without an initial (basis) statevector: every recorded sample - mid-circuit outcomes followed by the final bits - has
    non-zero Born probability for the evolution FROM THE SUPPLIED initial state, and the frequencies are multiples of 1/n_shots"""
    from tangelo.linq import Circuit
    B = Builder(env)
    circ = Circuit(B.gates(ops), n_qubits=n)
    psi = R.basis_state(n, init_index or 0)
    b = make_backend(env, n_shots=shots)
    kw = {}
    if init_index is not None:
        kw["initial_statevector"] = as_array(env, psi)
    freqs, _ = b.simulate(circ, save_mid_circuit_meas=True, **kw)
    allf = dict(b.all_frequencies)
    nm = sum(1 for op in ops if op[0] == "m")
    tot = 0
    for key, v in allf.items():
        tot = tot + v
        env.check_true(len(key) == nm + n, "sample = one character per MEASURE followed by the register", detail=key)
        env.check_true(abs(v * shots - round(v * shots)) < 1e-9, "frequencies are multiples of 1/n_shots")
        phi, _ = run_branch(B, ops, n, psi, list(key[:nm]))
        amp = phi[int(key[nm:], 2)]
        p = amp * R.n_conj(amp)
        zero = (isinstance(p, Sym) and p.p.is_zero()) or (not isinstance(p, Sym) and abs(complex(p)) < 1e-24)
        env.check_true(not zero, f"recorded sample {key[:nm]}|{key[nm:]} is possible from the initial state {'|' + R.bitstring(init_index, n) + '>' if init_index is not None else '|0..0>'}",
                       detail=f"Born probability {p}")
    env.check_true(abs(tot - 1) < 1e-9, "frequencies sum to 1")
    mid = dict(b.mid_circuit_meas_freqs)
    env.check_same(sorted(mid), sorted({k[:nm] for k in allf}), "mid-circuit frequencies carry the measured strings")
    env.check_same(sorted(freqs), sorted({k[nm:] for k in allf}), "returned frequencies carry the final bits")


def h_desired_shots(env, ops, n, outcome, shots, init_index):
    """finite n_shots TOGETHER with desired_meas_result (the shot-by-shot loop that repeats until the requested outcomes occur), from an
    initial basis state for which the requested outcomes are CERTAIN (and impossible from |0..0>): the call returns, the returned
    statevector is the branch state of the evolution from THAT state, and the recorded outcome string is the requested one"""
    from tangelo.linq import Circuit
    B = Builder(env)
    circ = Circuit(B.gates(ops), n_qubits=n)
    psi = R.basis_state(n, init_index)
    b = make_backend(env, n_shots=shots)
    phi, _ = run_branch(B, ops, n, psi, list(outcome))
    env.check_eq(norm2(phi), 1, "harness premise: the requested outcomes are certain from the initial state")
    freqs, sv = b.simulate(circ, desired_meas_result=outcome, return_statevector=True, initial_statevector=as_array(env, psi))
    env.check_vec_eq(list(sv), phi, f"n_shots={shots} with desired_meas_result={outcome} from |{R.bitstring(init_index, n)}>: statevector == branch state")
    check = {R.bitstring(i, n): a * R.n_conj(a) for i, a in enumerate(phi)}
    if shots == 1:
        env.check_true(len(freqs) == 1 and not R.is_zero(check[list(freqs)[0]]), "the single recorded sample is possible in the branch state", detail=str(freqs))


def _first_meas(ops):
    for i, op in enumerate(ops):
        if op[0] != "g":
            return i
    return None


def h_dm(env, ops, n, init=False):
    """MEASURE gates, shots requested, outcomes not saved: density-matrix route; the distribution handed to the sampler is
    the unconditioned one: sum over outcome strings of |unnormalised branch amplitudes|^2"""
    from tangelo.linq import Circuit
    B = Builder(env)
    gates = B.gates(ops)
    circ = Circuit(gates, n_qubits=n)
    psi = env.state(n, "psi", normalized=True) if init else R.basis_state(n, 0)
    kw = dict(initial_statevector=as_array(env, psi)) if init else {}
    nm = sum(1 for op in ops if op[0] == "m")
    if env.symbolic:
        b = make_backend(env, n_shots=1)
        freqs, _ = b.simulate(circ, **kw)
        calls = b.cirq.sampler_calls
        env.check_true(len(calls) == 1 and calls[0]["kind"] == "density_matrix", "density-matrix sampler used once")
        probs = calls[0]["probs"]
        want = [R.C(0) for _ in range(2 ** n)]
        for bits in itertools.product("01", repeat=nm):
            phi, _ = run_branch(B, ops, n, psi, list(bits))
            for i, a in enumerate(phi):
                want[i] = want[i] + a * R.n_conj(a)
        env.check_vec_eq(probs, want, "diagonal of the final density matrix == unconditioned outcome distribution")
        env.check_true(len(freqs) == 1 and len(list(freqs)[0]) == n, "one shot -> one key of register width")
    else:
        b = make_backend(env, n_shots=(40000 if init else 100))
        freqs, _ = b.simulate(circ, **kw)
        env.check_true(abs(sum(freqs.values()) - 1) < 1e-9, "frequencies sum to 1")
        if init:
            # replay only: 40000-shot histogram within 5 sigma of the unconditioned distribution from the supplied state
            want = [0.0] * 2 ** n
            for bits in itertools.product("01", repeat=nm):
                phi, _ = run_branch(B, ops, n, psi, list(bits))
                for i, a in enumerate(phi):
                    want[i] += abs(complex(a)) ** 2
            for i, p in enumerate(want):
                env.check_le(abs(freqs.get(R.bitstring(i, n), 0.) - p), 0.015, "diagonal of the final density matrix == unconditioned outcome distribution")


def h_collapse(env, n, qubit, result, order):
    from tangelo.linq.target.backend import collapse_statevector_to_desired_measurement
    psi = env.state(n, "psi")
    sv, p = collapse_statevector_to_desired_measurement(as_array(env, psi), qubit, result, order)
    # order lsq_first: qubit 0 is the most significant index bit; msq_first: least significant
    q = qubit if order == "lsq_first" else n - 1 - qubit
    proj, pb = R.project(psi, n, q, result)
    env.check_eq(p, pb, "returned probability")
    r = _sqrt(env, p)
    env.check_vec_eq([x * r for x in list(sv)], proj, f"collapsed vector * sqrt(p) == projection (qubit {qubit}, {order})")


def h_collapse_method(env, n, qubit, result, order, via):
    """the Backend METHODS (collapse_statevector_to_desired_measurement / perform_measurement) must use the order the
    backend advertises; checked on a minimal Backend subclass advertising either order"""
    from tangelo.linq.target.backend import Backend

    class B(Backend):
        def simulate_circuit(self, *a, **k):
            raise NotImplementedError

        @staticmethod
        def backend_info():
            return {"statevector_available": True, "statevector_order": order, "noisy_simulation": False}
    b = B()
    psi = env.state(n, "psi")
    if via == "collapse":
        sv, p = b.collapse_statevector_to_desired_measurement(as_array(env, psi), qubit, result)
    else:
        out, sv, p = b.perform_measurement(as_array(env, psi), qubit, str(result))
        env.check_same(out, str(result), "perform_measurement returns the requested outcome")
    q = qubit if order == "lsq_first" else n - 1 - qubit
    proj, pb = R.project(psi, n, q, result)
    env.check_eq(p, pb, f"Backend.{via}: probability for qubit {qubit} on a backend advertising {order}")
    r = _sqrt(env, p)
    env.check_vec_eq([x * r for x in list(sv)], proj, f"Backend.{via}: collapsed vector * sqrt(p) == projection (qubit {qubit}, {order})")


def h_split(env, n_meas, n_q, keys, desired):
    from tangelo.toolboxes.post_processing.post_selection import split_frequency_dict, split_frequency_dict_for_last_n_digits
    freqs = {k: env.real(f"f{k}", lo=0, hi=1) for k in keys}
    if env.symbolic:
        tot_ = Sym.of(0)
        for f in freqs.values():
            tot_ = tot_ + f
        env.assume(Cons((tot_ - 1).p, "=="), "frequencies are normalised")
    else:
        t_ = sum(freqs.values()) or 1.0
        freqs = {k: f / t_ for k, f in freqs.items()}
    if desired is None:
        mid, fin = split_frequency_dict(freqs, list(range(n_meas)))
        wm, wf = {}, {}
        for k, f in freqs.items():
            wm[k[:n_meas]] = wm.get(k[:n_meas], 0) + f
            wf[k[n_meas:]] = wf.get(k[n_meas:], 0) + f
        env.check_same(sorted(mid), sorted(wm), "mid keys")
        env.check_same(sorted(fin), sorted(wf), "final keys")
        for k in wm:
            if k in mid:
                env.check_eq(mid[k], wm[k], f"marginal of mid-circuit outcomes {k}")
        for k in wf:
            if k in fin:
                env.check_eq(fin[k], wf[k], f"marginal of final outcomes {k}")
        mid2, fin2 = split_frequency_dict_for_last_n_digits(freqs, n_q)
        env.check_same(sorted(mid2), sorted(wm), "last-n split: mid keys")
        for k in wf:
            if k in fin2:
                env.check_eq(fin2[k], wf[k], f"last-n split: final marginal {k}")
        for k in wm:
            if k in mid2:
                env.check_eq(mid2[k], wm[k], f"last-n split: mid marginal {k}")
    else:
        mid, fin = split_frequency_dict(freqs, list(range(n_meas)), desired_measurement=desired)
        tot = R.C(0)
        sel = {}
        for k, f in freqs.items():
            if k[:n_meas] == desired:
                sel[k[n_meas:]] = sel.get(k[n_meas:], 0) + f
                tot = tot + f
        for k, f in sel.items():
            if k in fin:
                env.check_eq(fin[k] * tot, f, f"conditional frequency of {k} given {desired} (times the marginal)")
        env.check_same(sorted(fin), sorted(sel), "post-selected keys")


RY0 = ("g", "RY", [0], [])
SHAPES1 = {
    "m0": ([RY0, ("g", "CNOT", [1], [0]), ("m", 0), ("g", "RX", [1], [])], 2, None),
    "m1-m0": ([("g", "RY", [0], []), ("g", "RX", [1], []), ("m", 1), ("g", "CRY", [1], [0]), ("m", 0), ("g", "H", [1], [])], 2, None),
    "3q": ([("g", "H", [0], []), ("g", "CNOT", [1], [0]), ("g", "RY", [2], []), ("m", 1), ("g", "CRZ", [0], [2]), ("g", "H", [0], [])], 3, None),
    "mm-adjacent": ([RY0, ("g", "RX", [1], []), ("g", "CNOT", [1], [0]), ("m", 0), ("m", 1), ("g", "H", [0], [])], 2, None),
    "m-first": ([("m", 1), ("g", "RY", [0], []), ("g", "CNOT", [1], [0]), ("m", 0)], 2, None),
    "cm-dict": ([RY0, ("cm", 0, {"0": [("g", "X", [1], [])], "1": [("g", "RX", [1], [])]}), ("g", "H", [0], [])], 2, None),
    "cm-nested": ([RY0, ("g", "RX", [1], []),
                   ("cm", 0, {"0": [("g", "H", [1], []), ("cm", 1, {"0": [], "1": [("g", "X", [0], [])]})], "1": [("g", "RY", [1], [])]}),
                   ("g", "CNOT", [1], [0])], 2, None),
    "cm-nested-tail": ([RY0, ("g", "RX", [1], []),
                        ("cm", 0, {"0": [("g", "H", [2], [])],
                                   "1": [("g", "X", [1], []), ("cm", 1, {"0": [], "1": [("g", "X", [2], [])]}), ("g", "RY", [2], [])]}),
                        ("g", "H", [0], []), ("m", 2), ("g", "RX", [1], [])], 3, None),
    "cm-func": ([RY0, ("g", "H", [1], []), ("cmf", 0), ("g", "RZ", [1], [])], 2,
                {"0": [("g", "RX", [1], [])], "1": [("g", "X", [0], []), ("cmf_stop",)]}),
}
# the function-controlled example must not recurse: replace the marker
# gates selected by a CMEASURE are followed DIRECTLY by the next measurement (no gate of the enclosing circuit in between)
SHAPES1["cm-then-m"] = ([RY0, ("g", "RX", [1], []), ("cm", 0, {"0": [("g", "X", [1], [])], "1": [("g", "RY", [1], [])]}), ("m", 1)], 2, None)
SHAPES1["cm-then-cm"] = ([RY0, ("cm", 0, {"0": [("g", "RX", [1], [])], "1": [("g", "H", [1], [])]}),
                          ("cm", 1, {"0": [], "1": [("g", "X", [0], [])]}), ("g", "H", [0], [])], 2, None)
# the LATER measurement acts on a shallower qubit (simulators that schedule by depth execute it first)
SHAPES1["m-depth"] = ([RY0, ("g", "H", [0], []), ("g", "RZ", [0], []), ("g", "RX", [1], []), ("m", 0), ("m", 1)], 2, None)
SHAPES1["cm-func"] = (SHAPES1["cm-func"][0], 2, {"0": [("g", "RX", [1], [])], "1": [("g", "X", [0], [])]})


def outcome_strings(ops, func_ops):
    out = set()
    for L in range(1, 4):
        for bits in itertools.product("01", repeat=L):
            s = "".join(bits)
            try:
                if n_meas_on_path(ops, s, func_ops) == L:
                    out.add(s)
            except IndexError:
                pass
    return sorted(out)


def shapes(tier, seed):
    out = []
    for nm, (ops, n, fops) in SHAPES1.items():
        for s in outcome_strings(ops, fops):
            kinds = [None] if fops is None else ["func", "class"]
            for kind in kinds:
                for init in ((False, True) if tier == "thorough" or nm in ("m0", "cm-dict", "mm-adjacent", "m-first", "m-depth") else (False,)):
                    out.append(Shape(f"desired/{nm}/{s}/{kind or 'plain'}/init={int(init)}", h_desired,
                                     dict(ops=ops, n=n, outcome=s, init=init, func_ops=fops, control_kind=kind), modules=MODS))
        if nm != "cm-nested-tail" or tier == "thorough":      # the sum over all nested outcome strings needs more than the quick shape budget
            out.append(Shape(f"total/{nm}", h_total, dict(ops=ops, n=n, func_ops=fops), modules=MODS))
        if nm in ("m0", "m-depth", "m-first", "mm-adjacent"):
            for shots in (1, 2):
                for ii in (None, 0, 2 ** n - 1, 1):
                    out.append(Shape(f"allshots/{nm}/shots{shots}/init={ii}", h_allshots, dict(ops=ops, n=n, shots=shots, init_index=ii),
                                     modules=MODS, max_paths=256))
        if not any(op[0] in ("cm", "cmf") for op in ops):
            out.append(Shape(f"oneshot-saved/{nm}", h_oneshot_saved, dict(ops=ops, n=n), modules=MODS, max_paths=64))
        if any(op[0] in ("cm", "cmf") for op in ops):
            out.append(Shape(f"random/{nm}", h_random, dict(ops=ops, n=n, func_ops=fops), modules=MODS, max_paths=64))
            if nm in ("cm-dict", "cm-func") or tier == "thorough":
                out.append(Shape(f"random/{nm}/shots2", h_random, dict(ops=ops, n=n, func_ops=fops, shots=2), modules=MODS, max_paths=128))
    # registers + recorded measurements beyond 10 values per shot (the order of the recorded values must be numeric, not textual);
    # basis-state permutations only, so exactly one sample is possible
    wide_ops = [("g", "X", [1], []), ("g", "X", [4], []), ("g", "CNOT", [9], [4]), ("m", 4), ("g", "X", [4], []), ("g", "CNOT", [7], [1]), ("m", 9),
                ("g", "X", [0], [])]
    for (n_, ii) in ((10, None), (10, 5), (9, None)) + (((11, 1027),) if tier == "thorough" else ()):
        wo = [op for op in wide_ops if n_ > 9 or 9 not in (list(op[2]) + list(op[3]) if op[0] == "g" else [op[1]])]
        out.append(Shape(f"allshots/wide{n_}/shots2/init={ii}", h_allshots, dict(ops=wo, n=n_, shots=2, init_index=ii), modules=MODS, max_paths=64))
    ds_ops = {"m-then-rot": ([("m", 0), ("g", "RX", [1], []), ("g", "CRY", [1], [0])], 2, "1", 2),
              "x-m-m": ([("g", "X", [1], []), ("m", 1), ("g", "RY", [0], []), ("m", 2), ("g", "CNOT", [0], [2])], 3, "01", 3),
              "cm": ([("cm", 1, {"0": [("g", "X", [0], [])], "1": [("g", "RX", [0], [])]}), ("g", "H", [1], [])], 2, "1", 1)}
    for nm_, (ops_, n_, oc_, ii_) in ds_ops.items():
        for shots_ in (1, 3):
            out.append(Shape(f"desired-shots/{nm_}/{oc_}/shots{shots_}/init={ii_}", h_desired_shots,
                             dict(ops=ops_, n=n_, outcome=oc_, shots=shots_, init_index=ii_), modules=MODS, max_paths=64))
    out.append(Shape("canary/desired/sign", h_desired, dict(ops=SHAPES1["m0"][0], n=2, outcome="1", init=False, canary=True),
                     modules=MODS, canary=True))
    for nm in ("m0", "m1-m0", "3q"):
        ops, n, _ = SHAPES1[nm]
        out.append(Shape(f"dm/{nm}", h_dm, dict(ops=ops, n=n), modules=MODS, max_paths=64))
        if nm in ("m0", "m1-m0", "m-first"):
            out.append(Shape(f"dm/{nm}/init", h_dm, dict(ops=ops, n=n, init=True), modules=MODS, max_paths=64))
    for n in ((2,) if tier == "quick" else (2, 3)):
        for q in range(n):
            for res in (0, 1):
                for order in ("lsq_first", "msq_first"):
                    out.append(Shape(f"collapse/n{n}q{q}r{res}/{order}", h_collapse, dict(n=n, qubit=q, result=res, order=order), modules=MODS))
    for order in ("lsq_first", "msq_first"):
        for q in (0, 1, 2):
            for via in ("collapse", "measure"):
                if tier == "quick" and (q == 1 or (via == "measure" and q == 2)):
                    continue
                out.append(Shape(f"collapse_method/{via}/n3q{q}/{order}", h_collapse_method,
                                 dict(n=3, qubit=q, result=(q + 1) % 2, order=order, via=via), modules=MODS))
    out.append(Shape("split/1+2", h_split, dict(n_meas=1, n_q=2, keys=["000", "011", "101", "110", "111"], desired=None), modules=MODS))
    out.append(Shape("split/2+1", h_split, dict(n_meas=2, n_q=1, keys=["000", "011", "101", "110"], desired=None), modules=MODS))
    out.append(Shape("split/1+2/desired", h_split, dict(n_meas=1, n_q=2, keys=["000", "011", "101", "110", "111"], desired="1"), modules=MODS))
    return out
