"""C08  Variational solver energies are faithful and variational."""
import itertools
import random

import numpy as np

from symx.core import Shape
from symx import refsem as R, shim, cirqstub, fock
from symx.num import Sym
from harness.c07 import MODS as ANSATZ_MODS, mol, vec, sym_alloc
from harness import c02

PROPERTY = "C08"
MODS = tuple(ANSATZ_MODS) + ("tangelo.linq.target.backend", "tangelo.linq.target.target_cirq",
                             "tangelo.linq.translator.translate_cirq", "tangelo.algorithms.variational.vqe_solver")

META = dict(
    explanation="A real VQESolver is built (concrete molecule integrals from PySCF, or a qubit Hamiltonian with SYMBOLIC "
                "coefficients), its backend is replaced by the exact cirq stub, and energy_estimation / operator_expectation "
                "are executed on SYMBOLIC parameter vectors. The returned energy is compared with <psi|H|psi> computed by "
                "refsem for the state that the solver's own circuit (reference + ansatz + projective circuit) prepares, and "
                "<psi|psi> = 1 is asserted (premises of the variational bound; Rayleigh-Ritz itself is not re-proved). "
                "Deflation: surplus == coeff * |<phi_d|psi>|^2 with a SYMBOLIC coefficient. N, Sz (all encodings, decoded "
                "through the real state encoder) and S^2 (Jordan-Wigner, textbook Fock-space action) expectation values "
                "requested from the solver equal those of the same state; the target Hamiltonian is restored afterwards.",
    bounds=dict(quick="H2/sto-3g (4 spin-orbitals; H4 with one frozen orbital for the symmetry values), every built-in ansatz + user circuit, JW/BK/scBK/JKMN/HCB x both orderings, <=3 symbolic parameters (the others concrete odd multiples of pi/2)",
                thorough="same plus more encodings for penalties, H4 / H4 with a frozen orbital, k=2 UpCCGSD, 4-interval VSQS"),
    outside=["IEEE rounding", "the optimiser (simulate() is run with a one-point stand-in optimiser)", "PySCF integrals (concrete inputs here)", "S^2 for non-JW encodings "
             "(basis-state phases of the encoder are not modelled)", "registers wider than 4 qubits"],
    stubs=["cirq.Simulator -> exact stub", "cirq PauliSum expectation -> exact, per term through the real translate_operator"],
    trusted_base=["symx.refsem", "symx.fock (textbook second quantisation)", "the real get_mapped_vector as the decoder for N and Sz under non-JW encodings"],
)


def preload():
    import cirq  # noqa
    from tangelo.algorithms.variational import VQESolver  # noqa
    cirqstub.self_check()
    for k in ("H2", "H4f", "H2+", "H4"):
        mol(k)


def make_solver(env, opts):
    from tangelo.algorithms.variational import VQESolver
    o = dict(opts)
    o.setdefault("backend_options", {"target": "cirq"})
    from tangelo.algorithms.variational import BuiltInAnsatze as _B
    if o.get("ansatz") is _B.UCCSD:
        o.setdefault("initial_var_params", "ones")      # the default ('mp2') runs an MP2 calculation per shape; the values are overwritten anyway
    with shim.concrete_mode():
        s = VQESolver(o)
        s.build()
    if env.symbolic:
        s.backend = c02._backend(env, "native")
    return s


def full_circuit_state(solver, n, extra_ref=None):
    circ = solver.ansatz.circuit
    gates = list(circ._gates)
    if solver.ref_state is not None:
        gates = list(solver.reference_circuit._gates) + gates
    if extra_ref is not None:
        gates = list(extra_ref._gates) + list(circ._gates)
    if solver.projective_circuit:
        gates = gates + list(solver.projective_circuit._gates)
    return R.run_gates(gates, n)


def h_energy(env, opts, patt, n, canary=False, hkind=None):
    from tangelo.linq import Circuit, Gate
    opts = dict(opts)
    if "molecule_key" in opts:
        opts["molecule"] = mol(opts.pop("molecule_key"))
    if hkind is not None:
        # qubit Hamiltonian with symbolic coefficients + a user circuit / HEA
        from tangelo.toolboxes.operators import QubitOperator
        H = QubitOperator()
        words = [((0, "Z"),), ((0, "X"), (1, "X")), ((1, "Y"),), ()]
        for i, w in enumerate(words):
            H.terms[w] = env.real(f"h{i}", lo=-2, hi=2)
        opts["qubit_hamiltonian"] = H
        if hkind == "circuit":
            opts["ansatz"] = Circuit([Gate("RY", 0, parameter=0.5, is_variational=True), Gate("CNOT", 1, 0),
                                      Gate("RX", 1, parameter=0.25, is_variational=True), Gate("RZ", 0, parameter=1.0, is_variational=True)])
    if opts.pop("projective", False):
        opts["projective_circuit"] = Circuit([Gate("CNOT", 1, 0), Gate("RZ", 1, parameter=np.pi / 4), Gate("H", 0)])
    if opts.pop("vsqs_rational", False):
        # VSQS multiplies Hamiltonian coefficients into the rotation angles: rational coefficients keep them exact
        from harness.c07 import _qop, H_FINAL2, H_INIT2
        opts["qubit_hamiltonian"] = _qop(H_FINAL2)
        opts["ansatz_options"] = dict(qubit_hamiltonian=_qop(H_FINAL2), h_init=_qop(H_INIT2), reference_state=Circuit([Gate("X", 1)], n_qubits=2),
                                      intervals=opts["intervals"], time=np.pi / 4 * opts.pop("intervals"))   # dt = pi/4: the fixed angles stay on the pi/64 grid
    twice = opts.pop("twice", False)
    nsym = opts.pop("nsym", 2)
    try:
        s = make_solver(env, opts)
        if patt is None:
            k = s.ansatz.n_var_params
            patt = ("s" * nsym + "p" * k)[:k]
        if n is None:
            n = s.ansatz.circuit.width
        th = vec(env, "th", patt)
        with sym_alloc(env):
            if twice:
                # an earlier evaluation at another point must leave no trace (ansatz circuit, projective circuit, reference)
                s.energy_estimation([0.1 * (i + 1) for i in range(len(patt))])
            e = s.energy_estimation(th)
            st = full_circuit_state(s, n)
    finally:
        c02._restore()
    terms = dict(s.qubit_hamiltonian.terms)
    if canary:
        k0 = [k for k in terms if k][0]
        terms[k0] = -terms[k0]
    env.check_eq(e, R.expectation(st, n, terms), "energy_estimation(theta) == <psi(theta)|H|psi(theta)>")
    env.check_eq(R.inner(st, st), 1, "<psi|psi> == 1 (with faithfulness: energy >= lowest eigenvalue by Rayleigh-Ritz)")


def h_deflation(env, opts, patt, n, ref_state=None, narrow=False, two=False):
    from tangelo.linq import Circuit, Gate
    opts = dict(opts)
    opts["molecule"] = mol(opts.pop("molecule_key"))
    if ref_state is not None:
        opts["ref_state"] = ref_state
    if narrow:
        # a determinant preparation touching the first qubits only: the deflation circuit is NARROWER than the ansatz
        cd = Circuit([Gate("X", 0), Gate("RY", 1, parameter=np.pi / 4)] if n == 4 else [Gate("RY", 0, parameter=np.pi / 4)])
    else:
        cd = Circuit([Gate("X", 0), Gate("RY", 1, parameter=np.pi / 4), Gate("CNOT", 2, 1), Gate("H", 3)] if n == 4 else
                     [Gate("RY", 0, parameter=np.pi / 4), Gate("CNOT", 1, 0)], n_qubits=n)
    coeff = env.real("w", lo=0, hi=5)
    cds = [cd]
    if two:
        cds.append(Circuit([Gate("H", 0), Gate("CNOT", 1, 0)] + ([Gate("X", 3)] if n == 4 else []), n_qubits=n))
    opts["deflation_circuits"] = cds
    opts["deflation_coeff"] = coeff
    opts["save_energies"] = True
    try:
        s = make_solver(env, opts)
        th = vec(env, "th", patt)
        with sym_alloc(env):
            e = s.energy_estimation(th)
            st = full_circuit_state(s, n)
    finally:
        c02._restore()
    plain = R.expectation(st, n, dict(s.qubit_hamiltonian.terms))
    surplus = R.C(0)
    for c_ in cds:
        ov = R.inner(st, R.run_gates(c_._gates, n))
        surplus = surplus + ov * R.n_conj(ov)
    env.check_eq(e, plain + coeff * surplus, f"energy with {len(cds)} deflation circuit(s) == plain energy + coeff * sum_k |<psi|phi_k>|^2")
    env.check_true(len(s.energies) >= 1, "save_energies records the evaluation")
    if s.energies:
        env.check_eq(s.energies[-1], e, "the energy recorded with save_energies is the value energy_estimation returned (deflation included)")


def decode_amplitudes(st, n_so, mapping, utd):
    """{occupation vector (interleaved ordering): amplitude} using the real state encoder on every determinant"""
    from tangelo.toolboxes.qubit_mappings.statevector_mapping import get_mapped_vector
    out = {}
    nq = len(st).bit_length() - 1
    with shim.concrete_mode():
        for f in itertools.product((0, 1), repeat=n_so):
            v = get_mapped_vector(np.array(f), mapping, utd)
            if len(v) != nq:
                continue
            idx = int("".join(str(int(b)) for b in v), 2)
            out[f] = st[idx]
    return out


def h_symmetry(env, opts, patt, n, which, canary=False):
    opts = dict(opts)
    molecule = mol(opts.pop("molecule_key"))
    opts["molecule"] = molecule
    mapping, utd = opts.get("qubit_mapping", "jw"), opts.get("up_then_down", False)
    try:
        s = make_solver(env, opts)
        # the ordering in which the CIRCUIT is written is the ansatz' (QCC / ILC with Jordan-Wigner switch to up-then-down whatever the
        # caller asked for, and the solver is documented to follow): the determinants are decoded in that ordering
        utd = bool(getattr(s.ansatz, "up_then_down", utd))
        if patt is None:
            patt = ("s" + "p" * s.ansatz.n_var_params)[:s.ansatz.n_var_params]
        th = vec(env, "th", patt)
        with sym_alloc(env):
            H_before = s.qubit_hamiltonian
            val = s.operator_expectation(which, th)
            env.check_true(s.qubit_hamiltonian is H_before, "target Hamiltonian restored after operator_expectation")
            st = full_circuit_state(s, n)
    finally:
        c02._restore()
    n_so = molecule.n_active_sos
    n_orbs = n_so // 2
    if which in ("N", "Sz"):
        amps = decode_amplitudes(st, n_so, mapping, utd)
        if mapping.lower() == "scbk":
            # only the sector is representable: the whole norm must sit on decoded determinants
            pass
        exp = R.C(0)
        tot = R.C(0)
        for f, a in amps.items():
            p = a * R.n_conj(a)
            tot = tot + p
            na = sum(f[0::2])
            nb = sum(f[1::2])
            lam = (na + nb) if which == "N" else R.C(na - nb) / 2
            if mapping.lower() == "scbk":
                # several determinants of different sectors share an encoded basis state; keep the target sector only
                if (na, nb) != ((molecule.n_active_electrons + molecule.active_spin) // 2, (molecule.n_active_electrons - molecule.active_spin) // 2) \
                        and (na + nb) % 2 == molecule.n_active_electrons % 2 and False:
                    continue
            exp = exp + lam * p
        if mapping.lower() == "scbk":
            # the encoding stores parities only: restrict the oracle to determinants with the solver's (N, Sz) parities
            exp, tot = R.C(0), R.C(0)
            seen = set()
            for f, a in amps.items():
                na, nb = sum(f[0::2]), sum(f[1::2])
                if (na + nb) % 2 != molecule.n_active_electrons % 2 or na % 2 != ((molecule.n_active_electrons + molecule.active_spin) // 2) % 2:
                    continue
                p = a * R.n_conj(a)
                lam = (na + nb) if which == "N" else R.C(na - nb) / 2
                exp = exp + lam * p
                tot = tot + p
        if canary:
            exp = exp + 1
        env.check_eq(tot, 1, "decoded determinants carry the whole norm")
        env.check_eq(val, exp, f"operator_expectation('{which}') == sum_f |<Enc f|psi>|^2 * {which}(f)   [{mapping}, up_then_down={utd}]")
    else:
        # S^2 under Jordan-Wigner: qubit index = spin-orbital index of the chosen ordering
        terms = fock.s2_terms(n_orbs, up_then_down=utd)
        acc = R.C(0)
        for idx, a in enumerate(st):
            if R.is_zero(a):
                continue
            f = tuple(int(c) for c in R.bitstring(idx, n))
            for g, c in fock.apply_operator(terms, f).items():
                j = int("".join(map(str, g)), 2)
                acc = acc + R.n_conj(st[j]) * R.C(c) * a
        if canary:
            acc = acc + 1
        env.check_eq(val, acc, f"operator_expectation('S^2') == <psi|S_-S_+ + S_z(S_z+1)|psi>  [jw, up_then_down={utd}]")


def h_penalty(env, opts, patt, n, pen):
    """VQESolver with penalty_terms: energy_estimation(theta) == <psi|H_molecule|psi> + sum_k mu_k <psi|(O_k - v_k)^2|psi>, the
    molecular part taken from a second solver built without penalties, the penalty part from the decoded determinant amplitudes
    (N, Sz: every encoding) or the textbook Fock-space action of S^2 (Jordan-Wigner)"""
    opts = dict(opts)
    molecule = mol(opts.pop("molecule_key"))
    opts["molecule"] = molecule
    mapping, utd = opts.get("qubit_mapping", "jw"), opts.get("up_then_down", False)
    try:
        s0 = make_solver(env, dict(opts))
        s = make_solver(env, dict(opts, penalty_terms={k: list(v) for k, v in pen.items()}))
        th = vec(env, "th", patt)
        with sym_alloc(env):
            e = s.energy_estimation(th)
            st = full_circuit_state(s, n)
    finally:
        c02._restore()
    n_so = molecule.n_active_sos
    env.check_eq(e, R.expectation(st, n, dict(s.qubit_hamiltonian.terms)), "energy_estimation(theta) == <psi|H_solver|psi>")
    # penalty part of the solver's Hamiltonian: H_solver - H_molecule, coefficients (rational by construction: prefactors and
    # targets are small rationals) snapped to denominators <= 4096 when within 1e-9 -- float summation noise is not the subject
    from fractions import Fraction
    D = {}
    with shim.concrete_mode():
        diff = s.qubit_hamiltonian - s0.qubit_hamiltonian
        for k, v in diff.terms.items():
            v = complex(v)
            fr, fi = Fraction(v.real).limit_denominator(4096), Fraction(v.imag).limit_denominator(4096)
            assert abs(v.real - fr) < 1e-9 and abs(v.imag - fi) < 1e-9, (k, v)
            if fr or fi:
                D[k] = R.C(fr) + R.C(fi) * R.IMAG()
    got = R.expectation(st, n, D)
    want = R.C(0)
    amps = decode_amplitudes(st, n_so, mapping, utd)
    scbk = mapping.lower() == "scbk"
    tot = R.C(0)
    for f, a in amps.items():
        na, nb = sum(f[0::2]), sum(f[1::2])
        if scbk and ((na + nb) % 2 != molecule.n_active_electrons % 2 or na % 2 != ((molecule.n_active_electrons + molecule.active_spin) // 2) % 2):
            continue
        p = a * R.n_conj(a)
        tot = tot + p
        if "N" in pen:
            want = want + R.C(pen["N"][0]) * (R.C(na + nb) - R.C(pen["N"][1])) ** 2 * p
        if "Sz" in pen:
            want = want + R.C(pen["Sz"][0]) * (R.C(na - nb) / 2 - R.C(pen["Sz"][1])) ** 2 * p
    env.check_eq(tot, 1, "decoded determinants carry the whole norm")
    if "S^2" in pen:
        assert mapping.lower() == "jw"
        from fractions import Fraction
        phi = {}
        for idx, a in enumerate(st):
            if R.is_zero(a):
                continue
            f = tuple(int(c) for c in R.bitstring(idx, n))
            for g, c in fock.s2_apply(f, up_then_down=utd).items():
                phi[g] = phi.get(g, R.C(0)) + R.C(c) * a
            phi[f] = phi.get(f, R.C(0)) - R.C(Fraction(pen["S^2"][1])) * a
        nrm = R.C(0)
        for g, v in phi.items():
            nrm = nrm + v * R.n_conj(v)
        want = want + R.C(pen["S^2"][0]) * nrm
    env.check_eq(got, want, f"<psi|H_solver - H_molecule|psi> with penalty_terms {sorted(pen)} == sum mu <(O - v)^2>   [{mapping}, up_then_down={utd}]")


def h_userop(env, opts, patt, n, kind):
    """operator_expectation with a user-supplied operator (QubitOperator with symbolic coefficients / FermionOperator), then
    an energy evaluation: the value is that of the prepared state, and the solver's own Hamiltonian is back afterwards"""
    from tangelo.toolboxes.operators import QubitOperator, FermionOperator
    opts = dict(opts)
    molecule = mol(opts.pop("molecule_key"))
    opts["molecule"] = molecule
    mapping, utd = opts.get("qubit_mapping", "jw"), opts.get("up_then_down", False)
    try:
        s = make_solver(env, opts)
        th = vec(env, "th", patt)
        with sym_alloc(env):
            H_before = s.qubit_hamiltonian
            terms_before = dict(H_before.terms)
            if kind == "qubit":
                op = QubitOperator()
                words = [((0, "Z"),), ((0, "X"), (1, "Y")), ((1, "Z"), (n - 1, "Z")), ()]
                for i, w in enumerate(words):
                    op.terms[w] = env.real(f"u{i}", lo=-2, hi=2)
                s.energy_estimation(list(th))                                   # E(th) ...
                val = s.operator_expectation(op, th)
            else:
                s.energy_estimation(list(th))
                val = s.operator_expectation(FermionOperator(((0, 1), (0, 0))) + 2 * FermionOperator(((3, 1), (3, 0))), th)
            s.operator_expectation("Sz", [np.pi / 2 * (2 * i + 1) for i in range(len(th))])    # ... something else re-parametrises the ansatz (concrete point) ...
            e = s.energy_estimation(list(th))                                   # ... and E(th) is asked again
            st = full_circuit_state(s, n)
    finally:
        c02._restore()
    if kind == "qubit":
        env.check_eq(val, R.expectation(st, n, dict(op.terms)), "operator_expectation(user QubitOperator) == <psi|Op|psi>")
    else:
        amps = decode_amplitudes(st, molecule.n_active_sos, mapping, utd)
        want = R.C(0)
        for f, a in amps.items():
            want = want + (f[0] + 2 * f[3]) * a * R.n_conj(a)
        env.check_eq(val, want, f"operator_expectation(n_0 + 2 n_3 as FermionOperator) == sum_f |<Enc f|psi>|^2 (f_0 + 2 f_3)  [{mapping}, up_then_down={utd}]")
    env.check_true(s.qubit_hamiltonian is H_before and dict(s.qubit_hamiltonian.terms) == terms_before, "target Hamiltonian restored after operator_expectation")
    env.check_eq(e, R.expectation(st, n, terms_before), "energy_estimation after operator_expectation == <psi|H|psi> of the solver's own Hamiltonian")


def h_symmetry_hcb(env, key, which):
    """pUCCD under the hard-core-boson encoding (one qubit per electron PAIR): every basis state is a closed-shell determinant,
    so N = 2 * (number of occupied qubits), S_z = 0 and S^2 = 0 on every state the circuit can prepare"""
    from tangelo.algorithms.variational import BuiltInAnsatze
    molecule = mol(key)
    try:
        s = make_solver(env, dict(molecule=molecule, ansatz=BuiltInAnsatze.pUCCD, qubit_mapping="hcb"))
        k = s.ansatz.n_var_params
        th = vec(env, "th", ("ss" + "p" * k)[:k])
        with sym_alloc(env):
            H_before = s.qubit_hamiltonian
            val = s.operator_expectation(which, th)
            n = s.ansatz.circuit.width
            st = full_circuit_state(s, n)
    finally:
        c02._restore()
    env.check_true(s.qubit_hamiltonian is H_before, "target Hamiltonian restored after operator_expectation")
    want = R.C(0)
    if which == "N":
        for idx, a in enumerate(st):
            want = want + 2 * bin(idx).count("1") * a * R.n_conj(a)
    env.check_eq(val, want, f"operator_expectation('{which}') under HCB == value on the paired (seniority-zero) state")


def h_simulate(env, opts, n, projective=False):
    """simulate() with a user-supplied 'optimizer' that evaluates the energy at ONE (symbolic) parameter vector and returns it:
    the reported optimal energy is <H> of the state that solver.optimal_circuit prepares, and equals energy_estimation there"""
    from tangelo.linq import Circuit, Gate
    opts = dict(opts)
    opts["molecule"] = mol(opts.pop("molecule_key"))
    if projective:
        opts["projective_circuit"] = Circuit([Gate("CNOT", 1, 0), Gate("RZ", 1, parameter=np.pi / 4), Gate("H", 0)])
    try:
        s = make_solver(env, opts)
        k = s.ansatz.n_var_params
        th = vec(env, "th", ("ss" + "p" * k)[:k])
        def _opt(func, x0):
            # the optimiser's LAST evaluation is not at the point it returns (line searches, coordinate scans, ... end like this)
            e_ = func(list(th))
            func([0.0] * k)
            return e_, list(th)
        s.optimizer = _opt
        with sym_alloc(env):
            e_opt = s.simulate()
            st = R.run_gates(s.optimal_circuit._gates, n)
            e_again = s.energy_estimation(list(th))
            # after the optimisation the caller evaluates ANOTHER point and then asks for an operator without naming parameters:
            # the documented default is the ansatz' CURRENT parameters, i.e. the point just evaluated
            zeros = [0.0] * k
            e_zero = s.energy_estimation(list(zeros))
            from tangelo.toolboxes.operators import QubitOperator
            uop = QubitOperator()
            uop.terms[((0, "Z"),)] = 0.5
            uop.terms[((0, "Y"), (1, "X"))] = 0.25 if n >= 2 else 0.0
            uop.terms[((0, "X"), (n - 1, "Z"))] = -0.75
            v_default = s.operator_expectation(uop)
            full = s.ansatz.circuit if s.ref_state is None else s.reference_circuit + s.ansatz.circuit
            st_zero = R.run_gates(list(full._gates), n)
            v_named = s.operator_expectation(uop, list(zeros))
    finally:
        c02._restore()
    if not projective:
        env.check_eq(v_default, v_named, "after simulate() and energy_estimation(x): operator_expectation(op) without parameters == operator_expectation(op, x)")
        env.check_eq(v_default, R.expectation(st_zero, n, dict(uop.terms)),
                     "after simulate() and energy_estimation(x): operator_expectation(op) without parameters == <op> of the state just evaluated")
        env.check_eq(e_zero, R.expectation(st_zero, n, dict(s.qubit_hamiltonian.terms)), "energy_estimation(x) after simulate() == <H> at x")
    env.check_eq(e_opt, R.expectation(st, n, dict(s.qubit_hamiltonian.terms)), "simulate(): optimal_energy == <H> of the state prepared by optimal_circuit")
    env.check_eq(e_opt, e_again, "simulate(): optimal_energy == energy_estimation(optimal_var_params)")
    env.check_vec_eq(list(s.optimal_var_params), list(th), "simulate(): optimal_var_params are the optimiser's")


def h_initial_state(env, mapping, utd):
    """simulate_options={'initial_statevector': psi} (symbolic psi): the energy AND the symmetry / user-operator expectation values
    refer to the state obtained by running the solver's circuit on psi"""
    from harness.c01 import as_array
    from tangelo.algorithms.variational import BuiltInAnsatze
    from tangelo.toolboxes.operators import QubitOperator
    molecule = mol("H2")
    n = 4
    psi = env.state(n, "psi", normalized=True)
    opts = dict(molecule=molecule, qubit_mapping=mapping, up_then_down=utd, ansatz=BuiltInAnsatze.UCCSD)
    try:
        s = make_solver(env, opts)
        s.simulate_options = {"initial_statevector": as_array(env, psi)}
        th = vec(env, "th", "sp")
        op = QubitOperator()
        op.terms[((0, "Z"), (2, "X"))] = env.real("u0", lo=-2, hi=2)
        op.terms[((1, "Y"),)] = env.real("u1", lo=-2, hi=2)
        with sym_alloc(env):
            e = s.energy_estimation(list(th))
            vn = s.operator_expectation("N", list(th))
            vs = s.operator_expectation("Sz", list(th))
            vu = s.operator_expectation(op, list(th))
            st = R.run_gates(list(s.ansatz.circuit._gates), n, psi)
    finally:
        c02._restore()
    env.check_eq(e, R.expectation(st, n, dict(s.qubit_hamiltonian.terms)), "energy_estimation with an initial statevector == <H> of circuit|psi>")
    env.check_eq(vu, R.expectation(st, n, dict(op.terms)), "operator_expectation(user operator) with an initial statevector == value on circuit|psi>")
    amps = decode_amplitudes(st, molecule.n_active_sos, mapping, utd)
    wn, ws = R.C(0), R.C(0)
    for f, a in amps.items():
        p = a * R.n_conj(a)
        wn = wn + sum(f) * p
        ws = ws + R.C(sum(f[0::2]) - sum(f[1::2])) / 2 * p
    env.check_eq(vn, wn, f"operator_expectation('N') with an initial statevector == value on circuit|psi>  [{mapping}, up_then_down={utd}]")
    env.check_eq(vs, ws, f"operator_expectation('Sz') with an initial statevector == value on circuit|psi>  [{mapping}, up_then_down={utd}]")


def h_two_solvers(env, ansatz_name):
    """two solvers built from the same BuiltInAnsatze member in one process (a potential-energy scan): after both have run
    simulate() - with a stand-in optimiser that evaluates one symbolic point each - the FIRST solver's optimal_circuit still
    prepares the state its optimal_energy refers to"""
    from tangelo.algorithms.variational import BuiltInAnsatze
    A = getattr(BuiltInAnsatze, ansatz_name)
    o = dict(molecule=mol("H2"), qubit_mapping="jw", up_then_down=True, ansatz=A)
    try:
        s1 = make_solver(env, dict(o))
        k = s1.ansatz.n_var_params
        t1 = vec(env, "th", ("ss" + "p" * k)[:k])
        t2 = [x + 0.5 for x in t1]
        s1.optimizer = lambda func, x0: (func(list(t1)), list(t1))
        with sym_alloc(env):
            e1 = s1.simulate()
        s2 = make_solver(env, dict(o))
        s2.optimizer = lambda func, x0: (func(list(t2)), list(t2))
        with sym_alloc(env):
            e2 = s2.simulate()
            st1 = R.run_gates(s1.optimal_circuit._gates, 4)
            st2 = R.run_gates(s2.optimal_circuit._gates, 4)
    finally:
        c02._restore()
    env.check_eq(e1, R.expectation(st1, 4, dict(s1.qubit_hamiltonian.terms)),
                 f"{ansatz_name}: the first solver's optimal_circuit still prepares the state of its optimal_energy after a second solver ran")
    env.check_eq(e2, R.expectation(st2, 4, dict(s2.qubit_hamiltonian.terms)), f"{ansatz_name}: second solver's optimal_energy == <H> of its optimal_circuit")


def h_refstate(env, patt):
    """solver given a reference-state override: the symmetry expectation must refer to the same state as the energy"""
    from tangelo.algorithms.variational import BuiltInAnsatze
    molecule = mol("H2")
    opts = dict(molecule=molecule, qubit_mapping="jw", ansatz=BuiltInAnsatze.UCCSD, ref_state=[1, 0, 1, 0])
    try:
        s = make_solver(env, opts)
        th = vec(env, "th", patt)
        with sym_alloc(env):
            e = s.energy_estimation(th)
            st = full_circuit_state(s, 4)
            nval = s.operator_expectation("Sz", th)
    finally:
        c02._restore()
    env.check_eq(e, R.expectation(st, 4, dict(s.qubit_hamiltonian.terms)), "energy with ref_state override == <psi|H|psi> of reference+ansatz")
    exp = R.C(0)
    for idx, a in enumerate(st):
        f = [int(c) for c in R.bitstring(idx, 4)]
        exp = exp + R.C(sum(f[0::2]) - sum(f[1::2])) / 2 * a * R.n_conj(a)
    env.check_eq(nval, exp, "operator_expectation('Sz') refers to the state the solver's energy refers to (reference override included)")


def shapes(tier, seed):
    from tangelo.algorithms.variational import BuiltInAnsatze
    out = []
    maps = [("jw", False), ("jw", True), ("bk", False), ("bk", True), ("scbk", False), ("scbk", True), ("jkmn", False), ("jkmn", True),
            ("scBK", False), ("JW", True)]
    pats = ["ss", "s0"] if tier == "quick" else ["ss", "s0", "0s", "+-"]
    for mp, utd in maps:
        n = 2 if mp.lower() == "scbk" else 4
        for patt in (pats if (mp, utd) in (("jw", False), ("bk", True)) else pats[:1]):
            out.append(Shape(f"energy/uccsd/H2/{mp}/utd={int(utd)}/{patt}", h_energy,
                             dict(opts=dict(molecule_key="H2", qubit_mapping=mp, up_then_down=utd, ansatz=BuiltInAnsatze.UCCSD), patt=patt, n=n),
                             modules=MODS, max_paths=64))
        for which in ("N", "Sz"):
            out.append(Shape(f"symmetry/{which}/H2/{mp}/utd={int(utd)}", h_symmetry,
                             dict(opts=dict(molecule_key="H2", qubit_mapping=mp, up_then_down=utd, ansatz=BuiltInAnsatze.UCCSD), patt="ss", n=n, which=which),
                             modules=MODS, max_paths=64))
        if mp.lower() == "jw":
            out.append(Shape(f"symmetry/S2/H2/{mp}/utd={int(utd)}", h_symmetry,
                             dict(opts=dict(molecule_key="H2", qubit_mapping=mp, up_then_down=utd, ansatz=BuiltInAnsatze.UCCSD), patt="ss", n=n, which="S^2"),
                             modules=MODS, max_paths=64))
    from fractions import Fraction as Fr
    for mp, utd in [("jw", False), ("jw", True), ("bk", True), ("scbk", True), ("jkmn", False)] + ([("bk", False), ("jkmn", True), ("scbk", False)] if tier == "thorough" else []):
        n = 2 if mp.lower() == "scbk" else 4
        pens = [dict(N=(Fr(3, 2), 1), Sz=(Fr(3, 4), Fr(1, 2)))]      # [prefactor, target value]
        if mp == "jw":
            pens.append({"S^2": (Fr(1, 4), 2), "Sz": (Fr(1, 2), Fr(-1, 2))})
        for pi, pen in enumerate(pens):
            out.append(Shape(f"penalty/H2/{mp}/utd={int(utd)}/{'+'.join(sorted(pen))}", h_penalty,
                             dict(opts=dict(molecule_key="H2", qubit_mapping=mp, up_then_down=utd, ansatz=BuiltInAnsatze.UCCSD), patt="ss", n=n, pen=pen),
                             modules=MODS, max_paths=64))
    # frozen-orbital molecule (active electron number differs from the total): 6 spin-orbitals
    for mp, utd, n in (("scbk", True, 4), ("jw", False, 6)) + ((("bk", True, 6),) if tier == "thorough" else ()):      # bk: ~80 s per shape
        for which in ("N", "Sz"):
            out.append(Shape(f"symmetry/{which}/H4f/{mp}/utd={int(utd)}", h_symmetry,
                             dict(opts=dict(molecule_key="H4f", qubit_mapping=mp, up_then_down=utd, ansatz=BuiltInAnsatze.UCCSD), patt=None, n=n, which=which),
                             modules=MODS, max_paths=64))
    for an_, anm_ in ((BuiltInAnsatze.QCC, "qcc"), (BuiltInAnsatze.ILC, "ilc")):
        for sp_ in ("jw", "JW", "Jw"):
            for which in ("N", "Sz"):
                out.append(Shape(f"symmetry/{which}/H2/{anm_}/mapping={sp_}/utd-default", h_symmetry,
                                 dict(opts=dict(molecule_key="H2", qubit_mapping=sp_, ansatz=an_), patt=None, n=4, which=which), modules=MODS, max_paths=64))
    B = BuiltInAnsatze
    variety = [("ucc1", dict(molecule_key="H2", qubit_mapping="jw", up_then_down=True, ansatz=B.UCC1)),
               ("ucc3", dict(molecule_key="H2", qubit_mapping="jw", up_then_down=True, ansatz=B.UCC3)),
               ("upccgsd", dict(molecule_key="H2", qubit_mapping="bk", up_then_down=False, ansatz=B.UpCCGSD)),
               ("uccgd", dict(molecule_key="H2", qubit_mapping="jw", up_then_down=False, ansatz=B.UCCGD)),
               ("qmf", dict(molecule_key="H2", qubit_mapping="jw", up_then_down=True, ansatz=B.QMF)),
               ("qcc", dict(molecule_key="H2", qubit_mapping="jw", up_then_down=True, ansatz=B.QCC)),
               ("ilc", dict(molecule_key="H2", qubit_mapping="jw", up_then_down=True, ansatz=B.ILC)),
               ("vsqs", dict(ansatz=B.VSQS, vsqs_rational=True, intervals=2)),
               ("puccd", dict(molecule_key="H2", qubit_mapping="hcb", ansatz=B.pUCCD)),
               ("hea-mol", dict(molecule_key="H2", qubit_mapping="scbk", up_then_down=True, ansatz=B.HEA, ansatz_options={"n_layers": 1})),
               ("uccsd-proj", dict(molecule_key="H2", qubit_mapping="jw", up_then_down=False, ansatz=B.UCCSD, projective=True)),
               ("uccsd-proj-twice", dict(molecule_key="H2", qubit_mapping="bk", up_then_down=True, ansatz=B.UCCSD, projective=True, twice=True)),
               ("uccsd-refstate-proj", dict(molecule_key="H2", qubit_mapping="jw", up_then_down=False, ansatz=B.UCCSD, projective=True, ref_state=[0, 1, 1, 0])),
               ("uccsd-twice", dict(molecule_key="H2", qubit_mapping="jkmn", up_then_down=False, ansatz=B.UCCSD, twice=True)),
               ("uccsd-openshell", dict(molecule_key="H2+", qubit_mapping="jw", up_then_down=False, ansatz=B.UCCSD)),
               ("uccsd-openshell-scbk", dict(molecule_key="H2+", qubit_mapping="scbk", up_then_down=True, ansatz=B.UCCSD))]
    if tier == "thorough":
        variety += [("upccgsd-k2", dict(molecule_key="H2", qubit_mapping="jw", up_then_down=True, ansatz=B.UpCCGSD, ansatz_options={"k": 2})),
                    ("uccsd-H4f", dict(molecule_key="H4f", qubit_mapping="scbk", up_then_down=True, ansatz=B.UCCSD)),
                    ("qcc-bk", dict(molecule_key="H2", qubit_mapping="bk", up_then_down=False, ansatz=B.QCC)),
                    ("vsqs-4", dict(ansatz=B.VSQS, vsqs_rational=True, intervals=4, nsym=6))]
    for nm, o in variety:
        out.append(Shape(f"energy/variety/{nm}", h_energy, dict(opts=o, patt=None, n=None), modules=MODS, max_paths=64))
    out.append(Shape("energy/hea/qubitH", h_energy, dict(opts=dict(ansatz=BuiltInAnsatze.HEA, ansatz_options={"n_qubits": 2, "n_layers": 1, "reference_state": "zero"}),
                                                         patt="sss" + "0" * 9, n=2, hkind="hea"), modules=MODS, max_paths=64))
    out.append(Shape("energy/circuit/qubitH", h_energy, dict(opts=dict(), patt="sss", n=2, hkind="circuit"), modules=MODS, max_paths=64))
    out.append(Shape("canary/energy/sign", h_energy, dict(opts=dict(), patt="sss", n=2, hkind="circuit", canary=True), modules=MODS, canary=True, max_paths=64))
    out.append(Shape("canary/symmetry/N", h_symmetry, dict(opts=dict(molecule_key="H2", qubit_mapping="jw", up_then_down=False, ansatz=BuiltInAnsatze.UCCSD),
                                                           patt="ss", n=4, which="N", canary=True), modules=MODS, canary=True, max_paths=64))
    out.append(Shape("deflation/uccsd/H2/jw", h_deflation, dict(opts=dict(molecule_key="H2", qubit_mapping="jw", ansatz=BuiltInAnsatze.UCCSD), patt="ss", n=4),
                     modules=MODS, max_paths=64))
    out.append(Shape("deflation/uccsd/H2/jw/refstate", h_deflation, dict(opts=dict(molecule_key="H2", qubit_mapping="jw", ansatz=BuiltInAnsatze.UCCSD),
                                                                       patt="ss", n=4, ref_state=[1, 0, 0, 1]), modules=MODS, max_paths=64))
    out.append(Shape("deflation/uccsd/H2/scbk", h_deflation, dict(opts=dict(molecule_key="H2", qubit_mapping="scbk", ansatz=BuiltInAnsatze.UCCSD), patt="ss", n=2),
                     modules=MODS, max_paths=64))
    out.append(Shape("deflation/uccsd/H2/jw/two", h_deflation, dict(opts=dict(molecule_key="H2", qubit_mapping="jw", ansatz=BuiltInAnsatze.UCCSD), patt="ss", n=4, two=True),
                     modules=MODS, max_paths=64))
    out.append(Shape("deflation/uccsd/H2/scbk/two+narrow", h_deflation, dict(opts=dict(molecule_key="H2", qubit_mapping="scbk", ansatz=BuiltInAnsatze.UCCSD), patt="ss", n=2,
                                                                            two=True, narrow=True), modules=MODS, max_paths=64))
    for nm, o, nq, pj in (("plain", dict(molecule_key="H2", qubit_mapping="jw", ansatz=BuiltInAnsatze.UCCSD), 4, False),
                          ("refstate", dict(molecule_key="H2", qubit_mapping="jw", ansatz=BuiltInAnsatze.UCCSD, ref_state=[0, 1, 1, 0]), 4, False),
                          ("refstate-upccgsd-bk", dict(molecule_key="H2", qubit_mapping="bk", up_then_down=True, ansatz=BuiltInAnsatze.UpCCGSD, ref_state=[0, 1, 0, 1]), 4, False),
                          ("refstate-proj", dict(molecule_key="H2", qubit_mapping="jw", ansatz=BuiltInAnsatze.UCCSD, ref_state=[1, 0, 0, 1]), 4, True)):
        out.append(Shape(f"simulate/{nm}", h_simulate, dict(opts=o, n=nq, projective=pj), modules=MODS, max_paths=64))
    out.append(Shape("deflation/uccsd/H2/jw/narrow", h_deflation, dict(opts=dict(molecule_key="H2", qubit_mapping="jw", ansatz=BuiltInAnsatze.UCCSD), patt="ss", n=4, narrow=True),
                     modules=MODS, max_paths=64))
    out.append(Shape("deflation/uccsd/H2/scbk/narrow", h_deflation, dict(opts=dict(molecule_key="H2", qubit_mapping="scbk", ansatz=BuiltInAnsatze.UCCSD), patt="ss", n=2, narrow=True),
                     modules=MODS, max_paths=64))
    for mp, utd in (("jw", False), ("bk", True), ("jkmn", False)):
        for kind in ("qubit", "fermion"):
            out.append(Shape(f"userop/{kind}/H2/{mp}/utd={int(utd)}", h_userop,
                             dict(opts=dict(molecule_key="H2", qubit_mapping=mp, up_then_down=utd, ansatz=BuiltInAnsatze.UCCSD), patt="ss", n=4, kind=kind),
                             modules=MODS, max_paths=64))
    for key in ("H2",) + (("H4",) if tier == "thorough" else ()):
        for which in ("N", "Sz", "S^2"):
            out.append(Shape(f"symmetry/{which}/{key}/hcb-puccd", h_symmetry_hcb, dict(key=key, which=which), modules=MODS, max_paths=64))
    for mp_, utd_ in (("jw", False),) + ((("bk", True),) if tier == "thorough" else ()):       # ~50-80 s each (32 symbolic amplitude components)
        out.append(Shape(f"initial-state/H2/{mp_}/utd={int(utd_)}", h_initial_state, dict(mapping=mp_, utd=utd_), modules=MODS, max_paths=64))
    for an in ("UCC1", "UCCSD"):            # (UCC3: the exact comparison of its 3-parameter state exceeds the quick budget)
        out.append(Shape(f"two-solvers/{an}", h_two_solvers, dict(ansatz_name=an), modules=MODS, max_paths=64))
    out.append(Shape("refstate/uccsd/H2/jw", h_refstate, dict(patt="ss"), modules=MODS, max_paths=64))
    return out
