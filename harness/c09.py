"""C09  Circuit transformations preserve the implemented operation."""
import itertools
import math
import random

from symx.core import Shape
from symx import refsem as R
from symx import circ as CU
from symx.num import Sym

PROPERTY = "C09"
MODS = ("tangelo.linq.helpers.circuits.clifford_circuits",)
SHAPE_BUDGET = dict(quick=110, thorough=600)

META = dict(
    explanation="The real Circuit/Gate code is run on circuits whose rotation parameters are solver variables. "
                "(a) inverse: refsem unitary of c followed by c.inverse() equals the identity entry-wise. "
                "(b) merge_rotations / remove_redundant_gates / simplify (function and method forms): every path of "
                "Gate.__eq__ (quotient of theta mod 2*pi forked, round(.,7) an integer variable) is explored and on each "
                "path the output unitary equals the input unitary up to one global phase. (c) remove_small_rotations "
                "with a symbolic threshold in (0, 0.1]: every dropped gate is within the threshold (max-norm) of a "
                "global phase times the identity; kept gates are the input gates in order. (d) split, stack, "
                "trim_qubits, reindex_qubits, copy, +, *: the unitary on the documented index map equals the original. "
                "(e) decompose_gate_to_cliffords at k*pi/2, k in [-8, 8]. (f) Gate.__eq__: on every path where two "
                "gates compare equal, G1 G2^dagger is within 1e-7 (the rounding resolution of __eq__) of a global "
                "phase. (g) out-of-place functions leave a value snapshot of their input unchanged.",
    bounds=dict(quick="circuits of <=4 gates over <=3 used qubits (index patterns {0,1,2}, {0,2,3}, {1,8}, {8,1,3}; fixed "
                      "n_qubits larger than used or none), fixed core + seeded sample; <=3 symbolic angles in "
                      "[-4pi, 4pi] ((c): [-5pi, 5pi], threshold in (0, 0.1]; (f): a, d in [-3pi, 3pi], b = a + d); "
                      "Clifford angles k*pi/2, |k|<=8",
                thorough="same bounds, larger seeded sample (80 inverse, 150 pass, 80 structural shapes); (f): a, d in [-4pi, 4pi]"),
    outside=["IEEE rounding",
             "(b): inputs where two reduced parameters round to the same 7-digit value without being equal "
             "(Gate.__eq__ identifies them; the deviation is below 1e-7 and is covered per gate pair by (f))",
             "(b) simplify is run with param_threshold=1e-9 (threshold-assume policy: no non-identically-zero angle is "
             "within 1e-9 of a multiple of 2*pi); the threshold behaviour is (c)",
             "(c) is stated per dropped gate (sufficient algebraic form); accumulated deviation of several dropped gates is "
             "not bounded by one threshold and is not claimed",
             "non-numeric (string / sympy) parameters in the simplification passes"],
    stubs=[], trusted_base=["documented gate matrices in symx.refsem", "small-angle lemmas listed under assumptions"],
    assumptions=["lemma (real analysis, added to the path condition for x = theta - 2*pi*m, |m| <= 3, and for the "
                 "difference of two compared reduced parameters): |sin(x/2)| <= |x|/2, 1 - cos(x/2) <= x^2/8, "
                 "|sin x| <= |x|, 1 - cos x <= x^2/2",
                 "lemma: x_i = x_j  ->  exp(i (x_i - x_j)/2) = 1",
                 "3.14159265358979 <= pi <= 3.14159265358980"],
)

ROT1 = ("RX", "RY", "RZ", "PHASE")
CROT = ("CRX", "CRY", "CRZ", "CPHASE")
FIXED1 = ("H", "X", "Y", "Z", "S", "T")
CFIXED = ("CNOT", "CX", "CY", "CZ", "CH")
SMALL_ROT = ("RX", "RY", "RZ", "CRX", "CRY", "CRZ")


def preload():
    import tangelo.linq  # noqa
    import tangelo.linq.helpers.circuits.clifford_circuits  # noqa


# ------------------------------------------------------------------ building circuits from specs
# gate spec: (name, targets, controls|None, param) ; param: None | float | "a" | "-a" | "a+b" ... (names of symbolic angles)
def _param(env, p, angles, rng):
    if p is None:
        return ""
    if isinstance(p, (int, float)):
        return p
    tot = None
    for tok in p.replace("-", "+-").split("+"):
        tok = tok.strip()
        if not tok:
            continue
        neg = tok.startswith("-")
        nm = tok.lstrip("-")
        if nm not in angles:
            angles[nm] = env.angle(nm, rng[0], rng[1])
            if not env.symbolic:     # replayed candidates must lie in the declared range
                env.assume(rng[0] * math.pi <= angles[nm] <= rng[1] * math.pi, "angle range")
        v = -angles[nm] if neg else angles[nm]
        tot = v if tot is None else tot + v
    return tot


def build(env, spec, n_qubits=None, rng=(-4, 4), angles=None, variational=()):
    from tangelo.linq import Gate, Circuit
    angles = {} if angles is None else angles
    gs = []
    for i, (nm, tg, ct, pa) in enumerate(spec):
        gs.append(Gate(nm, list(tg) if len(tg) > 1 else tg[0], None if ct is None else (list(ct) if len(ct) > 1 else ct[0]),
                       _param(env, pa, angles, rng), is_variational=(i in variational)))
    return Circuit(gs, n_qubits=n_qubits), angles


def _ident(dim):
    return [R.C(1 if i == j else 0) for j in range(dim) for i in range(dim)]


def _U(gts, qubits=None):
    qs = CU.used_qubits(gts) if qubits is None else set(qubits)
    m = CU.dense(qs)
    return CU.unitary(CU.remap(gts, m), len(m)), len(m)


# ------------------------------------------------------------------ (a) inverse
def h_inverse(env, spec, n_qubits, canary=False):
    c, _ = build(env, spec, n_qubits)
    before = CU.snapshot(c)
    g0 = CU.gate_tuples(c)
    ci = c.inverse()
    g1 = CU.gate_tuples(ci)
    if canary:       # wrong spec: "the inverse is the reversed circuit" (without inverting the gates)
        g1 = list(reversed(g0))
    U, n = _U(g0 + g1)
    env.check_vec_eq(U, _ident(2 ** n), "refsem(c.inverse()) * refsem(c) == identity")
    env.check_same(ci.width, c.width, "inverse keeps the width")
    CU.check_unchanged(env, before, c, "Circuit.inverse leaves its input circuit unchanged")


# ------------------------------------------------------------------ (b) simplification passes
def _run_pass(c, op, form, **kw):
    import tangelo.linq.circuit as TC
    if form == "function":
        return getattr(TC, op)(c, **kw)
    getattr(c, op)(**kw)
    return c


def h_pass(env, spec, n_qubits, op, form, remove_qubits=False, canary=False, max_cycles=None):
    c, _ = build(env, spec, n_qubits)
    g0 = CU.gate_tuples(c)
    kw = {}
    if op == "simplify":
        kw = dict(param_threshold=1e-9, remove_qubits=remove_qubits)
        if max_cycles is not None:
            kw["max_cycles"] = max_cycles       # documented option: any number of cycles (0 included) returns an equivalent circuit
    elif op == "remove_redundant_gates":
        kw = dict(remove_qubits=remove_qubits)
    out = _run_pass(c, op, form, **kw)
    consts = [p for (_n, _t, _c, p) in spec if isinstance(p, (int, float))]
    consts = consts + [-p for p in consts] + [-math.pi / 2, -math.pi / 4]      # S, T invert to PHASE(-pi/2), PHASE(-pi/4)
    g1 = CU.gate_tuples(out)
    qs = CU.used_qubits(g0)
    if canary:       # wrong spec: the pass is claimed to also absorb a Z on the first used qubit
        g1 = g1 + [("Z", (min(qs),), None, "", False)]
    env.check_true(CU.used_qubits(g1) <= qs, f"{op}: output acts only on qubits of the input")
    U0, n = _U(g0, qs)
    U1, _ = _U(g1, qs)
    CU.link_rounds(env, consts, polys=U0 + U1)
    tag = " [controlled rotations present]" if any(g[0] in ("CRX", "CRY", "CRZ") for g in g0) else ""
    env.check_vec_eq_up_to_phase(U1, U0, f"{op} ({form}): output unitary == input unitary up to a global phase{tag}")
    if not remove_qubits and op == "remove_redundant_gates":
        env.check_same(out.width, max(max(qs) + 1, n_qubits or 0), f"{op}: width is kept")


# ------------------------------------------------------------------ (c) remove_small_rotations
def _gate_matrix(gt):
    U, n = _U([gt])
    return U, 2 ** n


def h_small(env, spec, n_qubits, form, remove_qubits=False, canary=False, op="remove_small_rotations"):
    """op='simplify': the same statement for the threshold handed to simplify() (specs without mergeable / cancelling gates)"""
    thr = env.real("thr", lo=0, hi=0.1, nonzero=True)
    c, angles = build(env, spec, n_qubits, rng=(-5, 5))
    for a in angles.values():
        CU.periodic_small_angle_lemmas(env, a, ms=range(-3, 4), full=False)
    g0 = CU.gate_tuples(c)
    out = _run_pass(c, op, form, param_threshold=thr, remove_qubits=remove_qubits)
    g1 = CU.gate_tuples(out)
    # out must be a subsequence of the input; the missing gates are the dropped ones
    dropped, j = [], 0
    for gt in g0:
        if j < len(g1) and CU.gates_same([gt], [g1[j]]) is None:
            j += 1
        else:
            dropped.append(gt)
    env.check_true(j == len(g1), "remove_small_rotations: kept gates are the input gates, in order",
                   detail=f"in={[g[:3] for g in g0]} out={[g[:3] for g in g1]}")
    for gt in dropped:
        env.check_true(gt[0] in SMALL_ROT, f"remove_small_rotations drops only rotation gates (dropped {gt[0]})")
        D, dim = _gate_matrix(gt)
        tol = thr / 4 if canary else thr      # canary: claims a 4x tighter bound than the threshold
        CU.near_phase_identity(env, D, dim, tol,
                               f"remove_small_rotations drops {gt[0]}: dropped gate is within the threshold of a global phase")
    if not remove_qubits:
        env.check_same(out.width, max(max(CU.used_qubits(g0)) + 1, n_qubits or 0), "remove_small_rotations: width is kept")


# ------------------------------------------------------------------ (f) Gate.__eq__
def h_gate_eq(env, n1, n2, tg, ct, p1, p2, rng=(-4, 4), canary=False):
    from tangelo.linq import Gate
    angles = {}
    a = _param(env, p1, angles, rng)
    b = _param(env, p2, angles, rng)
    g1 = Gate(n1, tg, ct, a)
    g2 = Gate(n2, tg, ct, b)
    eq = g1 == g2
    if not eq:
        env.check_true((g1 != g2) is True, "__ne__ is the negation of __eq__")
        return
    t1, t2 = CU.gate_tuple(g1), CU.gate_tuple(g2)
    qs = CU.used_qubits([t1])
    U1, n = _U([t1], qs)
    U2, _ = _U([t2], qs)
    if env.symbolic:
        from symx import num
        red = [Sym(x) for (x, _n, _sc) in num.ctx().__dict__.get("_rounds", {}).values()]
        for p in (a, b):       # concrete parameters are reduced by the real code with floats: exact value of the reduced angle
            if isinstance(p, (int, float)) and not isinstance(p, bool):
                xc = Sym.of(p) - 2 * math.floor(p / (2 * math.pi)) * num.sym_pi()
                red.append(xc)
        if len(red) == 2:
            ph = n1 in ("PHASE", "CPHASE")      # diag(1, e^{i x}): the angle occurs undivided; all others through x/2
            CU.small_angle_lemmas(env, red[0] - red[1], why="(x = difference of the two reduced parameters)", full=ph, half=not ph)
    D = CU.matmul_dag(U1, U2, 2 ** n)
    # canary: claims that equal gates agree WITHOUT any global phase (refuted by RX(a) == RX(a + 2*pi) = -RX(a))
    from fractions import Fraction
    CU.near_phase_identity(env, D, 2 ** n, Fraction(1, 10 ** 7), f"Gate.__eq__ {n1}/{n2}: gates that compare equal agree up to a global phase (within 1e-7)",
                           phases=((1,) if canary else (1, -1)))


# ------------------------------------------------------------------ (d) structural operations
def h_struct(env, op, spec, n_qubits, spec2=None, n_qubits2=None, arg=None, canary=False):
    from tangelo.linq.circuit import stack as f_stack
    angles = {}
    c, angles = build(env, spec, n_qubits, angles=angles)
    g0 = CU.gate_tuples(c)
    before = CU.snapshot(c)
    c2 = before2 = g02 = None
    if spec2 is not None:
        c2, angles = build(env, spec2, n_qubits2, angles=angles)
        g02 = CU.gate_tuples(c2)
        before2 = CU.snapshot(c2)
    qs = CU.used_qubits(g0)
    readonly = True
    if op == "copy":
        out = c.copy()
        exp, got, reg = g0, CU.gate_tuples(out), qs
        env.check_same(out.width, c.width, "copy keeps the width")
        env.check_true(all(x is not y for x, y in zip(out._gates, c._gates)), "copy does not share gate objects")
    elif op == "add":
        out = c + c2
        exp, got, reg = g0 + g02, CU.gate_tuples(out), qs | CU.used_qubits(g02)
    elif op == "mul":
        out = c * arg
        out2 = arg * c
        exp, got, reg = g0 * arg, CU.gate_tuples(out), qs
        env.check_true(CU.gates_same(CU.gate_tuples(out2), got) is None, "n * c == c * n")
        env.check_same(out.width, c.width, "repetition keeps the width")
    elif op == "trim":
        readonly = False
        out = c.trim_qubits()
        m = CU.dense(qs)
        exp, got, reg = CU.remap(g0, m), CU.gate_tuples(out), set(range(len(qs)))
        env.check_true(CU.used_qubits(got) <= reg, "trim_qubits: indices are 0..k-1", detail=str(CU.used_qubits(got)))
        env.check_same(out.width, len(qs), "trim_qubits: width == number of used qubits")
    elif op == "reindex":
        readonly = False
        old = sorted(c._qubit_indices)
        new = list(arg)
        c.reindex_qubits(new)
        # documented map: new_indices = [new index for qubit 0, for qubit 1, ...] : k-th qubit (ascending) -> new_indices[k]
        m = {q: new[k] for k, q in enumerate(old)}
        exp, got, reg = CU.remap(g0, m), CU.gate_tuples(c), set(new)
        if CU.gates_same(exp, got) is not None:
            env.fail("reindex_qubits maps the k-th qubit (ascending order) to new_indices[k]",
                     f"qubits {old} -> {new}: expected {[(g[0], g[1], g[2]) for g in exp]}, got {[(g[0], g[1], g[2]) for g in got]}")
            return
    elif op in ("split", "split_notrim"):
        parts = c.split(trim_qubits=(op == "split"))
        ent = c.get_entangled_indices()
        env.check_same(len(parts), len(ent), "split: one circuit per entangled subset")
        got = []
        for part, sub in zip(parts, ent):
            pg = CU.gate_tuples(part)
            if op == "split":
                back = {i: q for i, q in enumerate(sorted(sub))}
                env.check_true(CU.used_qubits(pg) <= set(back), "split: trimmed part uses indices 0..k-1")
                pg = CU.remap(pg, back)
            env.check_true(CU.used_qubits(pg) <= set(sub), "split: part acts on its own subset only")
            got += pg
        # the subsets must be pairwise disjoint (parts are 'unentangled')
        env.check_true(sum(len(s) for s in ent) == len(set().union(*ent)) if ent else True, "split: subsets are disjoint")
        exp, reg = g0, qs
    elif op == "stack":
        out = c.stack(c2) if arg == "method" else f_stack(c, c2)
        m1 = CU.dense(qs)
        qs2 = CU.used_qubits(g02)
        m2 = {q: i + len(qs) for q, i in CU.dense(qs2).items()}
        exp, got, reg = CU.remap(g0, m1) + CU.remap(g02, m2), CU.gate_tuples(out), set(range(len(qs) + len(qs2)))
        env.check_same(out.width, len(qs) + len(qs2), "stack: width is the sum of the trimmed widths")
    else:
        raise ValueError(op)
    if canary:       # wrong spec: pretend the operation also swaps the roles of the two lowest qubits
        lo = sorted(reg)[:2]
        sw = {q: q for q in reg}
        sw[lo[0]], sw[lo[1]] = lo[1], lo[0]
        exp = CU.remap(exp, sw)
    env.check_true(CU.used_qubits(got) <= reg, f"{op}: output acts on the documented qubits",
                   detail=f"{sorted(CU.used_qubits(got))} vs {sorted(reg)}")
    if not (CU.used_qubits(got) <= reg):
        return
    Ue, _ = _U(exp, reg)
    Ug, _ = _U(got, reg)
    env.check_vec_eq_up_to_phase(Ug, Ue, f"{op}: action equals the original on the corresponding qubits")
    if readonly:
        CU.check_unchanged(env, before, c, f"{op} leaves its (first) input circuit unchanged")
        if c2 is not None:
            CU.check_unchanged(env, before2, c2, f"{op} leaves its second input circuit unchanged")


# ------------------------------------------------------------------ (e) Clifford decomposition
def h_clifford(env, name, ks, canary=False, delta=0.0):
    """delta > 0: angles a little ABOVE a multiple of pi/2, inside the documented tolerance (the only inexact angles that
    Gate.is_clifford accepts): the decomposition is that of the multiple itself"""
    from tangelo.linq import Gate
    from tangelo.linq.helpers.circuits.clifford_circuits import decompose_gate_to_cliffords
    for k in ks:
        theta = k * math.pi / 2 + delta
        g = Gate(name, 0, parameter=theta)
        if delta and not g.is_clifford():
            continue
        out = decompose_gate_to_cliffords(g)
        got = [CU.gate_tuple(x) for x in (out if isinstance(out, list) else [out])]
        kk = k + 1 if canary else k
        U0 = CU.unitary([(name, (0,), None, kk * math.pi / 2, False)], 1)
        U1 = CU.unitary(got, 1)
        env.check_vec_eq_up_to_phase(U1, U0, f"decompose_gate_to_cliffords({name}({k}*pi/2)) has the same unitary up to phase")
        env.check_true(all(x[0] in ("H", "S", "X", "Y", "Z", "SDAG") for x in got), "decomposition uses Clifford gates only")


# ------------------------------------------------------------------ (g) inputs unchanged
def h_immut(env, op, spec, n_qubits):
    import tangelo.linq.circuit as TC
    c, _ = build(env, spec, n_qubits, variational=(1,))
    before = CU.snapshot(c)
    kw = dict(param_threshold=0.05) if op in ("remove_small_rotations", "simplify") else {}
    getattr(TC, op)(c, **kw)
    CU.check_unchanged(env, before, c, f"{op} (function) leaves its input circuit unchanged")


def h_mul_one(env, spec, n_qubits):
    """c * 1 and 1 * c are NEW circuits with the same gates: changing them in place leaves c unchanged"""
    from tangelo.linq import Gate
    c, _ = build(env, spec, n_qubits)
    before = CU.snapshot(c)
    for nm, d in (("c * 1", c * 1), ("1 * c", 1 * c)):
        env.check_true(CU.gates_same(CU.gate_tuples(d), before["gates"]) is None, f"{nm} has the gates of c")
        d.add_gate(Gate("X", 0))
        d.remove_small_rotations(param_threshold=10.)
        CU.check_unchanged(env, before, c, f"in-place changes of {nm} leave c unchanged")


def h_immut_canary(env, spec, n_qubits):
    """canary for the snapshot comparison: the in-place METHOD is (wrongly) claimed to leave the circuit unchanged"""
    c, _ = build(env, spec, n_qubits)
    before = CU.snapshot(c)
    c.trim_qubits()
    CU.check_unchanged(env, before, c, "trim_qubits leaves the circuit unchanged (deliberately wrong)")


# ------------------------------------------------------------------ shape enumeration
PATTERNS = {"dense": (0, 1, 2), "gap": (0, 2, 3), "far": (1, 8), "unordered": (8, 1, 3)}


def random_spec(rnd, qubits, n_gates, n_sym, kinds=None, p_concrete=0.25):
    """random circuit over the invertible gate set on the given qubit labels"""
    names = kinds or (ROT1 + CROT + FIXED1 + CFIXED + ("XX", "SWAP", "CSWAP"))
    spec, syms = [], ["a", "b", "c"][:n_sym]
    used = 0
    for _ in range(n_gates):
        for _try in range(20):
            nm = rnd.choice(names)
            need = 1 if nm in ROT1 + FIXED1 else (3 if nm == "CSWAP" else 2)
            if need <= len(qubits):
                break
        qs = rnd.sample(list(qubits), need)
        if nm in ROT1 + FIXED1:
            tg, ct = (qs[0],), None
        elif nm in ("XX", "SWAP"):
            tg, ct = (qs[0], qs[1]), None
        elif nm == "CSWAP":
            tg, ct = (qs[0], qs[1]), (qs[2],)
        else:
            tg, ct = (qs[0],), (qs[1],)
        pa = None
        if nm in ROT1 + CROT + ("XX",):
            if used < len(syms) and rnd.random() > p_concrete:
                pa = syms[used]
                used += 1
            elif syms and rnd.random() < 0.5 and used > 0:
                pa = rnd.choice(["-", ""]) + rnd.choice(syms[:used])
            else:
                pa = rnd.choice([0.5, -1.25, math.pi / 2, 5 * math.pi / 2, -2 * math.pi])
        spec.append((nm, tg, ct, pa))
    return spec


def _nm(spec):
    return ".".join(f"{nm}{'_'.join(map(str, tg))}" + (f"c{'_'.join(map(str, ct))}" if ct else "") +
                    (f"[{pa if isinstance(pa, str) else round(pa, 3)}]" if pa is not None else "") for nm, tg, ct, pa in spec)


def shapes(tier, seed):
    rnd = random.Random(seed)
    q = tier == "quick"
    out = []
    seen = set()

    def add(name, fn, kw, **skw):
        if name in seen:
            return
        seen.add(name)
        out.append(Shape(name, fn, kw, modules=MODS, **skw))

    # ---- trimming of qubits that a circuit leaves in a fixed basis state (trim_trivial_circuit): decided in full under C14;
    # the two-gate wires whose classification is easiest to get wrong are repeated here because they are circuit transformations
    from harness import c14 as _c14
    for lay in (["RY.X", "E", "E"], ["H.X", "E", "E"], ["RX.X", "E", "E"], ["RX.RZ", "E", "E"], ["RX.Z", "E", "E"], ["RZ.X", "E", "E"], ["X.RXpi", "E", "E"]):
        out.append(Shape("trim_trivial/" + "|".join(lay), _c14.h_trim,
                         dict(layout=lay, words=[[(0, "Z")], [(0, "Z"), (1, "X")], [(0, "X"), (2, "Z")], [(0, "Y")]]),
                         modules=MODS + tuple(_c14.MODS), max_paths=64, policy=dict(mod_range=(-4, 4))))
    # ---- (a) inverse: fixed core covering every invertible gate kind + seeded sample with index patterns
    core_inv = [
        ([("H", (0,), None, None), ("S", (1,), None, None), ("T", (0,), None, None), ("CNOT", (1,), (0,), None)], 3),
        ([("RX", (0,), None, "a"), ("RY", (1,), None, "b"), ("RZ", (0,), None, "c"), ("PHASE", (1,), None, "a")], None),
        ([("CRX", (1,), (0,), "a"), ("CRY", (0,), (2,), "b"), ("CRZ", (2,), (1,), "c"), ("CPHASE", (0,), (1,), "b")], 4),
        ([("XX", (0, 2), None, "a"), ("SWAP", (2, 1), None, None), ("CSWAP", (0, 1), (2,), None), ("CH", (1,), (0,), None)], None),
        ([("X", (1,), None, None), ("Y", (8,), None, None), ("Z", (1,), None, None), ("CY", (8,), (1,), None)], None),
        ([("CX", (1,), (8, 3), None), ("CZ", (3,), (8,), None), ("CRX", (8,), (1, 3), "a")], 10),
    ]
    for i, (sp, n) in enumerate(core_inv):
        add(f"inverse/core{i}/{_nm(sp)}/n={n}", h_inverse, dict(spec=sp, n_qubits=n))
    for i in range(6 if q else 80):
        pat = rnd.choice(list(PATTERNS))
        sp = random_spec(rnd, PATTERNS[pat], rnd.randint(2, 4), 3)
        n = rnd.choice([None, max(PATTERNS[pat]) + 2])
        add(f"inverse/{pat}/{_nm(sp)}/n={n}", h_inverse, dict(spec=sp, n_qubits=n))
    add("canary/inverse", h_inverse, dict(spec=[("RX", (0,), None, "a"), ("CNOT", (1,), (0,), None)], n_qubits=None, canary=True),
        canary=True)

    # ---- (b) passes
    pol = dict(mod_range=(-6, 6), threshold="assume")      # sums of up to 3 angles in [-4pi, 4pi]
    core_pass = [
        [("RX", (0,), None, "a"), ("RX", (0,), None, "b")],
        [("RZ", (1,), None, "a"), ("H", (0,), None, None), ("RZ", (1,), None, "b")],                 # interleaved on another qubit
        [("RY", (0,), None, "a"), ("CNOT", (1,), (0,), None), ("RY", (0,), None, "b")],              # blocked by an entangling gate
        [("CRX", (1,), (0,), "a"), ("CRX", (1,), (0,), "b")],
        [("CRZ", (8,), (1,), "a"), ("CRZ", (1,), (8,), "b")],                                       # roles swapped: must not merge
        [("PHASE", (0,), None, "a"), ("PHASE", (0,), None, "b"), ("CPHASE", (0,), (2,), "c")],
        [("CPHASE", (2,), (0,), "a"), ("CPHASE", (2,), (0,), "-a")],
        [("H", (0,), None, None), ("H", (0,), None, None), ("RX", (1,), None, "a")],
        [("CNOT", (1,), (0,), None), ("CX", (1,), (0,), None), ("RY", (0,), None, "a"), ("RY", (0,), None, "-a")],
        [("S", (0,), None, None), ("PHASE", (0,), None, "a")],
        [("RX", (1,), None, "a"), ("RX", (8,), None, "b"), ("CNOT", (8,), (1,), None), ("RX", (1,), None, "-a")],
        [("XX", (0, 1), None, "a"), ("XX", (0, 1), None, "-a")],
        [("SWAP", (0, 2), None, None), ("SWAP", (0, 2), None, None), ("RZ", (2,), None, "a")],
        [("CSWAP", (0, 1), (2,), None), ("CSWAP", (0, 1), (2,), None)],
        [("RX", (0,), None, "a"), ("RX", (0,), None, 5 * math.pi / 2), ("RX", (0,), None, "b")],
        [("CRY", (0,), (2,), "a"), ("X", (3,), None, None), ("CRY", (0,), (2,), "-a")],
        [("CNOT", (1,), (0,), None), ("H", (0,), None, None), ("CNOT", (1,), (0,), None), ("RX", (1,), None, "a")],   # blocked on the control only
        [("CPHASE", (1,), (0,), "a"), ("RZ", (0,), None, "b"), ("CPHASE", (1,), (0,), "-a")],                         # commuting gate in between
        [("CRZ", (1,), (0,), "a"), ("H", (0,), None, None), ("CRZ", (1,), (0,), "b")],             # controlled rotations, gate on the CONTROL in between
        [("CRX", (2,), (0, 1), "a"), ("X", (1,), None, None), ("CRX", (2,), (0, 1), "b")],          # ... on one of two controls
        [("CRY", (1,), (0,), "a"), ("H", (1,), None, None), ("CRY", (1,), (0,), "b")],             # ... on the target
        [("CPHASE", (0,), (2,), "a"), ("CNOT", (1,), (2,), None), ("CPHASE", (0,), (2,), "b")],      # control shared with another entangling gate
        [("H", (0,), None, None), ("S", (0,), None, None), ("S", (0,), None, None), ("H", (0,), None, None)],                  # S S = Z, not the identity
        [("RY", (1,), None, "a"), ("T", (1,), None, None), ("T", (1,), None, None), ("T", (1,), None, None), ("T", (1,), None, None), ("CNOT", (0,), (1,), None)],
    ]
    ops = [("merge_rotations", "function"), ("merge_rotations", "method"), ("remove_redundant_gates", "function"),
           ("remove_redundant_gates", "method"), ("simplify", "function"), ("simplify", "method")]
    k = 0
    for sp in core_pass:
        qs = CU.used_qubits([(a, b, c, d, False) for a, b, c, d in sp])
        for (op, form) in ops:
            k += 1
            if q and form == "method" and k % 3:          # quick: method forms on a third of the core
                continue
            n = None if (k % 2 or max(qs) > 4) else max(qs) + 2
            rq = (op != "merge_rotations") and (k % 5 == 0)
            add(f"pass/{op}/{form}/{_nm(sp)}/n={n}/rq={int(rq)}", h_pass,
                dict(spec=sp, n_qubits=n, op=op, form=form, remove_qubits=rq), policy=pol, max_paths=400)
    for i in range(4 if q else 150):
        pat = rnd.choice(list(PATTERNS))
        qsel = PATTERNS[pat][:2] if rnd.random() < 0.5 else PATTERNS[pat]
        sp = random_spec(rnd, qsel, rnd.randint(2, 4), 2, kinds=ROT1 + CROT + ("H", "CNOT", "X", "CZ"), p_concrete=0.1)
        op, form = rnd.choice(ops)
        add(f"pass/{op}/{form}/{pat}/{_nm(sp)}", h_pass, dict(spec=sp, n_qubits=None, op=op, form=form), policy=pol, max_paths=400)
    for mc_ in (0, 1, 2):
        for form_ in ("function", "method"):
            for j_ in (0, 3, 8):
                add(f"pass/simplify/{form_}/max_cycles={mc_}/{_nm(core_pass[j_])}", h_pass,
                    dict(spec=core_pass[j_], n_qubits=None, op="simplify", form=form_, max_cycles=mc_), policy=pol, max_paths=400)
    add("canary/pass/merge", h_pass, dict(spec=core_pass[2], n_qubits=None, op="merge_rotations", form="function", canary=True),
        policy=pol, canary=True)
    add("canary/pass/redundant", h_pass, dict(spec=core_pass[7], n_qubits=None, op="remove_redundant_gates", form="function", canary=True),
        policy=pol, canary=True)

    # ---- (c) remove_small_rotations
    polc = dict(mod_range=(-1, 3), threshold="fork")
    for nm in SMALL_ROT:
        tg, ct = ((1,), (8,)) if nm[0] == "C" else ((1,), None)
        for form in ("function", "method"):
            if q and form == "method" and nm not in ("RX", "CRZ"):
                continue
            sp = [("H", (8,), None, None), (nm, tg, ct, "a")]
            add(f"small/{nm}/{form}", h_small, dict(spec=sp, n_qubits=None, form=form), policy=polc)
    add("small/RX.RY/n=4", h_small, dict(spec=[("RX", (0,), None, "a"), ("CNOT", (1,), (0,), None), ("RY", (1,), None, "b")], n_qubits=4,
                                         form="function"), policy=polc, max_paths=300)
    add("small/RZ/remove_qubits", h_small, dict(spec=[("RZ", (2,), None, "a"), ("X", (0,), None, None)], n_qubits=None, form="function",
                                                remove_qubits=True), policy=polc)
    add("small/PHASE-kept", h_small, dict(spec=[("PHASE", (0,), None, "a"), ("CPHASE", (0,), (1,), "b"), ("XX", (0, 1), None, "a")],
                                          n_qubits=None, form="function"), policy=polc)
    for nm, form in (("RX", "function"), ("CRY", "method"), ("RZ", "method"), ("CRZ", "function")):
        tg, ct = ((1,), (8,)) if nm[0] == "C" else ((1,), None)
        add(f"small/simplify/{nm}/{form}", h_small, dict(spec=[("H", (8,), None, None), (nm, tg, ct, "a")], n_qubits=None, form=form, op="simplify"),
            policy=polc)
    add("canary/small/RX", h_small, dict(spec=[("RX", (0,), None, "a")], n_qubits=None, form="function", canary=True), policy=polc,
        canary=True)

    # ---- (f) Gate.__eq__
    pole = dict(mod_range=(-5, 5))
    for nm in ROT1 + CROT + ("XX",):
        tg = [0, 2] if nm == "XX" else 2
        ct = 0 if nm[0] == "C" else None
        # second parameter b = a + d (a surjective re-parameterisation of the pair (a, b): G(a) G(b)^dagger depends on d only)
        r = 3 if q else 4        # the range is part of the name: a replay file must find the shape it was produced by
        add(f"gate_eq/{nm}/{r}pi", h_gate_eq, dict(n1=nm, n2=nm, tg=tg, ct=ct, p1="a", p2="a+d", rng=(-r, r)), policy=pole)
    add("gate_eq/CRX/multi-control", h_gate_eq, dict(n1="CRX", n2="CRX", tg=1, ct=[0, 3], p1="a", p2="a+d", rng=(-3, 3)), policy=pole)
    add("gate_eq/RX/const", h_gate_eq, dict(n1="RX", n2="RX", tg=0, ct=None, p1="a", p2=3 * math.pi), policy=pole)
    add("gate_eq/CNOT-CX", h_gate_eq, dict(n1="CNOT", n2="CX", tg=1, ct=0, p1=None, p2=None), policy=pole)
    # every ordered pair of DIFFERENT parameter-less gate names on the same qubits (a name-blind comparison must not make
    # different operations "equal"); and pairs of different parameterised names with the same symbolic angle
    import itertools as _it
    for n1_, n2_ in _it.permutations(["CNOT", "CX", "CY", "CZ", "CH"], 2):
        if {n1_, n2_} == {"CNOT", "CX"}:
            continue
        add(f"gate_eq/names/{n1_}-{n2_}", h_gate_eq, dict(n1=n1_, n2=n2_, tg=1, ct=0, p1=None, p2=None), policy=pole)
    for n1_, n2_ in _it.permutations(["H", "X", "Y", "Z", "S", "T"], 2):
        add(f"gate_eq/names/{n1_}-{n2_}", h_gate_eq, dict(n1=n1_, n2=n2_, tg=0, ct=None, p1=None, p2=None), policy=pole)
    for n1_, n2_ in (("CRX", "CRY"), ("CRZ", "CPHASE"), ("RZ", "PHASE"), ("CPHASE", "CRZ"), ("SWAP", "XX")):
        two = n1_ in ("SWAP", "XX")
        add(f"gate_eq/names/{n1_}-{n2_}", h_gate_eq, dict(n1=n1_, n2=n2_, tg=([0, 1] if two else 1), ct=(None if two or n1_ in ("RZ",) else 0),
                                                          p1=(None if n1_ == "SWAP" else "a"), p2="a"), policy=pole)
    add("gate_eq/RX-RY", h_gate_eq, dict(n1="RX", n2="RY", tg=1, ct=None, p1="a", p2="a"), policy=pole)
    add("canary/gate_eq/RX", h_gate_eq, dict(n1="RX", n2="RX", tg=0, ct=None, p1="a", p2="a+d", rng=(-3, 3), canary=True), policy=pole, canary=True)

    # ---- (d) structural operations
    s1 = [("RX", (1,), None, "a"), ("CNOT", (8,), (1,), None), ("RZ", (8,), None, "b")]
    s2 = [("H", (3,), None, None), ("CRY", (0,), (3,), "c"), ("X", (5,), None, None)]
    s3 = [("RY", (0,), None, "a"), ("CZ", (2,), (0,), None), ("XX", (3, 1), None, "b"), ("T", (2,), None, None)]
    s4 = [("RX", (8,), None, "a"), ("H", (1,), None, None), ("CRZ", (3,), (8,), "b")]
    s5 = [("RX", (2,), None, "a"), ("RY", (0,), None, "b"), ("CPHASE", (3,), (2,), "c"), ("H", (0,), None, None)]
    add("struct/copy/far", h_struct, dict(op="copy", spec=s1, n_qubits=None))
    add("struct/copy/n=5", h_struct, dict(op="copy", spec=s3, n_qubits=5))
    add("struct/add/far+gap", h_struct, dict(op="add", spec=s1, n_qubits=None, spec2=s2, n_qubits2=None))
    add("struct/add/n=10+none", h_struct, dict(op="add", spec=s1, n_qubits=10, spec2=s3, n_qubits2=None))
    add("struct/mul/2", h_struct, dict(op="mul", spec=s1, n_qubits=None, arg=2))
    add("struct/mul/3/n=5", h_struct, dict(op="mul", spec=s3[:3], n_qubits=5, arg=3))
    add("struct/trim/far", h_struct, dict(op="trim", spec=s1, n_qubits=None))
    add("struct/trim/unordered/n=10", h_struct, dict(op="trim", spec=s4, n_qubits=10))
    add("struct/trim/gap", h_struct, dict(op="trim", spec=s2, n_qubits=None))
    add("struct/reindex/dense", h_struct, dict(op="reindex", spec=s3, n_qubits=None, arg=(2, 0, 3, 1)))
    add("struct/reindex/n=5", h_struct, dict(op="reindex", spec=s3[:2], n_qubits=5, arg=(4, 3, 2, 1, 0)))
    add("struct/reindex/gap", h_struct, dict(op="reindex", spec=s2, n_qubits=None, arg=(2, 0, 1)))
    add("struct/reindex/far{1,8}", h_struct, dict(op="reindex", spec=s1, n_qubits=None, arg=(0, 1)))
    add("struct/reindex/unordered{8,1,3}", h_struct, dict(op="reindex", spec=s4, n_qubits=None, arg=(0, 1, 2)))
    add("struct/reindex/{3,10}", h_struct, dict(op="reindex", spec=[("RX", (3,), None, "a"), ("H", (10,), None, None)], n_qubits=None,
                                                arg=(5, 6)))
    add("struct/split/two-parts", h_struct, dict(op="split", spec=s5, n_qubits=None))
    add("struct/split/far", h_struct, dict(op="split", spec=[("RX", (8,), None, "a"), ("H", (1,), None, None), ("CNOT", (3,), (8,), None),
                                                             ("RZ", (1,), None, "b")], n_qubits=None))
    add("struct/split_notrim/two-parts", h_struct, dict(op="split_notrim", spec=s5, n_qubits=6))
    add("struct/split/entangled", h_struct, dict(op="split", spec=s3, n_qubits=None))
    add("struct/stack/function", h_struct, dict(op="stack", spec=s1, n_qubits=None, spec2=s2, n_qubits2=None, arg="function"))
    add("struct/stack/method/n", h_struct, dict(op="stack", spec=s4, n_qubits=10, spec2=s3, n_qubits2=5, arg="method"))
    if not q:
        for i in range(80):
            pat = rnd.choice(list(PATTERNS))
            sp = random_spec(rnd, PATTERNS[pat], rnd.randint(2, 4), 3)
            pat2 = rnd.choice(list(PATTERNS))
            sp2 = random_spec(rnd, PATTERNS[pat2], rnd.randint(1, 3), 0)
            op = rnd.choice(["copy", "add", "mul", "trim", "split", "split_notrim", "stack", "reindex"])
            kw = dict(op=op, spec=sp, n_qubits=rnd.choice([None, 10]))
            if op in ("add", "stack"):
                kw.update(spec2=sp2, n_qubits2=None, arg="function")
            if op == "mul":
                kw["arg"] = 2
            if op == "reindex":
                kw["n_qubits"] = None
                nq = len(CU.used_qubits([(a, b, c, d, False) for a, b, c, d in sp]))
                perm = list(range(nq))
                rnd.shuffle(perm)
                kw["arg"] = tuple(perm)
            add(f"struct/{op}/rand{i}/{pat}/{_nm(sp)}", h_struct, kw)
    add("canary/struct/trim", h_struct, dict(op="trim", spec=s1, n_qubits=None, canary=True), canary=True)
    add("canary/struct/stack", h_struct, dict(op="stack", spec=s1, n_qubits=None, spec2=s2, n_qubits2=None, arg="function", canary=True),
        canary=True)

    # ---- (e) Clifford decomposition
    for nm in ROT1:
        add(f"clifford/{nm}", h_clifford, dict(name=nm, ks=list(range(-8, 9))))
        for dl in (1e-6, 1e-9):
            add(f"clifford/{nm}/+{dl}", h_clifford, dict(name=nm, ks=list(range(-8, 9)), delta=dl))
    add("canary/clifford/RY", h_clifford, dict(name="RY", ks=[1], canary=True), canary=True)

    # ---- (g) inputs unchanged by the out-of-place functions
    im = [("RX", (0,), None, "a"), ("RX", (0,), None, "b"), ("H", (1,), None, None), ("H", (1,), None, None), ]
    im2 = [("CRZ", (8,), (1,), "a"), ("CRZ", (8,), (1,), 0.015625), ("X", (3,), None, None)]
    for op in ("remove_small_rotations", "merge_rotations", "remove_redundant_gates", "simplify"):
        add(f"immut/{op}/dense", h_immut, dict(op=op, spec=im, n_qubits=3), policy=dict(mod_range=(-5, 5), threshold="fork"), max_paths=400)
        add(f"immut/{op}/far", h_immut, dict(op=op, spec=im2, n_qubits=None), policy=dict(mod_range=(-5, 5), threshold="fork"), max_paths=400)
    add("immut/mul-one/dense", h_mul_one, dict(spec=im, n_qubits=3), policy=dict(mod_range=(-5, 5), threshold="fork"), max_paths=400)
    add("immut/mul-one/far", h_mul_one, dict(spec=im2, n_qubits=None), policy=dict(mod_range=(-5, 5), threshold="fork"), max_paths=400)
    add("canary/immut/trim", h_immut_canary, dict(spec=s1, n_qubits=None), canary=True)
    return out
