"""C13  Reduced density matrices reproduce energies and electron counts (partial claim, see META)."""
import itertools
import random

import numpy as np

from symx.core import Shape
from symx import refsem as R, shim, cirqstub, fock, symmol
from symx.num import Sym
from harness.c03 import sym_integrals
from harness.c04 import alloc
from harness.c07 import MODS as ANSATZ_MODS, mol, vec, sym_alloc
from harness import c02, c08

PROPERTY = "C13"
MODS = tuple(c08.MODS) + symmol.MODS + ("openfermion.chem.molecular_data",)

META = dict(
    explanation="(a) VQESolver.get_rdm on SYMBOLIC parameter vectors (H2/sto-3g, JW/BK/scBK/JKMN x both orderings, spin-summed "
                "and spin-resolved) through the exact cirq stub: molecule.energy_from_rdms(rdm1, rdm2) == energy_estimation(theta) "
                "identically in theta, the matrices are Hermitian and trace to the number of active electrons (N(N-1) for the "
                "2-RDM). (b) pad_rdms_with_frozen_orbitals_restricted and _unrestricted (per-spin blocks, different alpha/beta integrals and frozen lists) on SYMBOLIC active-space RDM entries and SYMBOLIC "
                "full-space integrals (Tangelo's IntegralSolver seam): energy of the padded matrices on the unfrozen molecule == "
                "energy of the active matrices on the frozen molecule, traces carry the frozen electrons, the arrays passed in "
                "are unchanged. (c) molecule.energy_from_rdms / rdms.energy_from_rdms index conventions against the textbook "
                "contraction E = E0 + sum h_pq g_pq + 1/2 sum (pq|rs) G_pqrs on symbolic inputs.",
    bounds=dict(quick="H2 (4 spin-orbitals) UCCSD with 2 symbolic parameters; padding with <=4 spatial orbitals, <=1 frozen occupied + <=1 frozen virtual",
                thorough="more encodings/orderings and frozen patterns"),
    outside=["RDMs of the FCI / CCSD / MP2 solvers (PySCF compiled code; auxiliary concrete shapes only)", "IEEE rounding", "sampled (n_shots) RDMs",
             "padding with more than 4 (restricted) / 3 (unrestricted) spatial orbitals"],
    stubs=["cirq simulators -> exact stubs", "pyscf.lib.takebak_2d -> out[idx[:,None], idy] += a (its documented contract) when arrays are symbolic",
           "IntegralSolverPySCF -> SymIntegralSolver for (b), (c)"],
    trusted_base=["symx.refsem", "textbook RDM energy contraction"],
)


def preload():
    import cirq  # noqa
    from tangelo.algorithms.variational import VQESolver  # noqa
    cirqstub.self_check()


def h_vqe_rdm(env, opts, patt, sum_spin, canary=False, trace_mode="ne", definition=False, call_ref=None):
    """trace_mode: 'ne' - the state conserves N (JW, closed shell): traces are N and N(N-1);  'state' - the traces equal <N> and
    <N(N-1)> of the prepared state (word-by-word Trotterised open-shell UCCSD under BK leaves the N sector: the property only
    demands integer traces 'whenever the state conserves it');  'skip' - scBK of such a state: N is not defined on the reduced
    register, only the energy identity and the symmetries are checked"""
    opts = dict(opts)
    key = opts.pop("molecule_key")
    if key == "SYM2":
        # 2 orbitals / 2 electrons with SYMBOLIC integrals: every float-rounding artefact of concrete integrals is avoided
        const, h, eri = sym_integrals(env, 2)
        with alloc(env):
            molecule = symmol.molecule(2, 2, 0, const, h, eri, env.symbolic, frozen=None)
        opts["initial_var_params"] = [0.25, -0.5]
    elif key == "SYM2U":
        # unrestricted reference: 2 orbitals / 2 electrons with DIFFERENT symbolic alpha and beta integrals (get_rdm_uhf route)
        from harness.c04 import _sym8, _sym_ab
        const = env.real("E0", -2, 2)
        ha, eaa = _sym8(env, 2, "a")
        hb, ebb = _sym8(env, 2, "b")
        eab = _sym_ab(env, 2)
        with alloc(env):
            molecule = symmol.molecule(2, 2, 0, const, ha, eaa, env.symbolic, frozen=None, uhf=True, h_b=hb, eri_ab=eab, eri_bb=ebb)
        opts["initial_var_params"] = "ones"
    elif key == "SYM3T":
        # 3 orbitals / 2 electrons / TRIPLET (restricted open-shell reference) with symbolic integrals
        const, h, eri = sym_integrals(env, 3)
        with alloc(env):
            molecule = symmol.molecule(3, 2, 2, const, h, eri, env.symbolic, frozen=None)
        opts["initial_var_params"] = "ones"      # the default ('mp2') would run PySCF on the placeholder geometry
    else:
        molecule = mol(key)
    opts["molecule"] = molecule
    try:
        with alloc(env):
            s = c08.make_solver(env, opts)
        if patt is None:
            k = s.ansatz.n_var_params
            patt = ("ss" + "p" * k)[:k]
        th = vec(env, "th", patt)
        with sym_alloc(env):
            e = s.energy_estimation(th)
            if call_ref is not None:
                # documented per-call argument get_rdm(..., ref_state=circuit): the RDMs are those of circuit + ansatz, whatever
                # reference the solver itself was built with
                r1, r2 = s.get_rdm(th, sum_spin=sum_spin, ref_state=call_ref)
            else:
                r1, r2 = s.get_rdm_uhf(th) if getattr(molecule, "uhf", False) else s.get_rdm(th, sum_spin=sum_spin)
            if trace_mode == "state" or definition:
                nq_ = s.ansatz.circuit.width
                st_ = c08.full_circuit_state(s, nq_, extra_ref=call_ref) if call_ref is not None else c08.full_circuit_state(s, nq_)
                amps = c08.decode_amplitudes(st_, molecule.n_active_sos, opts.get("qubit_mapping", "jw"), opts.get("up_then_down", False))
    finally:
        c02._restore()
    n_e = molecule.n_active_electrons
    if getattr(molecule, "uhf", False):
        # per-spin blocks: ([alpha, beta], [alpha-alpha, alpha-beta, beta-beta]); energy identity and the electron count per spin
        with sym_alloc(env):
            e2 = molecule.energy_from_rdms(list(r1), list(r2))
        env.check_eq(e2, e, "UHF: energy_from_rdms(get_rdm(theta)) == energy_estimation(theta)")
        tr = R.C(0)
        for blk in r1:
            for i in range(blk.shape[0]):
                tr = tr + blk[i, i]
        env.check_eq(tr, sum(n_e) if isinstance(n_e, (list, tuple)) else n_e, "UHF: traces of the two 1-RDM blocks add up to the number of active electrons")
        return
    if sum_spin and call_ref is None:
        with sym_alloc(env):
            e2 = molecule.energy_from_rdms(r1, r2)
        if canary:
            e2 = e2 + 1
        env.check_eq(e2, e, "energy_from_rdms(get_rdm(theta)) == energy_estimation(theta)")
    n = r1.shape[0]
    tr = R.C(0)
    for i in range(n):
        tr = tr + r1[i, i]
    if trace_mode == "ne":
        env.check_eq(tr, n_e, "trace of the 1-RDM == number of active electrons")
        want2 = n_e * (n_e - 1)
    elif trace_mode == "state":
        n1, want2, tot = R.C(0), R.C(0), R.C(0)
        for f, a in amps.items():
            p = a * R.n_conj(a)
            tot, n1, want2 = tot + p, n1 + sum(f) * p, want2 + sum(f) * (sum(f) - 1) * p
        env.check_eq(tot, 1, "decoded determinants carry the whole norm")
        env.check_eq(tr, n1, "trace of the 1-RDM == <N> of the prepared state")
    env.check_vec_eq([r1[i, j] for i in range(n) for j in range(n)], [R.n_conj(r1[j, i]) for i in range(n) for j in range(n)], "1-RDM Hermitian")
    if definition:
        # entry by entry against the DEFINITION on the decoded state: D[p,q] = <a+_p a_q>, G[p,s,q,r] = <a+_p a+_q a_r a_s>
        # (spin-orbital indices, or summed over the spin labels of each spatial index); symbolic integrals, so every spin-allowed
        # term of the Hamiltonian is present
        n_so = molecule.n_active_sos

        def expect(term):
            tot_ = R.C(0)
            for f, a in amps.items():
                cond, par, g = fock.apply_monomial([bool(x) for x in f], term)
                if not cond:
                    continue
                b = amps.get(tuple(int(x) for x in g))
                if b is None:
                    continue
                v = R.n_conj(b) * a
                tot_ = tot_ - v if par else tot_ + v
            return tot_
        same = lambda *ix: len({i % 2 for i in ix}) == 1       # noqa
        if sum_spin:
            want1 = [[R.C(0)] * n for _ in range(n)]
            for p_, q_ in itertools.product(range(n_so), repeat=2):
                if same(p_, q_):
                    want1[p_ // 2][q_ // 2] = want1[p_ // 2][q_ // 2] + expect(((p_, 1), (q_, 0)))
        else:
            want1 = [[expect(((p_, 1), (q_, 0))) if same(p_, q_) else R.C(0) for q_ in range(n)] for p_ in range(n)]
        env.check_vec_eq([r1[i, j] for i in range(n) for j in range(n)], [want1[i][j] for i in range(n) for j in range(n)],
                         f"1-RDM entry by entry == <a+_p a_q> of the prepared state ({'spin-summed' if sum_spin else 'spin-orbital'})")
        want2_ = {}
        for p_, q_, r_, s_ in itertools.product(range(n_so), repeat=4):
            if p_ == q_ or r_ == s_ or not (same(p_, s_) and same(q_, r_)):
                continue
            key_ = (p_ // 2, s_ // 2, q_ // 2, r_ // 2) if sum_spin else (p_, s_, q_, r_)
            want2_[key_] = want2_.get(key_, R.C(0)) + expect(((p_, 1), (q_, 1), (r_, 0), (s_, 0)))
        idx_ = list(itertools.product(range(n), repeat=4))
        env.check_vec_eq([r2[i] for i in idx_], [want2_.get(i, R.C(0)) for i in idx_],
                         f"2-RDM entry by entry: G[p,s,q,r] == <a+_p a+_q a_r a_s> of the prepared state ({'spin-summed' if sum_spin else 'spin-orbital'})")
    tr2 = R.C(0)
    for i in range(n):
        for j in range(n):
            tr2 = tr2 + r2[i, i, j, j]
    if trace_mode != "skip":
        env.check_eq(tr2, want2, "sum_ij G[i,i,j,j] == N(N-1)" if trace_mode == "ne" else "sum_ij G[i,i,j,j] == <N(N-1)> of the prepared state")
    idx = list(itertools.product(range(n), repeat=4))
    env.check_vec_eq([r2[p, q, r, s] for p, q, r, s in idx], [R.n_conj(r2[q, p, s, r]) for p, q, r, s in idx], "2-RDM Hermitian: G[pqrs] == conj(G[qpsr])")
    env.check_vec_eq([r2[p, q, r, s] for p, q, r, s in idx], [r2[r, s, p, q] for p, q, r, s in idx], "2-RDM pair symmetry: G[pqrs] == G[rspq]")


def sym_rdms(env, n):
    """arbitrary real symmetric 1-RDM and 2-RDM with the pair-exchange and Hermitian symmetries (chemist order G[p,q,r,s])"""
    g1 = [[None] * n for _ in range(n)]
    for i in range(n):
        for j in range(i, n):
            g1[i][j] = g1[j][i] = env.real(f"d{i}{j}", -2, 2)
    g2 = [[[[None] * n for _ in range(n)] for _ in range(n)] for _ in range(n)]
    for p, q, r, s in itertools.product(range(n), repeat=4):
        if g2[p][q][r][s] is None:
            v = env.real(f"D{p}{q}{r}{s}", -2, 2)
            for (a, b, c, d) in ((p, q, r, s), (r, s, p, q), (q, p, s, r), (s, r, q, p)):
                g2[a][b][c][d] = v
    return g1, g2


def _takebak_patch(env):
    import pyscf.lib as L
    if not env.symbolic:
        return lambda: None
    orig = L.takebak_2d

    def takebak_2d(out, a, idx, idy, thread_safe=True):
        for i, x in enumerate(idx):
            for j, y in enumerate(idy):
                out[x, y] = out[x, y] + a[i, j]
        return out
    L.takebak_2d = takebak_2d
    return lambda: setattr(L, "takebak_2d", orig)


def textbook_energy(const, h, eri, g1, g2, n):
    e = R.C(const)
    for p in range(n):
        for q in range(n):
            e = e + h[p][q] * g1[p][q]
    for p, q, r, s in itertools.product(range(n), repeat=4):
        e = e + R.C(1) / 2 * eri[p][q][r][s] * g2[p][q][r][s]
    return e


def arr(env, data):
    return shim.SymArray(data) if env.symbolic else np.array(data, dtype=float)


def h_energy_convention(env, n_mos, ne, frozen):
    """molecule.energy_from_rdms on arbitrary symbolic RDMs == textbook contraction with the active-space (folded) integrals,
    the latter taken from the molecule itself and cross-checked against the fermionic Hamiltonian in C04"""
    const, h, eri = sym_integrals(env, n_mos)
    with alloc(env):
        m = symmol.molecule(n_mos, ne, 0, const, h, eri, env.symbolic, frozen=frozen)
        na = len(m.active_mos)
        g1, g2 = sym_rdms(env, na)
        e = m.energy_from_rdms(arr(env, g1), arr(env, g2))
        c0, h1, h2 = m.get_active_space_integrals()
    # h2 is in openfermion order: h2[p,q,r,s] = (ps|qr)  ->  chemists' (pq|rs) = h2[p,r,s,q]
    eri_act = [[[[h2[p, r, s, q] for s in range(na)] for r in range(na)] for q in range(na)] for p in range(na)]
    h_act = [[h1[p, q] for q in range(na)] for p in range(na)]
    env.check_eq(e, textbook_energy(c0, h_act, eri_act, g1, g2, na), "energy_from_rdms == E0 + sum h g + 1/2 sum (pq|rs) G[pqrs]")


def h_pad(env, n_mos, ne, frozen, canary=False, spin=0):
    from tangelo.toolboxes.molecular_computation.rdms import pad_rdms_with_frozen_orbitals_restricted
    const, h, eri = sym_integrals(env, n_mos)
    restore = _takebak_patch(env)
    try:
        with alloc(env):
            m_fr = symmol.molecule(n_mos, ne, spin, const, h, eri, env.symbolic, frozen=frozen)
            m_full = symmol.molecule(n_mos, ne, spin, const, h, eri, env.symbolic, frozen=None)
            na = len(m_fr.active_mos)
            g1, g2 = sym_rdms(env, na)
            a1, a2 = arr(env, g1), arr(env, g2)
            snap1, snap2 = [x for x in a1.reshape(-1)], [x for x in a2.reshape(-1)]
            p1, p2 = pad_rdms_with_frozen_orbitals_restricted(m_fr, a1, a2)
            after1, after2 = [x for x in a1.reshape(-1)], [x for x in a2.reshape(-1)]
            e_act = m_fr.energy_from_rdms(arr(env, g1), arr(env, g2))
            e_full = m_full.energy_from_rdms(p1, p2)
    finally:
        restore()
    if canary:
        e_full = e_full + const
    env.check_eq(e_full, e_act, f"energy of padded RDMs on the unfrozen molecule == energy of active RDMs with folded integrals (frozen={frozen})")
    tr_a, tr_p = R.C(0), R.C(0)
    for i in range(na):
        tr_a = tr_a + g1[i][i]
    for i in range(n_mos):
        tr_p = tr_p + p1[i, i]
    env.check_eq(tr_p, tr_a + 2 * len(m_fr.frozen_occupied), "trace of padded 1-RDM == active trace + 2 per frozen occupied orbital")
    env.check_vec_eq(after1, snap1, "pad_rdms leaves the 1-RDM passed in unchanged")
    env.check_vec_eq(after2, snap2, "pad_rdms leaves the 2-RDM passed in unchanged")


def _sym_rdm_block(env, pre, n1, n2=None, same=True):
    """arbitrary real RDM blocks: 1-RDM symmetric; same-spin 2-RDM with pair-exchange + Hermitian symmetry; the alpha-beta block
    G[p,q,r,s] (p,q alpha; r,s beta) with the Hermitian symmetry only"""
    n2 = n1 if n2 is None else n2
    g2 = [[[[None] * n2 for _ in range(n2)] for _ in range(n1)] for _ in range(n1)]
    for p, q, r, s in itertools.product(range(n1), range(n1), range(n2), range(n2)):
        if g2[p][q][r][s] is None:
            v = env.real(f"{pre}{p}{q}{r}{s}", -2, 2)
            img = ((p, q, r, s), (r, s, p, q), (q, p, s, r), (s, r, q, p)) if same else ((p, q, r, s), (q, p, s, r))
            for (a, b, c, d) in img:
                g2[a][b][c][d] = v
    return g2


def h_pad_unrestricted(env, n_mos, ne, spin, frozen, canary=False):
    """pad_rdms_with_frozen_orbitals_unrestricted on SYMBOLIC per-spin RDM blocks, DIFFERENT alpha/beta integrals and per-spin
    frozen lists: energy of the padded blocks on the unfrozen molecule == energy of the active blocks on the frozen molecule"""
    from tangelo.toolboxes.molecular_computation.rdms import pad_rdms_with_frozen_orbitals_unrestricted
    from harness.c04 import _sym8, _sym_ab
    const = env.real("E0", -2, 2)
    ha, eaa = _sym8(env, n_mos, "a")
    hb, ebb = _sym8(env, n_mos, "b")
    eab = _sym_ab(env, n_mos)
    restore = _takebak_patch(env)
    try:
        with alloc(env):
            kw = dict(uhf=True, h_b=hb, eri_ab=eab, eri_bb=ebb)
            m_fr = symmol.molecule(n_mos, ne, spin, const, ha, eaa, env.symbolic, frozen=frozen, **kw)
            m_full = symmol.molecule(n_mos, ne, spin, const, ha, eaa, env.symbolic, frozen=None, **kw)
            na, nb = m_fr.n_active_mos
            g1a = [[None] * na for _ in range(na)]
            g1b = [[None] * nb for _ in range(nb)]
            for g, n_, pre in ((g1a, na, "da"), (g1b, nb, "db")):
                for i in range(n_):
                    for j in range(i, n_):
                        g[i][j] = g[j][i] = env.real(f"{pre}{i}{j}", -2, 2)
            gaa, gbb = _sym_rdm_block(env, "Daa", na), _sym_rdm_block(env, "Dbb", nb)
            gab = _sym_rdm_block(env, "Dab", na, nb, same=False)
            one = (arr(env, g1a), arr(env, g1b))
            two = (arr(env, gaa), arr(env, gab), arr(env, gbb))
            snaps = [[x for x in a.reshape(-1)] for a in one + two]
            p1, p2 = pad_rdms_with_frozen_orbitals_unrestricted(m_fr, one, two)
            afters = [[x for x in a.reshape(-1)] for a in one + two]
            e_act = m_fr.energy_from_rdms([arr(env, g1a), arr(env, g1b)], [arr(env, gaa), arr(env, gab), arr(env, gbb)])
            e_full = m_full.energy_from_rdms(list(p1), list(p2))
    finally:
        restore()
    if canary:
        e_full = e_full + const
    env.check_eq(e_full, e_act, f"UHF: energy of padded RDM blocks on the unfrozen molecule == energy of the active blocks with folded integrals (frozen={frozen})")
    for sp, (g, n_) in enumerate(((g1a, na), (g1b, nb))):
        tr_a, tr_p = R.C(0), R.C(0)
        for i in range(n_):
            tr_a = tr_a + g[i][i]
        for i in range(n_mos):
            tr_p = tr_p + p1[sp][i, i]
        env.check_eq(tr_p, tr_a + len(m_fr.frozen_occupied[sp]), f"UHF: trace of padded 1-RDM (spin {sp}) == active trace + 1 per frozen occupied orbital")
    for k, (a, b) in enumerate(zip(afters, snaps)):
        env.check_vec_eq(a, b, f"UHF: pad_rdms leaves input block {k} unchanged")


def h_aux_solver_rdm(env, key, solver):
    """AUXILIARY concrete shape (no solver role; PySCF numerics): the RDMs of the classical solvers reproduce that solver's
    energy through molecule.energy_from_rdms, are symmetric and trace to the number of active electrons (1e-6)."""
    from tangelo import SecondQuantizedMolecule
    from tangelo.algorithms.classical import FCISolver, CCSDSolver
    from harness.c04 import AUX_MOLS, _XYZ
    spec = AUX_MOLS[key]
    from tangelo.algorithms.classical import MP2Solver
    with shim.concrete_mode():
        m = SecondQuantizedMolecule(_XYZ[spec["xyz"]], q=spec["q"], spin=spec["spin"], basis="sto-3g", frozen_orbitals=spec["frozen"], uhf=spec["uhf"])
        s = {"fci": FCISolver, "ccsd": CCSDSolver, "mp2": MP2Solver}[solver](m)
        e = float(s.simulate())
        if solver == "mp2":
            s.get_mp2_amplitudes()      # a query in between must not disturb the density matrices
        r1, r2 = s.get_rdm()
        e2 = float(m.energy_from_rdms(r1, r2))
        r1b, r2b = s.get_rdm()
        e2b = float(m.energy_from_rdms(r1b, r2b))
        e3 = e4 = None
        if not spec["uhf"] and spec["frozen"] is None and solver != "mp2":
            # the same solver object used again after the molecule's orbitals were rotated (occupied-virtual mixing): the new
            # density matrices belong to the new orbitals
            C = np.array(m.mo_coeff, dtype=float).copy()
            i, j = 0, C.shape[1] - 1
            ci, cj = C[:, i].copy(), C[:, j].copy()
            C[:, i], C[:, j] = np.cos(0.3) * ci + np.sin(0.3) * cj, -np.sin(0.3) * ci + np.cos(0.3) * cj
            m.mo_coeff = C
            if solver == "fci":
                e3 = float(s.simulate())
                q1, q2 = s.get_rdm()
                e4 = float(m.energy_from_rdms(q1, q2))
    env.check_true(abs(e - e2) < 1e-6, f"{solver}: energy_from_rdms(get_rdm()) == solver energy [{key}]", detail=f"{e2} vs {e}")
    env.check_true(abs(e2b - e2) < 1e-9, f"{solver}: a second get_rdm() gives the same matrices [{key}]", detail=f"{e2b} vs {e2}")
    if e3 is not None:
        env.check_true(abs(e3 - e) < 1e-6, f"{solver}: energy unchanged by an orbital rotation without frozen orbitals [{key}]", detail=f"{e3} vs {e}")
        env.check_true(abs(e4 - e3) < 1e-6, f"{solver}: after simulate() in rotated orbitals, get_rdm() reproduces the energy with the new integrals [{key}]",
                       detail=f"{e4} vs {e3}")
    if not spec["uhf"]:
        r1 = np.asarray(r1)
        r2 = np.asarray(r2)
        ne = m.n_active_electrons
        env.check_true(abs(np.trace(r1) - ne) < 1e-6, f"{solver}: trace of the 1-RDM == active electrons [{key}]", detail=str(np.trace(r1)))
        env.check_true(float(np.abs(r1 - r1.T.conj()).max()) < 1e-8, f"{solver}: 1-RDM Hermitian [{key}]")
        tr2 = float(np.einsum("iijj->", r2).real)
        # (the MP2 2-RDM of PySCF is a perturbative, not N-representable density: its pair trace is N(N-1) only to second order)
        env.check_true(solver == "mp2" or abs(tr2 - ne * (ne - 1)) < 1e-6, f"{solver}: sum_ij G[iijj] == N(N-1) [{key}]", detail=str(tr2))


def shapes(tier, seed):
    from tangelo.algorithms.variational import BuiltInAnsatze
    out = []
    maps = [("jw", False), ("bk", False), ("scbk", False), ("jkmn", False)]
    if tier == "thorough":
        maps += [("jw", True), ("bk", True), ("scbk", True), ("jkmn", True)]      # bk/utd=1 needs ~150 s per shape: thorough only
    for mp, utd in maps:
        for ss in (True, False):
            if not ss and (mp, utd) not in (("jw", False), ("bk", True), ("bk", False)):
                continue
            out.append(Shape(f"vqe_rdm/sym2/{mp}/utd={int(utd)}/sumspin={int(ss)}", h_vqe_rdm,
                             dict(opts=dict(molecule_key="SYM2", qubit_mapping=mp, up_then_down=utd, ansatz=BuiltInAnsatze.UCCSD), patt="ss", sum_spin=ss),
                             modules=MODS, max_paths=32))
    for mp, utd in (("scbk", True),) + ((("jw", False), ("scbk", False), ("bk", True), ("bk", False), ("jw", True)) if tier == "thorough" else ()):
        tm = "skip" if mp == "scbk" else ("state" if mp == "bk" else "ne")
        out.append(Shape(f"vqe_rdm/sym3-triplet/{mp}/utd={int(utd)}", h_vqe_rdm,
                         dict(opts=dict(molecule_key="SYM3T", qubit_mapping=mp, up_then_down=utd, ansatz=BuiltInAnsatze.UCCSD),
                              patt=(None if tier == "thorough" else "sp"), sum_spin=True, trace_mode=tm), modules=MODS, max_paths=32))
    for mp, utd in (("jw", False),) + ((("bk", True), ("scbk", True)) if tier == "thorough" else ()):
        out.append(Shape(f"vqe_rdm/sym2-uhf/{mp}/utd={int(utd)}", h_vqe_rdm,
                         dict(opts=dict(molecule_key="SYM2U", qubit_mapping=mp, up_then_down=utd, ansatz=BuiltInAnsatze.UCCSD), patt=None, sum_spin=True),
                         modules=MODS, max_paths=32))
    out.append(Shape("vqe_rdm/sym2/jw/refstate-override", h_vqe_rdm,
                     dict(opts=dict(molecule_key="SYM2", qubit_mapping="jw", up_then_down=False, ansatz=BuiltInAnsatze.UCCSD, ref_state=[1, 0, 0, 1]),
                          patt="ss", sum_spin=True), modules=MODS, max_paths=32))
    # entry-by-entry definition of the RDMs, also for states with COMPLEX amplitudes (phase gates in the reference circuit)
    from tangelo.linq import Circuit as _C, Gate as _G
    # (|1000> + i|0010>)/sqrt2 (x) one beta electron: the one-body element <a+_0 a_2> of the reference is i/2
    # (the ansatz circuit adds its own X0 X1 after this reference: (|0000> + i|1010>)/sqrt2 becomes (|1100> + i|0110>)/sqrt2)
    cref = _C([_G("H", 0), _G("CNOT", 2, 0), _G("S", 2), _G("T", 3)], n_qubits=4)
    for nm_, mp_, ss_, rs_ in (("jw/sumspin=1", "jw", True, None), ("jw/sumspin=0", "jw", False, None), ("bk/sumspin=1", "bk", True, None),
                               ("jw/complex-ref/sumspin=1", "jw", True, cref), ("jw/complex-ref/sumspin=0", "jw", False, cref)):
        o_ = dict(molecule_key="SYM2", qubit_mapping=mp_, up_then_down=False, ansatz=BuiltInAnsatze.UCCSD)
        if rs_ is not None:
            o_["ref_state"] = rs_
        out.append(Shape(f"vqe_rdm/definition/sym2/{nm_}", h_vqe_rdm, dict(opts=o_, patt="ss", sum_spin=ss_, trace_mode="state", definition=True),
                         modules=MODS, max_paths=32))
    other_ref = _C([_G("X", 0), _G("X", 3)], n_qubits=4)
    for ss_ in (True, False):
        out.append(Shape(f"vqe_rdm/definition/sym2/jw/ref_state-argument/sumspin={int(ss_)}", h_vqe_rdm,
                         dict(opts=dict(molecule_key="SYM2", qubit_mapping="jw", up_then_down=False, ansatz=BuiltInAnsatze.UCCSD, ref_state=cref),
                              patt="ss", sum_spin=ss_, trace_mode="state", definition=True, call_ref=other_ref), modules=MODS, max_paths=32))
    out.append(Shape("canary/vqe_rdm", h_vqe_rdm, dict(opts=dict(molecule_key="SYM2", qubit_mapping="jw", up_then_down=False, ansatz=BuiltInAnsatze.UCCSD),
                                                        patt="ss", sum_spin=True, canary=True), modules=MODS, max_paths=32, canary=True))
    from harness.c04 import AUX_MOLS
    for key in AUX_MOLS:
        if AUX_MOLS[key].get("basis") or AUX_MOLS[key].get("charges"):
            continue            # non-minimal-basis / embedded entries are for the Hamiltonian checks of C04 only
        for sv in ("fci", "ccsd", "mp2"):
            if AUX_MOLS[key]["uhf"] and sv == "fci":
                continue
            if sv == "mp2" and (AUX_MOLS[key]["uhf"] or AUX_MOLS[key]["frozen"] is not None or AUX_MOLS[key]["spin"]):
                continue            # MP2 density matrices: closed shell, no frozen orbitals (the solver refuses the others)
            out.append(Shape(f"aux/solver_rdm/{sv}/{key}", h_aux_solver_rdm, dict(key=key, solver=sv), modules=()))
    pads = [(3, 4, [0]), (4, 4, [0, 3]), (3, 2, [2]), (4, 6, [0, 1])]
    if tier == "thorough":
        pads += [(4, 4, [0]), (4, 6, [0]), (4, 4, [3]), (4, 4, [1, 3])]
    for (n, ne, fr) in pads:
        try_name = f"pad/n{n}e{ne}/{fr}"
        out.append(Shape(try_name, h_pad, dict(n_mos=n, ne=ne, frozen=fr), modules=MODS, max_paths=8))
    # restricted OPEN-shell references (singly occupied orbitals)
    opads = [(4, 4, 2, [0]), (3, 2, 2, [2]), (4, 3, 1, [0, 3])]
    if tier == "thorough":
        opads += [(4, 4, 2, [0, 3]), (4, 5, 1, [0]), (4, 2, 2, [3])]
    for (n, ne, sp, fr) in opads:
        out.append(Shape(f"pad/rohf/n{n}e{ne}s{sp}/{fr}", h_pad, dict(n_mos=n, ne=ne, frozen=fr, spin=sp), modules=MODS, max_paths=8))
    upads = [(3, 3, 1, [[0], []]), (3, 4, 0, [[0], [0, 2]]), (3, 3, 1, [[0, 2], [0]]),
             (3, 2, 0, [[2], [1]]), (3, 4, 0, [[0, 2], [0, 1]])]          # same number of frozen orbitals per spin, different indices
    if tier == "thorough":
        upads += [(3, 4, 0, [[], [1]]), (3, 5, 1, [[0, 1], [0]]), (3, 2, 0, [[2], []]), (3, 3, 1, [[1], [2]])]
    for (n, ne, sp, fr) in upads:
        out.append(Shape(f"pad_uhf/n{n}e{ne}s{sp}/{fr}", h_pad_unrestricted, dict(n_mos=n, ne=ne, spin=sp, frozen=fr), modules=MODS, max_paths=8))
    out.append(Shape("canary/pad_uhf", h_pad_unrestricted, dict(n_mos=3, ne=3, spin=1, frozen=[[0], []], canary=True), modules=MODS, max_paths=8, canary=True))
    out.append(Shape("canary/pad", h_pad, dict(n_mos=3, ne=4, frozen=[0], canary=True), modules=MODS, max_paths=8, canary=True))
    for (n, ne, fr) in [(2, 2, None), (3, 4, [0]), (3, 2, [2])]:
        out.append(Shape(f"energy_convention/n{n}e{ne}/{fr}", h_energy_convention, dict(n_mos=n, ne=ne, frozen=fr), modules=MODS, max_paths=8))
    return out
