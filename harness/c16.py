"""C16  Operator arithmetic returns correct values and never mutates operands."""
import copy
import itertools
import random

from symx.core import Shape
from symx import opalg as A
from symx.num import SymEscape
from symx.path import Infeasible

PROPERTY = "C16"
MF_MOD = "tangelo.toolboxes.operators.multiformoperator"
MODS = (MF_MOD,)

# Tangelo-subclass (op) base-class instance is rejected by openfermion's own `isinstance(other, type(self))` gate
# (TypeError).  The property quantifies over mixed Tangelo/openfermion operands, so a rejection is reported as a
# violation (group qmix/, label "... is carried out (no exception)").  Set to False to accept a clean TypeError that
# leaves both operands unchanged.
REJECTION_IS_VIOLATION = True

META = dict(
    explanation="(a) FermionOperator / QubitOperator / QubitHamiltonian of Tangelo and the plain openfermion classes are "
                "built with SYMBOLIC complex coefficients over enumerated term sets and combined with + - * (operator or "
                "scalar on either side), unary minus, division by a scalar and the in-place forms; the returned operator "
                "is compared coefficient-wise (solver, all coefficient values at once) with a dict-based reference algebra "
                "written from the textbook rules (symx.opalg: Pauli multiplication table; fermionic products by "
                "concatenation, both sides brought to normal order with an independent CAR normal-ordering routine), and "
                "value snapshots (terms, coefficients, n_spinorbitals/n_electrons/spin/mapping/up_then_down) of both "
                "operands taken before the operation must be unchanged afterwards (right operand only for in-place forms). "
                "Chains (c=a+b; d=a*b / in-place update of a result / a-a / c=a-b; e=b+a / c=s*a; d=a+b) expose aliasing. "
                "QubitHamiltonian (+, +=, ==) plain QubitOperator must work as its docstrings say. "
                "(b) MultiformOperator: integer/binary encodings against the documented table, collapse() and __mul__ with "
                "symbolic factors (numpy proxy allocating object arrays) against the reference Pauli product, do_commute "
                "(global and term-resolved) against term-wise commutation of the words.",
    bounds=dict(quick="fermionic: pool of 10 ladder strings on <=3 modes, operands of 1-2 terms, 6 seeded operand pairs per "
                      "(class pair, operation); qubit: pool of 10 Pauli words on <=3 qubits, same scheme; MultiformOperator: all "
                      "256 pairs of words on 2 qubits (one term each), seeded 2-term operands on 2-3 qubits",
                thorough="same pools, 24 operand pairs per (class pair, operation); MultiformOperator: all word pairs n<=2, "
                         "3-qubit seeded (64 word pairs, 60 two-term operand pairs)"),
    outside=["IEEE rounding", "coefficients of non-identically-zero combinations falling below openfermion's 1e-8 drop "
             "threshold (threshold-assume policy)", "BosonOperator and operators of other openfermion classes",
             "operators with more than 2 terms per operand or more than 3 modes/qubits",
             "do_commute / encodings take concrete Pauli words (no coefficient dependence): enumerated, not symbolic",
             "MultiformOperator.get_kernel (not part of the property statement); remove_terms / compress only as histories before the "
             "product and the commutation test (multiform/history/*, enumerated)"],
    stubs=[], trusted_base=["symx.opalg reference algebra (cross-checked against pure-openfermion control shapes)"],
)


def preload():
    import tangelo.toolboxes.operators  # noqa
    import tangelo.toolboxes.operators.multiformoperator  # noqa


# ------------------------------------------------------------------ operand construction
NAMES = {"F": "FermionOperator", "Fa": "FermionOperator[n_spinorbitals=4,n_electrons=2,spin=0]",
         "oF": "openfermion.FermionOperator", "Q": "QubitOperator", "oQ": "openfermion.QubitOperator",
         "H": "QubitHamiltonian[JW,up_then_down=True]", "H2": "QubitHamiltonian[BK,up_then_down=True]",
         "H3": "QubitHamiltonian[JW,up_then_down=False]", "H4": "QubitHamiltonian[BK,up_then_down=False]",
         "Hb": "QubitHamiltonian[bare]", "s": "scalar", None: ""}
ATTRS = ("n_spinorbitals", "n_electrons", "spin", "mapping", "up_then_down")


def _new(cls):
    import openfermion as of
    from tangelo.toolboxes.operators import FermionOperator, QubitOperator, QubitHamiltonian
    if cls == "F":
        return FermionOperator()
    if cls == "Fa":
        return FermionOperator(n_spinorbitals=4, n_electrons=2, spin=0)
    if cls == "oF":
        return of.FermionOperator()
    if cls == "Q":
        return QubitOperator()
    if cls == "oQ":
        return of.QubitOperator()
    if cls == "H":
        return QubitHamiltonian(mapping="JW", up_then_down=True)
    if cls == "H2":
        return QubitHamiltonian(mapping="BK", up_then_down=True)
    if cls == "H3":
        return QubitHamiltonian(mapping="JW", up_then_down=False)
    if cls == "H4":
        return QubitHamiltonian(mapping="BK", up_then_down=False)
    if cls == "Hb":
        return QubitHamiltonian()
    raise ValueError(cls)


def make(env, cls, terms, prefix, real=False, nonzero=False):
    """(operand, reference dict).  Scalars: terms is None."""
    if cls == "s":
        s = env.real(prefix, lo=-4, hi=4, nonzero=True) if (real or nonzero) else env.complex(prefix)
        return s, s
    coefs = [(env.real(f"{prefix}{i}", lo=-4, hi=4) if real else env.complex(f"{prefix}{i}")) for i in range(len(terms))]
    op = _new(cls)
    op.terms = dict(zip(terms, coefs))          # built directly: no arithmetic under test is used for set-up
    return op, dict(zip(terms, coefs))


def snapshot(x):
    if not hasattr(x, "terms"):
        return dict(kind="scalar", keys=None, coefs=[x], attrs={})
    keys = sorted(x.terms, key=repr)
    return dict(kind=type(x).__module__.split(".")[0] + "." + type(x).__name__, keys=keys, coefs=[x.terms[k] for k in keys],
                attrs={a: getattr(x, a) for a in ATTRS if hasattr(x, a)})


def check_unchanged(env, before, x, label, perturb=False):
    after = snapshot(x)
    if (before["kind"], before["keys"], before["attrs"]) != (after["kind"], after["keys"], after["attrs"]):
        return env.fail(label, f"before: {before['kind']} terms {before['keys']} attrs {before['attrs']}; "
                               f"after: {after['kind']} terms {after['keys']} attrs {after['attrs']}")
    ref = list(before["coefs"])
    if perturb:
        ref[0] = ref[0] + 1
    env.check_vec_eq(after["coefs"], ref, label)


def check_value(env, fam, result, ref, label):
    if not hasattr(result, "terms"):
        return env.fail(label, f"result is not an operator: {type(result)}")
    got = dict(result.terms)
    if fam == "fermion":
        got, ref = A.f_normal_order(got), A.f_normal_order(ref)
    x, y, _ = A.d_vectors(got, ref)
    env.check_vec_eq(x, y, label)


# ------------------------------------------------------------------ operations and their reference
def _iadd(a, b):
    a += b
    return a


def _isub(a, b):
    a -= b
    return a


def _imul(a, b):
    a *= b
    return a


def _idiv(a, b):
    a /= b
    return a


OPS = {
    "add": ("+", lambda a, b: a + b), "sub": ("-", lambda a, b: a - b), "mul": ("*", lambda a, b: a * b),
    "div": ("/", lambda a, b: a / b), "neg": ("neg", lambda a, b: -a),
    "iadd": ("+=", _iadd), "isub": ("-=", _isub), "imul": ("*=", _imul), "idiv": ("/=", _idiv),
}
INPLACE = {"iadd", "isub", "imul", "idiv"}


def reference(fam, op, X, Y):
    """X, Y: dict (operator) or scalar"""
    xo, yo = isinstance(X, dict), isinstance(Y, dict)
    op = {"iadd": "add", "isub": "sub", "imul": "mul", "idiv": "div"}.get(op, op)
    if op == "neg":
        return A.d_scale(X, -1)
    if op == "add":
        if xo and yo:
            return A.d_add(X, Y)
        return A.d_add_const(X, Y) if xo else A.d_add_const(Y, X)
    if op == "sub":
        if xo and yo:
            return A.d_add(X, Y, -1)
        return A.d_add_const(X, Y, -1) if xo else A.d_add_const(A.d_scale(Y, -1), X)
    if op == "mul":
        if xo and yo:
            return A.f_mul(X, Y) if fam == "fermion" else A.q_mul(X, Y)
        return A.d_scale(X, Y) if xo else A.d_scale(Y, X)
    if op == "div":
        return A.d_scale(X, 1 / Y)
    raise ValueError(op)


def describe(L, op, R):
    sym = OPS[op][0]
    return f"-{NAMES[L]}" if op == "neg" else f"{NAMES[L]} {sym} {NAMES[R]}"


def h_arith(env, fam, L, R, op, aspect, pairs, canary=False, reject_ok=False):
    desc = describe(L, op, R)
    for tA, tB in pairs:
        real = op in ("div", "idiv")
        a, refA = make(env, L, tA, "a")
        if R is None:
            b, refB = None, None
        else:
            b, refB = make(env, R, tB, "b", nonzero=real)
        sa, sb = snapshot(a), (snapshot(b) if R is not None else None)
        raised = None
        try:
            r = OPS[op][1](a, b)
        except (SymEscape, Infeasible):
            raise
        except Exception as e:          # noqa
            raised = e
        if aspect == "value":
            if raised is not None:
                if reject_ok and isinstance(raised, TypeError):
                    env.check_true(True, f"{desc}: rejected with TypeError")
                    continue
                env.fail(f"{desc}: is carried out (no exception)", f"{type(raised).__name__}: {raised} [terms {tA} | {tB}]")
                continue
            ref = reference(fam, op, refA, refB)
            if canary:
                k = next(iter(ref))
                ref = dict(ref)
                ref[k] = ref[k] + 1
            check_value(env, fam, r, ref, f"{desc}: result equals the reference algebra result")
        elif aspect == "left":
            check_unchanged(env, sa, a, f"{desc}: left operand unchanged", perturb=canary)
        else:
            check_unchanged(env, sb, b, f"{desc}: right operand unchanged", perturb=canary)


def h_scalar_types(env, cls):
    """ENUMERATED shape (concrete numbers; the symbolic shapes above take the scalar as a solver variable of Python type):
    every numeric scalar TYPE - Python and numpy, signed / unsigned / single precision / complex - in every position of
    + - * / and the in-place forms gives the reference value and leaves the operator unchanged"""
    import operator as O
    import numpy as np
    from symx import shim
    scalars = [np.uint8(3), np.uint32(2), np.int8(-2), np.int64(5), np.float32(0.5), np.float64(-1.25), np.complex64(1 + 2j),
               np.complex128(0.5 - 1j), 2, 1.5, (1 + 1j), True, 0, 0.0]
    ops = {"+": O.add, "-": O.sub, "*": O.mul, "/": O.truediv, "s+": lambda a, s_: s_ + a, "s-": lambda a, s_: s_ - a, "s*": lambda a, s_: s_ * a,
           "+=": O.iadd, "-=": O.isub, "*=": O.imul, "/=": O.itruediv}
    words = {"F": [((1, 1), (0, 0)), ((2, 1), (2, 0))], "Q": [((0, "X"), (1, "Y")), ((2, "Z"),)]}["F" if cls.startswith("F") else "Q"]

    def ref(t, on, s_):
        s_, t = complex(s_), dict(t)
        if on in ("+", "s+", "+="):
            t[()] = t.get((), 0) + s_
        elif on in ("-", "-="):
            t[()] = t.get((), 0) - s_
        elif on == "s-":
            t = {k: -v for k, v in t.items()}
            t[()] = t.get((), 0) + s_
        elif on in ("*", "s*", "*="):
            t = {k: v * s_ for k, v in t.items()}
        else:
            t = {k: v / s_ for k, v in t.items()}
        return {k: v for k, v in t.items() if abs(v) > 1e-12}
    bad = []
    with shim.concrete_mode():
        for on, f in ops.items():
            for s_ in scalars:
                a = _new(cls)
                a.terms = {words[0]: 0.5, words[1]: -1.5}
                t0 = dict(a.terms)
                if on in ("/", "/=") and not s_:
                    continue
                try:
                    r = f(a, s_)
                except Exception as e:          # noqa
                    bad.append((on, type(s_).__name__, f"{type(e).__name__}: {e}"[:80]))
                    continue
                for at in ATTRS:
                    if hasattr(a, at) and getattr(r, at, None) != getattr(a, at):
                        bad.append((on, type(s_).__name__, f"attribute {at} of the result: {getattr(r, at, None)!r} != {getattr(a, at)!r}"))
                got = {k: complex(v) for k, v in r.terms.items() if abs(v) > 1e-12}
                want = ref(t0, on, s_)
                if set(got) != set(want) or any(abs(got[k] - want[k]) > 1e-6 for k in got):
                    bad.append((on, type(s_).__name__, "wrong value", got, want))
                if not on.endswith("=") and dict(a.terms) != t0:
                    bad.append((on, type(s_).__name__, "operand changed"))
                if not on.endswith("="):
                    # the result is a new object: in-place arithmetic on it does not reach the operand (sum() starts with 0 + op)
                    r *= 3
                    r += 1
                    if dict(a.terms) != t0:
                        bad.append((on, repr(s_), "in-place arithmetic on the RESULT changed the operand"))
        # equality after chains that leave explicit zero coefficients / re-create the same operator
        a = _new(cls)
        a.terms = {words[0]: 0.5, words[1]: -1.5}
        same = [("(a + 2) - 2", lambda: (a + 2) - 2), ("1 - (1 - a)", lambda: 1 - (1 - a)), ("(a - 2.5) + 2.5", lambda: (a - 2.5) + 2.5),
                ("a * 0. + a", lambda: a * 0. + a), ("(a * 2) / 2", lambda: (a * 2) / 2)]
        if cls in ("H", "H3"):
            # mapping names are case-insensitive on BOTH sides of + and ==
            from tangelo.toolboxes.operators import QubitHamiltonian
            utd_ = (cls == "H")
            for left, right in (("JW", "jw"), ("jw", "JW"), ("Jw", "jW")):
                x = QubitHamiltonian(mapping=left, up_then_down=utd_)
                x.terms = {words[0]: 0.5}
                y = QubitHamiltonian(mapping=right, up_then_down=utd_)
                y.terms = {words[1]: -1.5}
                try:
                    z = x + y
                    if {k: complex(v) for k, v in z.terms.items()} != {words[0]: 0.5, words[1]: -1.5}:
                        bad.append(("+", f"{left}+{right}", "wrong value"))
                    x += y
                except Exception as e:          # noqa
                    bad.append(("+", f"mapping '{left}' + mapping '{right}'", f"{type(e).__name__}: {e}"[:80]))
        for nm_, mk_ in same:
            try:
                b_ = mk_()
                if not (b_ == a) or (b_ != a) or not (a == b_):
                    bad.append(("==", nm_, "algebraically identical operators compare unequal"))
            except Exception as e:          # noqa
                bad.append(("==", nm_, f"{type(e).__name__}: {e}"[:80]))
    env.check_true(not bad, f"{NAMES[cls]}: arithmetic with every numeric scalar type gives the reference value", detail=str(bad[:4]))


# ------------------------------------------------------------------ == (QubitHamiltonian docstring)
def h_eq(env, L, R, pairs, canary=False):
    desc = f"{NAMES[L]} == {NAMES[R]}"
    for tA, _ in pairs:
        a, refA = make(env, L, tA, "a", real=True)
        b = _new(R)
        b.terms = dict(a.terms)
        c = _new(R)
        c.terms = {t: (v + 1 if i == 0 else v) for i, (t, v) in enumerate(a.terms.items())}
        sa, sb = snapshot(a), snapshot(b)
        # different annotations: documented to compare unequal
        expect_same = {L, R} not in ({"H", "H2"}, {"F", "Fa"}, {"H", "H3"}, {"H3", "H4"}, {"H2", "H4"}, {"H", "H4"})
        if canary:
            expect_same = not expect_same
        for other, expect, what in ((b, expect_same, "equal terms"), (c, False, "a different coefficient"))[:1 if canary else 2]:
            try:
                res = (a == other)
            except (SymEscape, Infeasible):
                raise
            except Exception as e:          # noqa
                env.fail(f"{desc}: is carried out (no exception)", f"{type(e).__name__}: {e}")
                continue
            env.check_true(bool(res) is expect, f"{desc}: returns {expect} for {what}" if not canary else f"{desc}: canary")
        check_unchanged(env, sa, a, f"{desc}: left operand unchanged")
        check_unchanged(env, sb, b, f"{desc}: right operand unchanged")


# ------------------------------------------------------------------ documented rejections
def h_reject(env, fam, L, R, op, pairs, canary=False):
    desc = describe(L, op, R)
    for tA, tB in pairs:
        a, _ = make(env, L, tA, "a")
        b, _ = make(env, R, tB, "b")
        sa, sb = snapshot(a), snapshot(b)
        if canary:                      # compatible operands: nothing is rejected, the (wrong) spec must fail
            b = _new(L)
            b.terms = dict(zip(sb["keys"], sb["coefs"]))
            sb = snapshot(b)
        env.check_raises(lambda: OPS[op][1](a, b), f"{desc}: incompatible attributes are rejected (RuntimeError)", exc=RuntimeError)
        check_unchanged(env, sa, a, f"{desc} (rejected): left operand unchanged")
        check_unchanged(env, sb, b, f"{desc} (rejected): right operand unchanged")


# ------------------------------------------------------------------ chains (aliasing)
def h_chain(env, fam, L, R, kind, pairs, canary=False):
    nm = f"[{NAMES[L]}, {NAMES[R]}]"
    mul = A.f_mul if fam == "fermion" else A.q_mul
    for tA, tB in pairs:
        a, refA = make(env, L, tA, "a")
        b, refB = make(env, R, tB, "b")
        s = env.complex("s")
        sa, sb = snapshot(a), snapshot(b)
        try:
            if kind == "add_then_mul":
                c = a + b
                d = a * b
                check_value(env, fam, d, mul(refA, refB) if not canary else mul(refB, A.d_add(refA, refB)),
                            f"chain c=a+b; d=a*b {nm}: d equals a*b")
                check_value(env, fam, c, A.d_add(refA, refB), f"chain c=a+b; d=a*b {nm}: c still equals a+b")
            elif kind == "mul_then_add":
                c = a * b
                d = a + b
                check_value(env, fam, d, A.d_add(refA, refB), f"chain c=a*b; d=a+b {nm}: d equals a+b")
                check_value(env, fam, c, mul(refA, refB), f"chain c=a*b; d=a+b {nm}: c still equals a*b")
            elif kind == "result_inplace":
                c = a + b
                c += b
                c *= s
                check_value(env, fam, c, A.d_scale(A.d_add(A.d_add(refA, refB), refB), s), f"chain c=a+b; c+=b; c*=s {nm}: c equals (a+2b)s")
                check_unchanged(env, sa, a, f"chain c=a+b; c+=b; c*=s {nm}: a unchanged", perturb=canary)
                check_unchanged(env, sb, b, f"chain c=a+b; c+=b; c*=s {nm}: b unchanged")
            elif kind == "same_add":
                c = a + a
                check_value(env, fam, c, A.d_scale(refA, 2 if not canary else 3), f"a+a {nm}: equals 2a")
                check_unchanged(env, sa, a, f"a+a {nm}: a unchanged")
            elif kind == "same_sub":
                c = a - a
                check_value(env, fam, c, {} if not canary else refA, f"a-a {nm}: equals 0")
                check_unchanged(env, sa, a, f"a-a {nm}: a unchanged")
            elif kind == "same_mul":
                c = a * a
                check_value(env, fam, c, mul(refA, refA) if not canary else refA, f"a*a {nm}: equals the square")
                check_unchanged(env, sa, a, f"a*a {nm}: a unchanged")
            elif kind == "sub_then_add":
                c = a - b
                e = a + b
                check_value(env, fam, e, A.d_add(refA, refB) if not canary else A.d_add(refA, refB, -1), f"chain c=a-b; e=a+b {nm}: e equals a+b")
                check_value(env, fam, c, A.d_add(refA, refB, -1), f"chain c=a-b; e=a+b {nm}: c still equals a-b")
            elif kind == "scalar_then_add":
                c = s * a
                n = -a
                d = a + b
                check_value(env, fam, d, A.d_add(refA, refB) if not canary else A.d_add(A.d_scale(refA, s), refB),
                            f"chain c=s*a; n=-a; d=a+b {nm}: d equals a+b")
                check_value(env, fam, c, A.d_scale(refA, s), f"chain c=s*a; n=-a; d=a+b {nm}: c still equals s*a")
                check_value(env, fam, n, A.d_scale(refA, -1), f"chain c=s*a; n=-a; d=a+b {nm}: n still equals -a")
            else:
                raise ValueError(kind)
        except (SymEscape, Infeasible):
            raise
        except Exception as e:          # noqa
            if isinstance(e, ValueError) and str(e) == kind:
                raise
            env.fail(f"chain {kind} {nm}: is carried out (no exception)", f"{type(e).__name__}: {e}")


# ------------------------------------------------------------------ MultiformOperator
def _qop(words, coefs):
    from tangelo.toolboxes.operators import QubitOperator
    q = QubitOperator()
    q.terms = dict(zip(words, coefs))
    return q


class _alloc_object:
    """np.zeros(dtype=complex) inside the shimmed module returns an object array while symbolic"""

    def __init__(self, env):
        self.on = env.symbolic

    def __enter__(self):
        from symx import shim
        self.shim = shim
        self.old = shim.ALLOC_OBJECT
        shim.ALLOC_OBJECT = self.on

    def __exit__(self, *a):
        self.shim.ALLOC_OBJECT = self.old


def _nparr(env, coefs):
    import numpy as np
    if env.symbolic:
        from symx import shim
        return shim.SymArray(coefs)
    return np.array(coefs, dtype=complex)


def h_mf_encode(env, n, word_sets, canary=False):
    """from_qubitop / from_integerop / from_binaryop agree with the documented table I=0=(0,0) Z=1=(0,1) X=2=(1,0) Y=3=(1,1)"""
    import numpy as np
    from tangelo.toolboxes.operators import MultiformOperator
    with _alloc_object(env):
        for words in word_sets:
            coefs = [env.complex(f"a{i}") for i in range(len(words))]
            q = _qop(words, coefs)
            m = MultiformOperator.from_qubitop(q, n)
            ints = [A.word_to_ints(w, n) for w in words]
            if canary:
                ints = [[{1: 2, 2: 1}.get(v, v) for v in row] for row in ints]
            env.check_same(np.asarray(m.integer).tolist(), ints, f"from_qubitop(...).integer follows the documented table I=0 Z=1 X=2 Y=3 [case {words}]")
            env.check_same(np.asarray(m.binary).astype(int).tolist(), [A.ints_to_binary(r) for r in ints],
                           f"from_qubitop(...).binary = (x|z) of the documented table [case {words}]")
            env.check_same(m.n_qubits, n, "n_qubits")
            env.check_vec_eq(list(m.factors), coefs, f"from_qubitop(...).factors are the coefficients in term order [case {words}]")
            x, y, _ = A.d_vectors(dict(m.qubitoperator.terms), dict(zip(words, coefs)))
            env.check_vec_eq(x, y, "qubitoperator property returns the same operator")
            # the exported operator is a separate object: in-place arithmetic on it must not reach the MultiformOperator
            snap = snapshot(m)
            ex = m.qubitoperator
            ex *= 2
            ex += _qop([((0, "X"),)], [1.0])
            ex.terms.pop(next(iter(ex.terms)))
            check_unchanged(env, snap, m, "in-place operations on the exported .qubitoperator leave the MultiformOperator unchanged")
            fac = _nparr(env, coefs)
            m2 = MultiformOperator.from_integerop(np.array(ints, dtype=np.int8).reshape(len(words), n), fac)
            x, y, _ = A.d_vectors(dict(m2.terms), dict(zip([A.ints_to_word(r) for r in ints], coefs)))
            env.check_vec_eq(x, y, f"from_integerop(integer array, factors) has the same terms [case {words}]")
            m3 = MultiformOperator.from_binaryop(np.array([A.ints_to_binary(r) for r in ints], dtype=bool).reshape(len(words), 2 * n), fac)
            x, y, _ = A.d_vectors(dict(m3.terms), dict(zip([A.ints_to_word(r) for r in ints], coefs)))
            env.check_vec_eq(x, y, f"from_binaryop(binary array, factors) has the same terms [case {words}]")
            env.check_same(np.asarray(m3.integer).tolist(), ints, "from_binaryop(...).integer")


def h_mf_collapse(env, n, rows, canary=False):
    """collapse(integer array with duplicate rows, symbolic factors) = sum over duplicates, zero sums dropped"""
    import numpy as np
    from tangelo.toolboxes.operators import MultiformOperator
    with _alloc_object(env):
        coefs = [env.complex(f"f{i}") for i in range(len(rows))]
        if canary:
            ref = {}
            for r, c in zip(rows, coefs):
                ref[A.ints_to_word(r)] = c            # wrong: last one wins
        else:
            ref = {}
            for r, c in zip(rows, coefs):
                ref = A.d_add(ref, {A.ints_to_word(r): c})
        arr = np.array(rows, dtype=int).reshape(len(rows), n)
        uniq, fac = MultiformOperator.collapse(arr, _nparr(env, coefs))
        got = {}
        seen = []
        for r, c in zip(np.asarray(uniq).tolist(), list(fac)):
            seen.append(tuple(r))
            got = A.d_add(got, {A.ints_to_word(r): c})
        env.check_same(len(seen), len(set(seen)), f"collapse: returned words are unique [case {rows}]")
        x, y, _ = A.d_vectors(got, ref)
        env.check_vec_eq(x, y, f"collapse: factors are the sums over duplicate words [case {rows}]")


def h_mf_collapse_large(env, n, n_rows, dtype):
    """ENUMERATED shape: collapse on MANY rows (more than an 8-bit index can count) stored in the integer type the class itself
    uses (np.int8); factors are concrete dyadic rationals so that sums are exact"""
    import numpy as np
    from symx import shim
    from tangelo.toolboxes.operators import MultiformOperator
    rnd = random.Random(n_rows * 31 + n)
    rows = [[rnd.randrange(4) for _ in range(n)] for _ in range(n_rows)]
    fac = [rnd.randrange(-8, 9) / 8 + 1j * rnd.randrange(-8, 9) / 8 for _ in range(n_rows)]
    ref = {}
    for r, c in zip(rows, fac):
        ref[tuple(r)] = ref.get(tuple(r), 0) + c
    ref = {k: v for k, v in ref.items() if abs(v) > 1e-12}
    with shim.concrete_mode():
        arr = np.array(rows, dtype=dtype).reshape(n_rows, n)
        before = arr.copy()
        uniq, f = MultiformOperator.collapse(arr, np.array(fac, dtype=complex))
    got = {}
    for r, c in zip(np.asarray(uniq).tolist(), list(f)):
        got[tuple(int(x) for x in r)] = got.get(tuple(int(x) for x in r), 0) + complex(c)
    got = {k: v for k, v in got.items() if abs(v) > 1e-12}
    env.check_same(sorted(got), sorted(ref), f"collapse of {n_rows} {np.dtype(dtype).name} rows: the set of words")
    env.check_true(all(abs(got[k] - ref[k]) < 1e-9 for k in got if k in ref), f"collapse of {n_rows} {np.dtype(dtype).name} rows: factors are the sums over duplicate words",
                   detail=str([(k, got[k], ref[k]) for k in got if k in ref and abs(got[k] - ref[k]) >= 1e-9][:3]))
    env.check_true(bool((arr == before).all()), "collapse leaves the array passed in unchanged")


def h_mf_mul(env, n, cases, real=False, canary=False):
    """MultiformOperator product = reference Pauli product (textbook table)"""
    from tangelo.toolboxes.operators import MultiformOperator
    with _alloc_object(env):
        for wa, wb in cases:
            if real:
                ca = [env.real(f"a{i}", lo=-4, hi=4, nonzero=True) for i in range(len(wa))]
                cb = [env.real(f"b{i}", lo=-4, hi=4, nonzero=True) for i in range(len(wb))]
            else:
                ca = [env.complex(f"a{i}") for i in range(len(wa))]
                cb = [env.complex(f"b{i}") for i in range(len(wb))]
            ma = MultiformOperator.from_qubitop(_qop(wa, ca), n)
            mb = MultiformOperator.from_qubitop(_qop(wb, cb), n)
            sa, sb = snapshot(ma), snapshot(mb)
            desc = f"MultiformOperator{list(wa)} * MultiformOperator{list(wb)}"
            try:
                mc = ma * mb
            except (SymEscape, Infeasible):
                raise
            except Exception as e:          # noqa
                env.fail("MultiformOperator.__mul__: is carried out (no exception)", f"{type(e).__name__}: {e} [{desc}]")
                continue
            ref = A.q_mul(dict(zip(wa, ca)), dict(zip(wb, cb))) if not canary else A.q_mul(dict(zip(wb, cb)), dict(zip(wa, ca)))
            x, y, _ = A.d_vectors(dict(mc.terms), ref)
            env.check_vec_eq(x, y, f"MultiformOperator.__mul__: terms equal the reference Pauli product [case {desc}]")
            # the array forms of the product describe the same operator as its terms
            got = {}
            for r, c in zip(mc.integer.tolist(), list(mc.factors)):
                got = A.d_add(got, {A.ints_to_word(r): c})
            x, y, _ = A.d_vectors(got, ref)
            env.check_vec_eq(x, y, f"MultiformOperator.__mul__: integer/factors arrays equal the reference Pauli product [case {desc}]")
            check_unchanged(env, sa, ma, "MultiformOperator.__mul__: left operand unchanged")
            check_unchanged(env, sb, mb, "MultiformOperator.__mul__: right operand unchanged")


def h_mf_commute(env, n, cases, canary=False, after_compress=False):
    """do_commute(A, B): term-resolved[i] = term i of A commutes with every term of B; global = all of them
    (for operands with symbolic generic coefficients this is the same as [A, B] = 0 identically)"""
    import numpy as np
    from tangelo.toolboxes.operators import MultiformOperator
    from tangelo.toolboxes.operators.multiformoperator import do_commute
    test = A.words_commute if not canary else A.words_qwc
    for wa, wb in cases:
        ma = MultiformOperator.from_qubitop(_qop(wa, [1.0 + i for i in range(len(wa))]), n)
        mb = MultiformOperator.from_qubitop(_qop(wb, [2.0 + i for i in range(len(wb))]), n)
        if after_compress:
            # histories: the derived encodings must stay consistent after an in-place update of the operator
            ma.compress(n_qubits=n)
            mb.compress(n_qubits=n)
        ref_terms = [all(test(x, y) for y in wb) for x in wa]
        # cross-check of the oracle itself: the reference commutator vanishes iff all pairs commute
        comm = A.q_commutator({w: 1.0 + i for i, w in enumerate(wa)}, {w: 2.0 + 3 * i for i, w in enumerate(wb)})
        if not canary:
            assert all(ref_terms) == all(abs(v) < 1e-12 for v in comm.values()), "oracle inconsistency"
        got_terms = do_commute(ma, mb, term_resolved=True)
        got_terms = [bool(v) for v in np.asarray(got_terms).tolist()]
        env.check_true(got_terms == ref_terms, "do_commute(term_resolved=True): entry i is True iff term i of A commutes with every term of B",
                       f"A={list(wa)} B={list(wb)}: got {got_terms}, expected {ref_terms}")
        got = bool(do_commute(ma, mb))
        env.check_true(got == all(ref_terms), "do_commute (global): True iff every term of A commutes with every term of B",
                       f"A={list(wa)} B={list(wb)}: got {got}, expected {all(ref_terms)}")


def h_conversion_alias(env, direction):
    """conversions between the plain and the annotated qubit operator hand out SEPARATE objects: in-place arithmetic (+=, -=, *=, /=)
    on the converted operator leaves the source unchanged, and vice versa (enumerated; coefficients symbolic)"""
    from tangelo.toolboxes.operators import QubitOperator, QubitHamiltonian
    from tangelo.toolboxes.operators.operators import qubitop_to_qubitham
    words = [((0, "X"), (1, "Y")), ((0, "Z"),), (), ((1, "Z"), (2, "X"))]
    cs = [env.real(f"c{i}", lo=-3, hi=3) for i in range(len(words))]
    if direction == "op->ham":
        src = _qop(words, cs)
        conv = qubitop_to_qubitham(src, "JW", False)
    else:
        src = QubitHamiltonian(mapping="BK", up_then_down=True)
        src.terms = dict(zip(words, cs))
        conv = src.to_qubitoperator()
    x, y, _ = A.d_vectors(dict(conv.terms), dict(zip(words, cs)))
    env.check_vec_eq(x, y, f"{direction}: the converted operator has the terms of the source")
    for who, victim, label in ((conv, src, "the source"), (src, conv, "the converted operator")):
        # the other operand has the class (and annotations) of the operator being updated
        other = QubitHamiltonian(mapping=who.mapping, up_then_down=who.up_then_down) if isinstance(who, QubitHamiltonian) else QubitOperator()
        other.terms = {((0, "Z"),): 1.0, ((2, "Y"),): -0.5}
        snap = dict(victim.terms)
        who += other
        who *= 2.0
        who -= other
        who /= 4.0
        who.compress()
        env.check_true(set(victim.terms) == set(snap) and all(victim.terms[k_] is snap[k_] or victim.terms[k_] == snap[k_] for k_ in snap),
                       f"{direction}: in-place arithmetic on {'the converted operator' if who is conv else 'the source'} leaves {label} unchanged")


def h_mf_tiny_product(env, scale):
    """AUXILIARY enumerated shape: the array-form product of two operators whose coefficients are of size `scale` (1e-7, 1e-9):
    every word of the symbolic product is there with its coefficient (relative 1e-9) - nothing is pruned by an absolute tolerance"""
    from tangelo.toolboxes.operators import MultiformOperator, QubitOperator
    from symx import shim
    with shim.concrete_mode():
        wa = [((0, "X"), (1, "Y")), ((0, "Z"),), ((1, "X"),), ((0, "Y"), (1, "Y"))]
        wb = [((0, "Z"), (1, "Z")), ((1, "Y"),), ((0, "X"),)]
        a, b = QubitOperator(), QubitOperator()
        for i, w in enumerate(wa):
            a.terms[w] = scale * (1.0 + 0.25 * i)
        for i, w in enumerate(wb):
            b.terms[w] = scale * (0.5 - 0.75 * i)
        ref = a * b
        got = (MultiformOperator.from_qubitop(a, 2) * MultiformOperator.from_qubitop(b, 2))
        keys = set(k for k, v in ref.terms.items() if abs(v) > 0)
        missing = sorted(k for k in keys if k not in got.terms)
        dev = max([abs(complex(got.terms.get(k, 0)) - complex(ref.terms[k])) / (scale * scale) for k in keys] or [0.0])
    env.check_true(not missing, f"array-form product of operators with coefficients ~{scale:.0e}: every word of the symbolic product is present", detail=str(missing[:4]))
    env.check_true(dev < 1e-9, f"array-form product of operators with coefficients ~{scale:.0e}: coefficients equal the symbolic product (relative 1e-9)", detail=str(dev))
    env.check_same((got.integer.shape[0], len(got.factors)), (len(got.terms),) * 2, "array forms of the product have one row per term")


def h_mf_history(env, n, words, removal, tol):
    """histories: after the documented in-place updates remove_terms(indices) (int, list or array form, index 0 included) and
    compress(abs_tol) (an explicit 0 included) every form of the operator - terms, exported QubitOperator, integer/factors arrays -
    describes the SAME operator, namely the input with the named terms / the coefficients at or below the tolerance taken out, and
    the array product and commutation test of the updated operator agree with the symbolic form"""
    import numpy as np
    from tangelo.toolboxes.operators import MultiformOperator
    from tangelo.toolboxes.operators.multiformoperator import do_commute
    small = [1.0, -2.5, 3e-9, 0.75, -4e-10, 1.5]
    coefs = [small[i % len(small)] * (1 + i // len(small)) for i in range(len(words))]
    m = MultiformOperator.from_qubitop(_qop(words, coefs), n)
    order = [A.ints_to_word(r) for r in m.integer.tolist()]          # the operator's own term order (indices refer to it)
    cur = dict(zip(words, coefs))
    if removal is not None:
        idx = removal
        m.remove_terms(idx if not isinstance(idx, tuple) else np.array(idx))
        gone = [idx] if isinstance(idx, int) else list(idx)
        for i in gone:
            cur.pop(order[i])
    if tol is not None:
        m.compress(abs_tol=tol, n_qubits=n)
        cur = {w: c for w, c in cur.items() if abs(c) > tol}
    label = f"after remove_terms({removal!r})" if removal is not None else ""
    label += (" and " if label and tol is not None else "") + (f"after compress(abs_tol={tol!r})" if tol is not None else "")
    x, y, _ = A.d_vectors(dict(m.terms), cur)
    env.check_vec_eq(x, y, f"MultiformOperator {label}: terms == input without the removed terms")
    x, y, _ = A.d_vectors(dict(m.qubitoperator.terms), cur)
    env.check_vec_eq(x, y, f"MultiformOperator {label}: exported QubitOperator == input without the removed terms")
    got = {}
    for r, c in zip(m.integer.tolist(), list(m.factors)):
        got = A.d_add(got, {A.ints_to_word(r): c})
    x, y, _ = A.d_vectors(got, cur)
    env.check_vec_eq(x, y, f"MultiformOperator {label}: integer/factors arrays == input without the removed terms")
    env.check_same((m.binary.shape[0], m.binary_swap.shape[0], m.n_terms), (len(cur),) * 3, f"MultiformOperator {label}: binary forms and n_terms have one row per remaining term")
    other_w = [((0, "X"),), ((0, "Z"), (n - 1, "Z")) if n > 1 else ((0, "Z"),)]
    other = MultiformOperator.from_qubitop(_qop(other_w, [2.0, -1.0]), n)
    if cur:
        prod = m * other
        ref = A.q_mul(cur, dict(zip(other_w, [2.0, -1.0])))
        x, y, _ = A.d_vectors({w: c for w, c in prod.terms.items() if abs(c) > 0}, {w: c for w, c in ref.items() if abs(c) > 0})
        env.check_vec_eq(x, y, f"MultiformOperator {label}: product with another operator == reference product of the remaining terms")
        want = [all(A.words_commute(w, v) for v in other_w) for w in [A.ints_to_word(r) for r in m.integer.tolist()]]
        gotc = [bool(v) for v in np.asarray(do_commute(m, other, term_resolved=True)).tolist()]
        env.check_same(gotc, want, f"MultiformOperator {label}: do_commute(term_resolved) refers to the remaining terms")


# ------------------------------------------------------------------ enumeration
FERMI_POOL = [
    (), ((0, 1), (1, 0)), ((1, 1), (0, 0)), ((2, 1), (0, 0)), ((0, 1), (0, 0)), ((1, 0), (1, 1)),
    ((2, 1), (1, 1), (1, 0), (0, 0)), ((1, 0),), ((2, 1),), ((0, 0), (2, 1)),
]
QUBIT_POOL = [
    (), ((0, "X"),), ((0, "Z"),), ((1, "Y"),), ((0, "X"), (1, "Y")), ((0, "Z"), (2, "Z")), ((0, "Y"), (1, "Z")),
    ((0, "X"), (1, "Y"), (2, "Z")), ((1, "Z"), (2, "X")), ((2, "Y"),),
]


def operand_sets(pool):
    return [(t,) for t in pool] + [tuple(c) for c in itertools.combinations(pool, 2)]


def pick_pairs(pool, k, rnd):
    """k operand pairs: a fixed core (shared term, identical term sets, identity, re-ordering needed) + seeded ones"""
    sets = operand_sets(pool)
    core = [((pool[1], pool[2]), (pool[2], pool[3])),        # one shared term
            ((pool[4], pool[5]), (pool[4], pool[5])),        # identical term sets
            ((pool[0], pool[1]), (pool[7],)),                # identity term present
            ((pool[5],), (pool[2], pool[6]))]
    out = core[:max(2, min(len(core), k // 2))]
    while len(out) < k:
        p = (rnd.choice(sets), rnd.choice(sets))
        if p not in out:
            out.append(p)
    return out


def all_words(n):
    out = []
    for letters in itertools.product("IXYZ", repeat=n):
        out.append(tuple((q, l) for q, l in enumerate(letters) if l != "I"))
    return out


def _nm(L, R):
    return f"{L},{R}" if R is not None else f"{L}"


def shapes(tier, seed):
    rnd = random.Random(1000 + seed)
    out = []
    k = 6 if tier == "quick" else 24
    sub = lambda name: random.Random(f"{seed}/{name}")      # noqa: E731  per-shape deterministic stream

    def arith(group, fam, L, R, ops, pool, **kw):
        for op in ops:
            for aspect in ("value", "left", "right"):
                if (aspect == "left" and (op in INPLACE or L == "s")) or (aspect == "right" and R in (None, "s")):
                    continue
                name = f"{group}/{op}/{_nm(L, R)}/{aspect}"
                pairs = pick_pairs(pool, k, sub(name))
                if R in (None, "s") or L == "s":
                    pairs = [(a, None) if L != "s" else (None, b) for a, b in pairs]
                out.append(Shape(name, h_arith, dict(fam=fam, L=L, R=R, op=op, aspect=aspect, pairs=pairs, **kw), modules=MODS))

    BIN = ("add", "sub", "mul", "iadd", "isub", "imul")
    # ---- fermionic
    for L, R in (("F", "F"), ("Fa", "Fa"), ("F", "oF"), ("oF", "F")):
        arith("fermion", "fermion", L, R, BIN, FERMI_POOL)
    for L in ("F", "Fa"):
        arith("fermion", "fermion", L, "s", ("add", "sub", "mul", "div", "iadd", "isub", "imul", "idiv"), FERMI_POOL)
        arith("fermion", "fermion", "s", L, ("add", "sub", "mul"), FERMI_POOL)
        arith("fermion", "fermion", L, None, ("neg",), FERMI_POOL)
    # control: pure openfermion operands validate the oracle
    arith("control", "fermion", "oF", "oF", ("add", "sub", "mul") if tier == "quick" else BIN, FERMI_POOL)
    arith("control", "qubit", "oQ", "oQ", ("add", "sub", "mul") if tier == "quick" else BIN, QUBIT_POOL)
    if tier == "thorough":
        arith("control", "fermion", "oF", "s", ("add", "sub", "mul", "div"), FERMI_POOL)
        arith("control", "fermion", "s", "oF", ("add", "sub", "mul"), FERMI_POOL)
    # ---- qubit
    for L, R in (("Q", "Q"), ("oQ", "Q"), ("H", "H"), ("H", "Hb"), ("Hb", "H"), ("Q", "H"), ("oQ", "H"), ("Q", "Hb")):
        arith("qubit" if "H" not in (L[0], R[0]) else "qham", "qubit", L, R, BIN, QUBIT_POOL)
    for L in ("Q", "H"):
        arith("qubit" if L == "Q" else "qham", "qubit", L, "s", ("add", "sub", "mul", "div", "iadd", "isub", "imul", "idiv"), QUBIT_POOL)
        arith("qubit" if L == "Q" else "qham", "qubit", "s", L, ("add", "sub", "mul"), QUBIT_POOL)
        arith("qubit" if L == "Q" else "qham", "qubit", L, None, ("neg",), QUBIT_POOL)
    # QubitHamiltonian (+, +=) plain QubitOperator: documented to work ("check is ignored")
    for L in ("H", "Hb"):
        for R in ("Q", "oQ"):
            arith("qham", "qubit", L, R, ("add", "iadd"), QUBIT_POOL)
            arith("qmix", "qubit", L, R, ("sub", "mul", "isub", "imul"), QUBIT_POOL, reject_ok=not REJECTION_IS_VIOLATION)
    arith("qmix", "qubit", "Q", "oQ", BIN, QUBIT_POOL, reject_ok=not REJECTION_IS_VIOLATION)
    # ==
    for L, R in (("H", "Q"), ("H", "oQ"), ("Q", "H"), ("oQ", "H"), ("Hb", "Q"), ("H", "H"), ("H", "Hb"), ("H", "H2"), ("Q", "Q"),
                 ("H3", "H3"), ("H", "H3"), ("H3", "H"), ("H3", "H4"), ("H4", "H2"), ("H3", "Hb"), ("H4", "H4")):
        name = f"qham/eq/{L},{R}"
        out.append(Shape(name, h_eq, dict(L=L, R=R, pairs=pick_pairs(QUBIT_POOL, 3 if tier == "quick" else 8, sub(name))), modules=MODS))
    for L, R in (("F", "F"), ("Fa", "Fa"), ("F", "Fa"), ("Fa", "F"), ("F", "oF"), ("oF", "F")):
        name = f"fermion/eq/{L},{R}"
        out.append(Shape(name, h_eq, dict(L=L, R=R, pairs=pick_pairs(FERMI_POOL, 3 if tier == "quick" else 8, sub(name))), modules=MODS))
    # documented rejections
    for fam, L, R, pool in (("fermion", "F", "Fa", FERMI_POOL), ("fermion", "Fa", "F", FERMI_POOL), ("fermion", "Fa", "oF", FERMI_POOL),
                            ("qubit", "H", "H2", QUBIT_POOL)):
        for op in (("add", "mul", "iadd") if fam == "fermion" else ("add", "iadd")):
            name = f"reject/{op}/{L},{R}"
            out.append(Shape(name, h_reject, dict(fam=fam, L=L, R=R, op=op, pairs=pick_pairs(pool, 3, sub(name))), modules=MODS))
    # chains
    kinds = ("add_then_mul", "mul_then_add", "result_inplace", "same_add", "same_sub", "same_mul", "sub_then_add", "scalar_then_add")
    for fam, L, R, pool in (("fermion", "F", "F", FERMI_POOL), ("fermion", "Fa", "Fa", FERMI_POOL), ("fermion", "F", "oF", FERMI_POOL),
                            ("fermion", "oF", "F", FERMI_POOL), ("qubit", "Q", "Q", QUBIT_POOL), ("qubit", "H", "H", QUBIT_POOL),
                            ("qubit", "Q", "H", QUBIT_POOL), ("qubit", "oQ", "Q", QUBIT_POOL)):
        for kind in kinds:
            name = f"chain/{kind}/{L},{R}"
            out.append(Shape(name, h_chain, dict(fam=fam, L=L, R=R, kind=kind, pairs=pick_pairs(pool, 3 if tier == "quick" else 10, sub(name))),
                             modules=MODS))
    # ---- MultiformOperator
    w1, w2 = all_words(1), all_words(2)
    w3 = all_words(3)
    r3 = sub("mf3")
    for cls in ("F", "Fa", "Q", "H", "H3", "Hb"):
        out.append(Shape(f"scalar-types/{cls}", h_scalar_types, dict(cls=cls), modules=()))
    import numpy as _np
    for (n_, k_, dt) in ((3, 130, _np.int8), (4, 300, _np.int8), (2, 40, _np.int64), (3, 200, _np.uint8)):
        out.append(Shape(f"multiform/collapse-large/n{n_}/{k_}/{_np.dtype(dt).name}", h_mf_collapse_large, dict(n=n_, n_rows=k_, dtype=dt), modules=()))
    out.append(Shape("multiform/encode/n1", h_mf_encode, dict(n=1, word_sets=[(w,) for w in w1] + [(w1[1], w1[3])]), modules=MODS))
    out.append(Shape("multiform/encode/n2", h_mf_encode, dict(n=2, word_sets=[(w,) for w in w2] + [tuple(r3.sample(w2, 2)) for _ in range(6)]), modules=MODS))
    out.append(Shape("multiform/encode/n3", h_mf_encode, dict(n=3, word_sets=[(w,) for w in (w3 if tier == "thorough" else r3.sample(w3, 16))]
                                                               + [tuple(r3.sample(w3, 2)) for _ in range(8)]), modules=MODS))
    # collapse: rows with duplicates
    col = [(2, [[2, 1], [2, 1]]), (2, [[2, 1], [0, 3], [2, 1]]), (2, [[0, 0], [0, 0], [3, 3]]), (1, [[1], [2], [1], [2]]),
           (3, [[1, 2, 3], [3, 2, 1], [1, 2, 3]]), (3, [[0, 0, 1], [0, 1, 0]]), (2, [[1, 1]])]
    for _ in range(4 if tier == "quick" else 16):
        n = r3.choice((2, 3))
        base = [[r3.randrange(4) for _ in range(n)] for _ in range(2)]
        col.append((n, [list(r3.choice(base)) for _ in range(r3.choice((3, 4)))]))
    for i, (n, rows) in enumerate(col):
        out.append(Shape(f"multiform/collapse/{i}:" + "+".join("".join(map(str, r)) for r in rows), h_mf_collapse, dict(n=n, rows=rows), modules=MODS))
    # products: all pairs of 2-qubit words, one term each (chunked by left word); seeded 2-term operands
    for i, wa in enumerate(w2):
        out.append(Shape(f"multiform/mul/n2/1x1/{i:02d}", h_mf_mul, dict(n=2, cases=[((wa,), (wb,)) for wb in w2], real=True), modules=MODS))
    for i, wa in enumerate(w1):
        out.append(Shape(f"multiform/mul/n1/1x1/{i}", h_mf_mul, dict(n=1, cases=[((wa,), (wb,)) for wb in w1], real=True), modules=MODS))
    n3 = 16 if tier == "quick" else 64
    prs = [(r3.choice(w3), r3.choice(w3)) for _ in range(n3)]
    for i in range(0, n3, 8):
        out.append(Shape(f"multiform/mul/n3/1x1/{i // 8}", h_mf_mul, dict(n=3, cases=[((a,), (b,)) for a, b in prs[i:i + 8]], real=True), modules=MODS))
    two = []
    fixed2 = [(2, (((0, "X"),), ((1, "Z"),)), (((0, "Z"),),)),                           # X0+Z1 times Z0
              (2, (((0, "X"),), ((0, "Y"),)), (((0, "Y"),), ((0, "X"),))),              # cancellation possible: XY and YX -> Z
              (2, (((0, "X"), (1, "X")), ((0, "Y"), (1, "Y"))), (((0, "Z"),), ((1, "Z"),)))]
    for n, wa, wb in fixed2:
        two.append((n, wa, wb))
    for _ in range(8 if tier == "quick" else 60):
        n = r3.choice((2, 3))
        ws = w2 if n == 2 else w3
        wa = tuple(r3.sample(ws, r3.choice((1, 2))))
        wb = tuple(r3.sample(ws, 2))
        two.append((n, wa, wb))
    for i, (n, wa, wb) in enumerate(two):
        out.append(Shape(f"multiform/mul/n{n}/multi/{i:02d}", h_mf_mul, dict(n=n, cases=[(wa, wb)]), modules=MODS, max_paths=64))
    # commutation
    asym = [((0, "X"), (1, "Z")), ((0, "Z"), (1, "X")), ((0, "Y"),), ((1, "X"),), ((0, "X"), (1, "Y")), ((1, "Z"),), ((0, "Z"),), ((0, "Y"), (1, "Z"))]
    out.append(Shape("multiform/commute/n2/after-compress", h_mf_commute,
                     dict(n=2, cases=[((a,), (b,)) for a in asym for b in asym] + [((asym[0], asym[2]), (asym[1], asym[3]))], after_compress=True), modules=MODS))
    asym3 = [((0, "X"), (2, "Z")), ((0, "Z"), (1, "Y")), ((2, "X"),), ((0, "Y"), (1, "X"), (2, "Z"))]
    out.append(Shape("multiform/commute/n3/after-compress", h_mf_commute,
                     dict(n=3, cases=[((a,), (b,)) for a in asym3 for b in asym3], after_compress=True), modules=MODS))
    for dir_ in ("op->ham", "ham->op"):
        out.append(Shape(f"convert/alias/{dir_}", h_conversion_alias, dict(direction=dir_), modules=MODS))
    for sc_ in (1e-7, 1e-9, 1e-3):
        out.append(Shape(f"multiform/tiny-product/{sc_:.0e}", h_mf_tiny_product, dict(scale=sc_), modules=()))
    hist_words = [((0, "X"), (1, "Y")), ((0, "Z"),), ((1, "X"),), ((0, "Y"), (1, "Y")), ((1, "Z"),), ((0, "X"),)]
    for i_, (rm_, tol_) in enumerate([(0, None), ([0], None), ((0,), None), (1, None), ([0, 2], None), ((5, 0), None), ([], None), (None, 0), (None, 0.0),
                                      (None, 1e-9), (None, 1e-12), (None, 2.0), (0, 0), ([1, 3], 1e-9)]):
        out.append(Shape(f"multiform/history/{i_:02d}/rm={rm_}/tol={tol_}", h_mf_history, dict(n=2, words=hist_words, removal=rm_, tol=tol_), modules=()))
    out.append(Shape("multiform/commute/n1/1x1", h_mf_commute, dict(n=1, cases=[((a,), (b,)) for a in w1 for b in w1]), modules=MODS))
    for i, wa in enumerate(w2):
        out.append(Shape(f"multiform/commute/n2/1x1/{i:02d}", h_mf_commute, dict(n=2, cases=[((wa,), (wb,)) for wb in w2]), modules=MODS))
    cm = [(2, (((0, "X"),), ((1, "Z"),)), (((0, "Z"),),)),          # the Appendix-A case
          (2, (((0, "Z"),),), (((0, "X"),), ((1, "Z"),))),
          (2, (((0, "X"),), ((0, "Z"),)), (((0, "X"),), ((0, "Z"),)))]
    for _ in range(24 if tier == "quick" else 120):
        n = r3.choice((2, 3))
        ws = w2 if n == 2 else w3
        cm.append((n, tuple(r3.sample(ws, r3.choice((1, 2)))), tuple(r3.sample(ws, r3.choice((1, 2))))))
    for i in range(0, len(cm), 9):
        chunk = cm[i:i + 9]
        for n in (2, 3):
            cs = [(a, b) for (m, a, b) in chunk if m == n]
            if cs:
                out.append(Shape(f"multiform/commute/n{n}/multi/{i // 9:02d}", h_mf_commute, dict(n=n, cases=cs), modules=MODS))
    # ---- canaries
    cp_f, cp_q = pick_pairs(FERMI_POOL, 2, sub("cf")), pick_pairs(QUBIT_POOL, 2, sub("cq"))
    out.append(Shape("canary/value/fermion", h_arith, dict(fam="fermion", L="oF", R="F", op="mul", aspect="value", pairs=cp_f, canary=True),
                     modules=MODS, canary=True))
    out.append(Shape("canary/value/qubit", h_arith, dict(fam="qubit", L="Q", R="Q", op="sub", aspect="value", pairs=cp_q, canary=True),
                     modules=MODS, canary=True))
    out.append(Shape("canary/left/qubit", h_arith, dict(fam="qubit", L="Q", R="Q", op="add", aspect="left", pairs=cp_q, canary=True),
                     modules=MODS, canary=True))
    out.append(Shape("canary/right/fermion", h_arith, dict(fam="fermion", L="oF", R="F", op="imul", aspect="right", pairs=cp_f, canary=True),
                     modules=MODS, canary=True))
    out.append(Shape("canary/eq", h_eq, dict(L="H", R="H", pairs=[((QUBIT_POOL[4],), None)], canary=True), modules=MODS, canary=True))
    out.append(Shape("canary/chain/qubit", h_chain, dict(fam="qubit", L="Q", R="Q", kind="add_then_mul", pairs=cp_q, canary=True),
                     modules=MODS, canary=True))
    out.append(Shape("canary/multiform/encode", h_mf_encode, dict(n=2, word_sets=[(((0, "X"), (1, "Z")),)], canary=True), modules=MODS, canary=True))
    out.append(Shape("canary/multiform/collapse", h_mf_collapse, dict(n=2, rows=[[2, 1], [0, 3], [2, 1]], canary=True), modules=MODS, canary=True))
    out.append(Shape("canary/multiform/mul", h_mf_mul, dict(n=2, cases=[((((0, "X"),),), (((0, "Z"), (1, "Y")),))], real=True, canary=True),
                     modules=MODS, canary=True))
    out.append(Shape("canary/multiform/commute", h_mf_commute, dict(n=2, cases=[((((0, "X"), (1, "X")),), (((0, "Y"), (1, "Y")),))], canary=True),
                     modules=MODS, canary=True))
    return out
