"""C05  Reference-state circuits encode the requested occupations."""
import itertools
import random

from symx.core import Shape
from symx import fock, paulibv as PB, refsem as R
from symx.num import Sym

PROPERTY = "C05"
MODS = ("tangelo.toolboxes.qubit_mappings.mapping_transform", "tangelo.toolboxes.qubit_mappings.statevector_mapping",
        "tangelo.toolboxes.qubit_mappings.jkmn", "tangelo.toolboxes.qubit_mappings.symmetry_conserving_bravyi_kitaev")
SHAPE_BUDGET = dict(quick=150, thorough=900)

META = dict(
    explanation="(a) For JW, BK, JKMN (full space) and scBK (inside the (N parity, N_alpha parity) sector of every admissible "
                "(n_electrons, spin)), both orderings: the occupation operator n_p = fermion_to_qubit_mapping(a_p^+ a_p) of "
                "the REAL operator encoder acts on |Enc f>, Enc = the REAL get_mapped_vector (affine form read off on unit "
                "vectors, verified against the real function on all 2^n vectors), with eigenvalue f_p: one z3 query per p "
                "over a symbolic occupation bit-vector f (all vectors at once, user-supplied vectors included). "
                "(b) get_vector / get_reference_circuit for every admissible (n_spinorbitals, n_electrons, spin), spin=None "
                "included: the circuit (documented gate semantics, symx.refsem) prepares a computational basis state on which "
                "every encoded n_p has eigenvalue 1 for the lowest n_alpha alpha and n_beta beta orbitals and 0 otherwise. "
                "(c) vector_to_circuit on a symbolic 0/1 vector (truthiness forks, 2^n solver-explored paths): the prepared "
                "state is the basis state of that vector.",
    bounds=dict(quick="(a) n in {2,4,6,8} (scBK 4,6); (b) n in {2,4,6,8}, all n_electrons/spin; (c) n = 4",
                thorough="(a) n in {2,..,12} even (scBK up to 10); (b) n up to 10 (state simulation) / 12; (c) n = 5"),
    outside=["inadmissible (n_electrons, spin) combinations (parity mismatch, more alpha/beta electrons than orbitals): "
             "get_vector silently truncates/accepts them, not part of the property", "odd n_spinorbitals", "registers wider than the bound"],
    stubs=[], trusted_base=["symx.fock", "symx.paulibv", "documented gate matrices in symx.refsem"],
)


def preload():
    import tangelo.toolboxes.qubit_mappings.mapping_transform  # noqa
    import tangelo.toolboxes.qubit_mappings.statevector_mapping  # noqa


def real_encoder(mapping, n, utd):
    from harness.c03 import real_encoder as f
    return f(mapping, n, utd)


def admissible(n):
    out = []
    for na in range(n // 2 + 1):
        for nb in range(n // 2 + 1):
            out.append((na + nb, na - nb))
    return sorted(set(out))


# ------------------------------------------------------------------ (a) occupation operators on every encoded vector
def h_occupation(env, mapping, n, utd, n_electrons=None, spin=None, canary=False):
    import z3
    from tangelo.toolboxes.operators import FermionOperator
    from tangelo.toolboxes.qubit_mappings.mapping_transform import fermion_to_qubit_mapping
    scbk = mapping.upper() == "SCBK"
    inp = PB.BitInput(env, n, "f")          # occupation vector in the register's ordering
    fn = real_encoder(mapping, n, utd)
    enc = None
    if env.symbolic:
        try:
            enc = PB.AffineEnc(fn, n)
        except PB.NotAffine as e:
            env.notes.append(str(e))
    reorder = utd or scbk
    dom, dom_fn = True, None
    if scbk:
        n_alpha = (n_electrons + spin) // 2
        half = n // 2

        def dom_fn(f):
            return sum(f) % 2 == n_electrons % 2 and sum(f[:half]) % 2 == n_alpha % 2
        if env.symbolic:
            dom = z3.And(PB._zb(PB._xor_all(inp.bits, PB.Z3Bits)) == bool(n_electrons % 2),
                         PB._zb(PB._xor_all(inp.bits[:half], PB.Z3Bits)) == bool(n_alpha % 2))
    for p in range(n):
        kw = dict(n_spinorbitals=n, up_then_down=utd)
        if scbk:
            kw.update(n_electrons=n_electrons, spin=spin)
        # the caller's number operator is built ONCE and encoded twice (e.g. once per state of a scan): the second encoding is the
        # same operator and the caller's object is untouched
        n_op = FermionOperator(((p, 1), (p, 0)))
        before = dict(n_op.terms)
        q = fermion_to_qubit_mapping(n_op, mapping, **kw).terms
        q_again = fermion_to_qubit_mapping(n_op, mapping, **kw).terms
        env.check_same(dict(n_op.terms), before, f"{mapping} utd={utd}: fermion_to_qubit_mapping leaves the caller's operator a_{p}^+ a_{p} unchanged")
        env.check_same({k: complex(v) for k, v in q_again.items()}, {k: complex(v) for k, v in q.items()},
                       f"{mapping} utd={utd}: encoding the same operator object a second time gives the same qubit operator")
        ref = {((p, 1), (p, 0)): 1}
        if canary and p == 1:
            ref = {((0, 1), (0, 0)): 1}          # wrong orbital
        ref = fock.relabel_terms(ref, n) if reorder else ref
        PB.check_action(env, inp, q, ref, enc, fn, f"{mapping} utd={utd}: map(a_{p}^+ a_{p}) |Enc f> = f_{p} |Enc f>", domain=dom, domain_fn=dom_fn)


def h_containers(env, mapping, n, utd):
    """AUXILIARY enumerated shape (no solver role): the encoder is checked above on integer numpy arrays; occupation vectors
    also arrive as lists / tuples (VQESolver ref_state) and as boolean / float arrays (mo_occ > 0). Every container must
    be encoded like the integer array of the same occupations."""
    import warnings
    import numpy as np
    from symx import shim
    from tangelo.toolboxes.qubit_mappings.statevector_mapping import get_mapped_vector
    bad = []
    with shim.concrete_mode(), warnings.catch_warnings():
        warnings.simplefilter("ignore")
        for f in itertools.product((0, 1), repeat=n):
            ref = tuple(int(x) for x in get_mapped_vector(np.array(f, dtype=int), mapping, utd))
            for nm, v in (("list", list(f)), ("tuple", tuple(f)), ("bool array", np.array(f, dtype=bool)),
                          ("float array", np.array(f, dtype=float)), ("list of bool", [bool(x) for x in f]), ("int array", np.array(f, dtype=int))):
                keep = list(v)
                try:
                    got = tuple(int(x) for x in get_mapped_vector(v, mapping, utd))
                except Exception as e:       # noqa
                    got = f"{type(e).__name__}: {e}"
                if got != ref:
                    bad.append((f, nm, got, ref))
                if list(v) != keep:
                    bad.append((f, nm, "the caller's vector was modified", list(v), keep))
            # the ordering flag as a numpy boolean / an integer / None (results of numpy comparisons, unset options) means the
            # same as the Python bool of the same truth value
            import warnings as _w
            for flag in ((np.bool_(True), 1) if utd else (np.bool_(False), 0, None)):
                with _w.catch_warnings():
                    _w.simplefilter("ignore")
                    got = tuple(int(x) for x in get_mapped_vector(np.array(f, dtype=int), mapping, flag))
                if got != ref:
                    bad.append((f, f"up_then_down={flag!r}", got, ref))
        if True:
            from tangelo.toolboxes.operators import FermionOperator
            from tangelo.toolboxes.qubit_mappings.mapping_transform import fermion_to_qubit_mapping
            kw = dict(n_spinorbitals=n, n_electrons=2, spin=0) if mapping.lower() == "scbk" else dict(n_spinorbitals=n)
            for p in range(n):
                op = FermionOperator(((p, 1), (p, 0))) + FermionOperator(((p, 1), ((p + 2) % n, 0)), 0.5) + FermionOperator((((p + 2) % n, 1), (p, 0)), 0.5)
                ref_op = dict(fermion_to_qubit_mapping(op, mapping, up_then_down=bool(utd), **kw).terms)
                for flag in ((np.bool_(True), 1) if utd else (np.bool_(False), 0)):
                    got_op = dict(fermion_to_qubit_mapping(op, mapping, up_then_down=flag, **kw).terms)
                    if set(got_op) != set(ref_op) or any(abs(complex(got_op[k]) - complex(ref_op[k])) > 1e-12 for k in got_op):
                        bad.append((p, f"operator encoder with up_then_down={flag!r} differs from up_then_down={bool(utd)}"))
    env.check_true(not bad, f"get_mapped_vector[{mapping}, up_then_down={utd}, n={n}] encodes every container type like the integer array",
                   detail=str(bad[:3]))


# ------------------------------------------------------------------ (b) reference states
def expected_reference(n, n_electrons, spin):
    """interleaved occupation vector of the reference determinant: lowest n_alpha alpha and n_beta beta orbitals"""
    if spin is None:
        na, nb = (n_electrons + 1) // 2, n_electrons // 2
    else:
        na, nb = (n_electrons + spin) // 2, (n_electrons - spin) // 2
    f = [0] * n
    for i in range(na):
        f[2 * i] = 1
    for i in range(nb):
        f[2 * i + 1] = 1
    return tuple(f), na, nb


def h_reference(env, mapping, n, utd, simulate=True, canary=False):
    from tangelo.toolboxes.operators import FermionOperator
    from tangelo.toolboxes.qubit_mappings.mapping_transform import fermion_to_qubit_mapping
    from tangelo.toolboxes.qubit_mappings.statevector_mapping import get_vector, get_reference_circuit
    import warnings
    scbk = mapping.upper() == "SCBK"
    nq = n - 2 if scbk else n
    cases = [(ne, sp) for ne, sp in admissible(n)]
    cases += [(ne, None) for ne in range(n + 1)]
    nops = {}
    for (ne, sp) in cases:
        f, na, nb = expected_reference(n, ne, sp)
        eff_spin = na - nb
        with warnings.catch_warnings():
            warnings.simplefilter("ignore")
            vec = tuple(int(round(float(x))) for x in get_vector(n, ne, mapping, up_then_down=utd, spin=sp))
            # the returned vector is the caller's: editing it in place must not reach a later request with the same arguments
            raw = get_vector(n, ne, mapping, up_then_down=utd, spin=sp)
            try:
                raw[:] = 1 - raw
            except Exception:       # noqa  (an immutable result is fine too)
                pass
            again = tuple(int(round(float(x))) for x in get_vector(n, ne, mapping, up_then_down=utd, spin=sp))
            circ = get_reference_circuit(n, ne, mapping, up_then_down=utd, spin=sp)
        env.check_same(again, vec, f"{mapping} n={n} N={ne} spin={sp} utd={utd}: get_vector gives the same vector after the caller edited an earlier result in place")
        if sp is not None:
            # n_electrons / spin computed with numpy arrive as numpy integers (e.g. occ[::2].sum() - occ[1::2].sum()): same state
            import numpy as _np
            with warnings.catch_warnings():
                warnings.simplefilter("ignore")
                for ity in (_np.int64, _np.int32, _np.int8):
                    v_np = tuple(int(round(float(x))) for x in get_vector(n, ity(ne), mapping, up_then_down=utd, spin=ity(sp)))
                    c_np = get_reference_circuit(n, ity(ne), mapping, up_then_down=utd, spin=ity(sp))
                    env.check_same(v_np, vec, f"{mapping} n={n} N={ne} spin={sp} utd={utd}: get_vector with {ity.__name__} arguments == with Python ints")
                    env.check_same(sorted((g.name, tuple(g.target)) for g in c_np._gates), sorted((g.name, tuple(g.target)) for g in circ._gates),
                                   f"{mapping} n={n} N={ne} spin={sp} utd={utd}: get_reference_circuit with {ity.__name__} arguments == with Python ints")
        env.check_same(len(vec), nq, f"{mapping}: reference vector has {nq} entries")
        env.check_same(circ.width, nq, f"{mapping}: reference circuit acts on {nq} qubits")
        # the circuit prepares the basis state |vec>
        if simulate:
            st = R.run_gates(circ._gates, nq)
            idx = int("".join(map(str, vec)), 2) if nq else 0
            exp = R.basis_state(nq, idx)
            env.check_vec_eq(st, exp, f"{mapping} n={n} N={ne} spin={sp} utd={utd}: circuit prepares the basis state of get_vector")
        else:
            xs = sorted(g.target[0] for g in circ._gates)
            env.check_true(all(g.name == "X" and not g.control for g in circ._gates) and xs == [i for i, v in enumerate(vec) if v],
                           f"{mapping} n={n} N={ne} spin={sp} utd={utd}: one X gate per set bit")
        # every encoded occupation operator has the requested eigenvalue on it
        key = (ne % 2, ((ne + eff_spin) // 2) % 2) if scbk else None
        if key not in nops:
            kw = dict(n_spinorbitals=n, up_then_down=utd)
            if scbk:
                kw.update(n_electrons=ne, spin=eff_spin)
            nops[key] = [fermion_to_qubit_mapping(FermionOperator(((p, 1), (p, 0))), mapping, **kw).terms for p in range(n)]
        if scbk and sp is None and not canary:
            # spin left at its default on BOTH sides (state encoder above, operator encoder here): they must agree
            with warnings.catch_warnings():
                warnings.simplefilter("ignore")
                dflt = [fermion_to_qubit_mapping(FermionOperator(((p, 1), (p, 0))), mapping, n_spinorbitals=n, up_then_down=utd, n_electrons=ne).terms
                        for p in range(n)]
            for p in range(n):
                out = PB.pauli_apply(dflt[p], vec, exact=True)
                env.check_true(PB.dict_exact_diff(out, {vec: f[p]} if f[p] else {}) is None,
                               f"{mapping} n={n} N={ne} spin unspecified on both sides, utd={utd}: <n_{p}> = {f[p]} on the reference state",
                               detail=f"vector {vec}, n_p|vec> = {out}")
        for p in range(n):
            out = PB.pauli_apply(nops[key][p], vec, exact=True)
            want = f[p]
            if canary and p == 0:
                want = 1 - want
            ok = PB.dict_exact_diff(out, {vec: want} if want else {}) is None
            env.check_true(ok, f"{mapping} n={n} N={ne} spin={sp} utd={utd}: <n_{p}> = {want} on the reference state",
                           detail=f"vector {vec}, n_p|vec> = {out}")


# ------------------------------------------------------------------ (c) vector_to_circuit on symbolic bits
def h_vector_to_circuit(env, n, canary=False):
    from tangelo.toolboxes.qubit_mappings.statevector_mapping import vector_to_circuit
    v = [env.integer(f"v{i}", 0, 1) for i in range(n)]
    circ = vector_to_circuit(v)
    st = R.run_gates(circ._gates, n)
    exp = []
    for j in range(2 ** n):
        a = R.C(1)
        for i in range(n):
            bit = (j >> (n - 1 - i)) & 1
            if canary and i == 0:
                bit = 1 - bit
            a = a * (v[i] if bit else (1 - v[i]))
        exp.append(a)
    env.check_vec_eq(st, exp, f"vector_to_circuit(v) prepares |v> ({n} qubits)")
    env.check_same(circ.width, n, "circuit width = len(vector)")


def shapes(tier, seed):
    quick = tier == "quick"
    out = []
    ns = (2, 4, 6, 8) if quick else (2, 4, 6, 8, 10, 12)
    for mapping in ("JW", "BK", "JKMN"):
        for n in ns + ((3, 5) if mapping != "JW" or not quick else (3,)):
            for utd in ((False, True) if n % 2 == 0 else (False,)):
                out.append(Shape(f"occupation/{mapping}/n{n}/utd{int(utd)}", h_occupation, dict(mapping=mapping, n=n, utd=utd), modules=MODS))
    for n in ((4, 6) if quick else (4, 6, 8, 10)):
        for (ne, sp) in admissible(n):
            for utd in (False, True):
                out.append(Shape(f"occupation/scBK/n{n}/N{ne}s{sp}/utd{int(utd)}", h_occupation,
                                 dict(mapping="scbk", n=n, utd=utd, n_electrons=ne, spin=sp), modules=MODS))
    for mapping in ("JW", "BK", "JKMN", "scBK"):
        for utd in (False, True):
            for n in ((4, 6) if quick else (2, 4, 6, 8)):
                out.append(Shape(f"aux/containers/{mapping}/n{n}/utd{int(utd)}", h_containers, dict(mapping=mapping, n=n, utd=utd), modules=()))
    out.append(Shape("canary/occupation/BK", h_occupation, dict(mapping="BK", n=4, utd=True, canary=True), modules=MODS, canary=True))
    out.append(Shape("canary/occupation/scBK", h_occupation, dict(mapping="scbk", n=6, utd=False, n_electrons=3, spin=1, canary=True),
                     modules=MODS, canary=True))
    for mapping in ("JW", "BK", "JKMN", "scBK"):
        for n in ((2, 4, 6, 8) if quick else (2, 4, 6, 8, 10, 12)):
            if mapping == "scBK" and n < 4:
                continue
            for utd in (False, True):
                out.append(Shape(f"reference/{mapping}/n{n}/utd{int(utd)}", h_reference,
                                 dict(mapping=mapping, n=n, utd=utd, simulate=(n <= 10)), modules=MODS))
    out.append(Shape("canary/reference/JKMN", h_reference, dict(mapping="JKMN", n=4, utd=True, canary=True), modules=MODS, canary=True))
    out.append(Shape(f"vector_to_circuit/n{4 if quick else 5}", h_vector_to_circuit, dict(n=4 if quick else 5),
                     policy=dict(truth="fork"), modules=MODS, max_paths=64))
    out.append(Shape("canary/vector_to_circuit", h_vector_to_circuit, dict(n=2, canary=True), policy=dict(truth="fork"), modules=MODS, canary=True))
    return out
