"""C02  Expectation values equal <psi|H|psi> on every evaluation path."""
import itertools
import random

import numpy as np

from symx.core import Shape
from symx import refsem as R, shim, cirqstub, path
from symx.num import Sym
from harness.c01 import make_backend, as_array, build_gates, oracle, _StatsProxy, PARAM

PROPERTY = "C02"
MODS = ("tangelo.linq.target.backend", "tangelo.linq.target.target_cirq", "tangelo.linq.translator.translate_cirq",
        "tangelo.linq.helpers.circuits.measurement_basis")

META = dict(
    explanation="Backend.get_expectation_value / get_variance / get_standard_error are executed on operators with SYMBOLIC "
                "(real and complex) coefficients, state-preparation circuits with SYMBOLIC angles and SYMBOLIC initial "
                "statevectors, through every route: cirq-native (operator translated term by term by the real "
                "translate_operator; exact <psi|P|psi> of the real PauliString), the generic statevector route (Pauli "
                "circuit overlap; a Backend subclass without the native method), the exact-frequency route (basis rotation "
                "per term), post-selection on a mid-circuit outcome, and the sampled route (distribution handed to the "
                "sampler + estimator on arbitrary symbolic frequencies). Result compared with refsem <psi|H|psi>.",
    bounds=dict(quick="n<=3 qubits, operators of 1-3 Pauli words (+identity) from all words on <=2 qubits and a seeded pool, "
                      "state preparations of <=3 gates", thorough="n<=3, all words on <=3 qubits singly, 2-4 term operators, seeded preparations of <=4 gates"),
    outside=["IEEE rounding", "RNG quality", "noisy route (C19)", "probabilities below freq_threshold (threshold-assume)",
             "openfermion compress() of coefficients below its 1e-8 tolerance"],
    stubs=["cirq.Simulator -> exact stub", "cirq.PauliSum.expectation_from_state_vector -> exact <psi|P|psi> of the real "
           "PauliString objects produced by the real translate_operator (one call per term, linearity assumed)",
           "scipy.stats.rv_discrete -> recorder + solver-chosen draw"],
    trusted_base=["symx.refsem Pauli action / expectation"],
)


def preload():
    import cirq  # noqa
    from tangelo.linq import get_backend  # noqa
    cirqstub.self_check()


class _SymPauliSum:
    """exact expectation of real cirq PauliStrings, coefficients kept symbolic"""

    def __init__(self, items):
        self.items = items        # list of (coef, cirq PauliSum for the unit-coefficient term)

    def expectation_from_state_vector(self, state, qubit_map, **k):
        import cirq
        st = [Sym.of(x) for x in np.asarray(state, dtype=object).reshape(-1)]
        n = len(qubit_map)
        name = {cirq.X: "X", cirq.Y: "Y", cirq.Z: "Z"}
        tot = Sym.of(0)
        for coef, ps in self.items:
            for pstring in ps:
                word = [(qubit_map[q], name[p]) for q, p in pstring.items()]
                val = R.inner(st, R.apply_pauli_word(st, n, word))
                tot = tot + Sym.of(coef) * Sym.of(complex(pstring.coefficient)) * val
        return tot


    def expectation_from_density_matrix(self, state, qubit_map, **k):
        """tr(rho P) term by term (rho: symbolic 2^n x 2^n array, index = bitstring with qubit 0 first)"""
        import cirq
        arr = np.asarray(state, dtype=object)
        rho = [[Sym.of(x) for x in row] for row in arr]
        n = len(qubit_map)
        name = {cirq.X: "X", cirq.Y: "Y", cirq.Z: "Z"}
        tot = Sym.of(0)
        for coef, ps in self.items:
            for pstring in ps:
                word = tuple(sorted((qubit_map[q], name[p]) for q, p in pstring.items()))
                tot = tot + Sym.of(coef) * Sym.of(complex(pstring.coefficient)) * R.dm_expectation(rho, n, {word: R.C(1)})
        return tot


def _sym_translate_operator(real_translate):
    def translate_operator(qubit_operator, source, target, **kw):
        if source == "tangelo" and target == "cirq":
            from tangelo.toolboxes.operators import QubitOperator
            items = []
            for term, coef in qubit_operator.terms.items():
                items.append((coef, real_translate(QubitOperator(term, 1.0), source, target, **kw)))
            return _SymPauliSum(items)
        return real_translate(qubit_operator, source, target, **kw)
    return translate_operator


def make_op(env, words, complex_coefs=False, ident=False):
    from tangelo.toolboxes.operators import QubitOperator
    op = QubitOperator()
    terms = {}
    for i, w in enumerate(words):
        cplx = complex_coefs if isinstance(complex_coefs, bool) else bool(complex_coefs[i])      # bool, or one flag per term
        c = env.complex(f"c{i}") if cplx else env.real(f"c{i}", lo=-3, hi=3)
        op.terms[tuple(w)] = c
        terms[tuple(w)] = c
    if ident:
        c = env.real("cid", lo=-3, hi=3)
        op.terms[()] = c
        terms[()] = c
    return op, terms


def _backend(env, route, n_shots=None):
    from tangelo.linq.target.backend import Backend
    from tangelo.linq.target.target_cirq import CirqSimulator
    b = make_backend(env, n_shots=n_shots)
    if env.symbolic:
        import tangelo.linq.target.target_cirq as tc
        real = tc.__dict__.get("_verif_real_translate_operator") or tc.translate_operator
        tc.__dict__["_verif_real_translate_operator"] = real
        tc.__dict__["translate_operator"] = _sym_translate_operator(real)
    if route == "native":
        return b

    class Plain(Backend):
        """a backend exposing statevectors but no native expectation method"""

        def __init__(self, inner):
            super().__init__(n_shots=inner.n_shots)
            self.inner = inner

        def simulate_circuit(self, *a, **k):
            r = self.inner.simulate_circuit(*a, **k)
            self._current_state = self.inner._current_state
            return r

        @staticmethod
        def backend_info():
            return CirqSimulator.backend_info()
    return Plain(b)


def _restore():
    import tangelo.linq.target.target_cirq as tc
    real = tc.__dict__.pop("_verif_real_translate_operator", None)
    if real is not None:
        tc.__dict__["translate_operator"] = real


def h_expect(env, route, words, spec, n, init, complex_coefs=False, ident=False, canary=False):
    from tangelo.linq import Circuit
    gates, params = build_gates(env, spec)
    circ = Circuit(gates, n_qubits=n)
    op, terms = make_op(env, words, complex_coefs, ident)
    try:
        b = _backend(env, route)
        if init:
            psi = env.state(n, "psi", normalized=True)
            val = b.get_expectation_value(op, circ, initial_statevector=as_array(env, psi))
        else:
            psi = R.basis_state(n, 0)
            val = b.get_expectation_value(op, circ)
    finally:
        _restore()
    st = oracle(spec, params, n, psi)
    oterms = dict(terms)
    if canary:
        k0 = list(oterms)[-1]
        oterms[k0] = -oterms[k0]
    exp = R.expectation(st, n, oterms)
    env.check_eq(val, exp, f"get_expectation_value[{route}] == <psi|H|psi> for words {words}")


def h_expect_scan(env, route, words, spec, n):
    """ONE backend object evaluating several operators in a row that share their Pauli words and differ in the coefficients
    (an energy scan H0 + lambda V, a rescaled operator): every value belongs to the operator it was asked for"""
    from tangelo.linq import Circuit
    gates, params = build_gates(env, spec)
    circ = Circuit(gates, n_qubits=n)
    ops = []
    for j in range(3):
        op, terms = make_op(env, words, complex_coefs=False)
        if j:
            for i_, w in enumerate(list(op.terms)):
                c = env.real(f"c{i_}_{j}", lo=-3, hi=3)
                op.terms[w] = c
                terms[w] = c
        ops.append((op, dict(terms)))
    try:
        b = _backend(env, route)
        vals = [b.get_expectation_value(op, circ) for op, _ in ops]
    finally:
        _restore()
    st = oracle(spec, params, n, R.basis_state(n, 0))
    for j, ((op, terms), val) in enumerate(zip(ops, vals)):
        env.check_eq(val, R.expectation(st, n, terms), f"get_expectation_value[{route}] of operator #{j} (same words as the previous ones, other coefficients)")


def h_variance(env, words, spec, n, complex_coefs=False, ident=False):
    from tangelo.linq import Circuit
    gates, params = build_gates(env, spec)
    circ = Circuit(gates, n_qubits=n)
    op, terms = make_op(env, words, complex_coefs, ident=ident)
    try:
        b = _backend(env, "native")
        var = b.get_variance(op, circ)
        se = b.get_standard_error(op, circ)
    finally:
        _restore()
    st = oracle(spec, params, n, R.basis_state(n, 0))
    exp = R.C(0)
    for w, c in terms.items():
        if not w:
            continue                # a constant shifts the operator and contributes no variance
        e = R.expectation(st, n, {w: R.C(1)})
        exp = exp + c * R.n_conj(c) * (1 - e * e)
    env.check_eq(var, exp, "get_variance == sum |c_k|^2 (1 - <P_k>^2) of the exact distribution")
    env.check_eq(se, 0, "standard error without shots is 0")


def h_scalar_types(env, method):
    """AUXILIARY concrete shape (no solver role; the subject is Python / numpy TYPE dispatch on the coefficients): the same operator
    with its coefficients stored as every numeric scalar type a user can obtain (Python int/float/complex, numpy integers, single
    and double precision floats and complex numbers, with non-zero imaginary parts): get_expectation_value / get_variance /
    get_standard_error of the real cirq backend equal the dense reference (1e-6 for single precision inputs, else 1e-9)"""
    import math
    from tangelo.linq import Circuit, Gate, get_backend
    from tangelo.toolboxes.operators import QubitOperator
    from openfermion import get_sparse_operator
    words = [((0, "X"), (1, "Y")), ((0, "Z"),), ((1, "X"),), ((0, "Y"), (1, "Y"))]
    base = [0.5 - 0.25j, -0.75 + 0.5j, 1.25 + 0.125j, 0.25 - 1.0j]
    kinds = [("complex", complex, True), ("np.complex64", np.complex64, True), ("np.complex128", np.complex128, True),
             ("float", float, False), ("np.float32", np.float32, False), ("np.float64", np.float64, False),
             ("int", int, False), ("np.int64", np.int64, False), ("np.int8", np.int8, False)]
    with shim.concrete_mode():
        circ = Circuit([Gate("RY", 0, parameter=0.7), Gate("RX", 1, parameter=-1.1), Gate("CNOT", 1, 0), Gate("RZ", 1, parameter=0.4), Gate("H", 0)], n_qubits=2)
        b = get_backend("cirq", n_shots=None)
        _, sv = b.simulate(circ, return_statevector=True)
        sv = np.asarray(sv, dtype=complex)
        for name, ty, is_c in kinds:
            op = QubitOperator()
            ref_terms = {}
            for w, c in zip(words, base):
                v = ty(c) if is_c else ty(round(c.real * 4)) if "int" in name else ty(c.real)
                op.terms[w] = v
                ref_terms[w] = complex(v)
            dense = {w: get_sparse_operator(QubitOperator(w, 1.0), n_qubits=2).toarray() for w in words}
            e_ref = sum(c * (sv.conj() @ dense[w] @ sv) for w, c in ref_terms.items())
            v_ref = sum(abs(c) ** 2 * (1 - (sv.conj() @ dense[w] @ sv).real ** 2) for w, c in ref_terms.items())
            tol = 1e-5 if name in ("np.float32", "np.complex64") else 1e-9
            if method == "get_expectation_value":
                got, want = b.get_expectation_value(op, circ), e_ref
            elif method == "get_variance":
                got, want = b.get_variance(op, circ), v_ref
            else:
                got, want = b.get_standard_error(op, circ), 0.0
            env.check_true(abs(complex(got) - complex(want)) < tol, f"{method} with {name} coefficients == dense reference", detail=f"got {got!r}, reference {want!r}")
        if method == "get_expectation_value":
            # weak terms: coefficient parts between the documented compression tolerance (1e-8) and 1e-4 still count
            weak = [0.5 - 0.25j, 3e-5 + 0j, -0.75 + 2e-5j, 6e-5 - 4e-5j]
            for name, ty in (("complex", complex), ("np.complex128", np.complex128), ("real part only", None)):
                op = QubitOperator()
                for w, c in zip(words, weak):
                    op.terms[w] = ty(c) if ty else c.real
                e_ref = sum(complex(c) * (sv.conj() @ dense[w] @ sv) for w, c in op.terms.items())
                got = b.get_expectation_value(op, circ)
                env.check_true(abs(complex(got) - complex(e_ref)) < 1e-9, f"get_expectation_value with weak terms (|coefficient part| 2e-5 .. 6e-5, {name}) == dense reference",
                               detail=f"got {got!r}, reference {e_ref!r}")


def h_sympy_expect(env, words, spec, n, canary=False):
    """the sympy backend (run for real on string parameters): get_expectation_value == <psi|H|psi>"""
    from tangelo.linq import Circuit, Gate, get_backend
    from tangelo.toolboxes.operators import QubitOperator
    from symx import sympyconv
    gates, params, symmap = [], [], {}
    for i, (name, tg, ct) in enumerate(spec):
        if name in PARAM:
            th = env.angle(f"th{i}")
            symmap[f"th{i}"] = th
            params.append(th)
            gates.append(Gate(name, tg, control=ct if ct else None, parameter=f"th{i}"))
        else:
            params.append("")
            gates.append(Gate(name, tg, control=ct if ct else None))
    circ = Circuit(gates, n_qubits=n)
    # concrete rational coefficients (the sympy route post-processes with simplify().evalf())
    coefs = [0.5, -0.75, 1.25, 0.25]
    op = QubitOperator()
    terms = {}
    for w, c in zip(words, coefs):
        op.terms[tuple(w)] = c
        terms[tuple(w)] = c
    b = get_backend("sympy")
    with shim.concrete_mode():
        val = b.get_expectation_value(op, circ)
    st = oracle(spec, params, n, R.basis_state(n, 0))
    exp = R.expectation(st, n, terms)
    if canary:
        exp = exp + 1
    got = sympyconv.to_number(val, symmap, env.symbolic)
    if env.symbolic:
        d = Sym.of(got) - Sym.of(exp)
        env.check_le(d.real * d.real + d.imag * d.imag, 1e-16, "sympy get_expectation_value == <psi|H|psi> (up to evalf rounding 1e-8)")
    else:
        env.check_le(abs(complex(got) - complex(exp)), 1e-8, "sympy get_expectation_value == <psi|H|psi>")


def h_postselect(env, words, pre, post, mq, outcome, n, route):
    """MEASURE in the middle, desired_meas_result given: expectation is that of the normalised branch state"""
    from tangelo.linq import Circuit, Gate
    g1, p1 = build_gates(env, pre)
    g2, p2 = [], []
    for i, (name, tg, ct) in enumerate(post):
        th = env.angle(f"ph{i}") if name in PARAM else ""
        p2.append(th)
        g2.append(Gate(name, tg, control=ct if ct else None, parameter=th))
    circ = Circuit(g1 + [Gate("MEASURE", mq)] + g2, n_qubits=n)
    op, terms = make_op(env, words)
    try:
        b = _backend(env, route)
        val = b.get_expectation_value(op, circ, desired_meas_result=str(outcome))
    finally:
        _restore()
    st = oracle(pre, p1, n, R.basis_state(n, 0))
    proj, prob = R.project(st, n, mq, outcome)
    st2 = oracle(post, p2, n, proj)
    # <H> on the normalised branch = <proj|U^ H U|proj> / prob   (stated multiplicatively)
    num_ = R.expectation(st2, n, terms)
    env.check_eq(val * prob, num_, f"post-selected expectation[{route}] * P(outcome) == unnormalised branch expectation")


def h_postselect2(env, words, outcome, route):
    """two MEASURE gates separated by gates; every outcome string"""
    from tangelo.linq import Circuit, Gate
    n = 2
    a0, a1, a2 = env.angle("th0"), env.angle("th1"), env.angle("th2")
    segs = [[("RY", [0], None, a0), ("RX", [1], None, a1), ("CNOT", [1], [0], None)], [("CRY", [0], [1], a2), ("H", [1], None, None)],
            [("RX", [0], None, a1)]]
    mqs = [0, 1]
    gates = []
    for k, seg in enumerate(segs):
        gates += [Gate(nm, tg, control=ct, parameter=(pa if pa is not None else "")) for nm, tg, ct, pa in seg]
        if k < 2:
            gates.append(Gate("MEASURE", mqs[k]))
    circ = Circuit(gates, n_qubits=n)
    op, terms = make_op(env, words)
    try:
        b = _backend(env, route)
        val = b.get_expectation_value(op, circ, desired_meas_result=outcome)
    finally:
        _restore()
    st = R.basis_state(n, 0)
    prob = None
    for k, seg in enumerate(segs):
        for nm, tg, ct, pa in seg:
            st = R.apply_gate(st, n, nm, tg, ct, pa)
        if k < 2:
            st, _ = R.project(st, n, mqs[k], int(outcome[k]))
    prob = R.inner(st, st)
    env.check_eq(val * prob, R.expectation(st, n, terms), f"post-selected expectation[{route}] on outcome string {outcome} (times its probability)")


def h_freq_mixed(env, word, pre, post, mq, n, method="get_expectation_value"):
    """shot-based route on a circuit containing MEASURE, WITH an initial statevector: per term, the distribution handed to the
    (density-matrix) sampler is the unconditioned Born distribution of the basis-rotated state evolved from that initial state"""
    from tangelo.linq import Circuit, Gate
    from tangelo.toolboxes.operators import QubitOperator
    g1, p1 = build_gates(env, pre)
    g2, p2 = [], []
    for i, (name, tg, ct) in enumerate(post):
        th = env.angle(f"ph{i}") if name in PARAM else ""
        p2.append(th)
        g2.append(Gate(name, tg, control=ct if ct else None, parameter=th))
    circ = Circuit(g1 + [Gate("MEASURE", mq)] + g2, n_qubits=n)
    op = QubitOperator()
    c = env.real("c", lo=-2, hi=2)
    op.terms[tuple(word)] = c
    psi = env.state(n, "psi", normalized=True)
    rot = {"X": ("RY", -np.pi / 2), "Y": ("RX", np.pi / 2)}
    want = [R.C(0) for _ in range(2 ** n)]
    st = oracle(pre, p1, n, psi)
    for outcome in (0, 1):
        proj, _ = R.project(st, n, mq, outcome)
        st2 = oracle(post, p2, n, proj)
        for q, p in word:
            if p in rot:
                st2 = R.apply_gate(st2, n, rot[p][0], [q], None, rot[p][1])
        for i, a in enumerate(st2):
            want[i] = want[i] + a * R.n_conj(a)
    if env.symbolic:
        b = make_backend(env, n_shots=1)
        val = getattr(b, method)(op, circ, initial_statevector=as_array(env, psi))
        calls = b.cirq.sampler_calls
        env.check_true(len(calls) >= 1 and calls[-1]["kind"] == "density_matrix", "density-matrix sampler used")
        env.check_vec_eq(calls[-1]["probs"], want, f"{method}: outcome distribution for term {word} starts from the supplied initial statevector")
    else:
        b = make_backend(env, n_shots=40000)
        seen, orig = [], b.simulate

        def recording(*a, **k):
            r = orig(*a, **k)
            seen.append(r[0])
            return r
        b.simulate = recording
        getattr(b, method)(op, circ, initial_statevector=as_array(env, psi))
        # replay only (reached when the solver has produced a counterexample): the 40000-shot histogram of the term's
        # measurement is within 5 sigma (<= 0.0125) of the distribution the property demands
        freqs = seen[-1]
        for i, p in enumerate(want):
            env.check_le(abs(freqs.get(R.bitstring(i, n), 0.) - complex(p).real), 0.015,
                         f"{method}: outcome distribution for term {word} starts from the supplied initial statevector")


def h_oneterm(env, n, keys, word):
    """estimator on arbitrary symbolic frequencies"""
    from tangelo.linq.target.backend import get_expectation_value_from_frequencies_oneterm, get_variance_from_frequencies_oneterm
    freqs = {k: env.real(f"f{k}", lo=0, hi=1) for k in keys}
    term = tuple(word)
    if env.symbolic:
        tot = Sym.of(0)
        for f in freqs.values():
            tot = tot + f
        from symx.smt import Cons
        env.assume(Cons((tot - 1).p, "=="), "frequencies sum to 1")
    else:
        tot = sum(freqs.values())
        if tot <= 0:
            freqs = {k: 1.0 / len(freqs) for k in freqs}
        else:
            freqs = {k: f / tot for k, f in freqs.items()}
    val = get_expectation_value_from_frequencies_oneterm(term, freqs)
    exp = R.C(0)
    for k, f in freqs.items():
        par = sum(int(k[q]) for q, _ in word) % 2
        exp = exp + (f if par == 0 else -f)
    env.check_eq(val, exp, "one-term estimator = sum_b (-1)^{parity of b on the word's qubits} f_b")
    var = get_variance_from_frequencies_oneterm(term, freqs)
    env.check_eq(var, 1 - exp * exp, "one-term variance = 1 - <P>^2")


def h_sampled(env, words, spec, n):
    """n_shots=1: for every term the distribution handed to the sampler is the Born distribution of the
    basis-rotated state; the returned value is the estimator of the (solver-chosen) draw"""
    from tangelo.linq import Circuit
    import tangelo.linq.target.backend as bk
    gates, params = build_gates(env, spec)
    circ = Circuit(gates, n_qubits=n)
    op, terms = make_op(env, words)
    st = oracle(spec, params, n, R.basis_state(n, 0))
    if not env.symbolic:
        b = make_backend(env, n_shots=50)
        val = b.get_expectation_value(op, circ)
        bound = sum(abs(complex(c)) for c in terms.values())
        env.check_true(abs(complex(val)) <= bound + 1e-9, "sampled estimate within the trivial bound")
        return
    b = make_backend(env, n_shots=1)
    sp = _StatsProxy()
    old = bk.__dict__["stats"]
    bk.__dict__["stats"] = sp
    try:
        val = b.get_expectation_value(op, circ)
    finally:
        bk.__dict__["stats"] = old
    nt = len([w for w in terms if w])
    env.check_true(len(sp.calls) >= nt, "at least one sampling call per non-identity term")
    rot = {"X": ("RY", -np.pi / 2), "Y": ("RX", np.pi / 2)}
    for (xk, pk), w in zip(sp.calls[-nt:], [w for w in terms if w]):
        st2 = list(st)
        for q, p in w:
            if p in rot:
                st2 = R.apply_gate(st2, n, rot[p][0], [q], None, rot[p][1])
        for x, pr in zip(xk, pk):
            key = format(int(x), f"0{n}b")[::-1]
            a = st2[int(key, 2)]
            env.check_eq(pr, a * R.n_conj(a), f"term {w}: probability of {key} handed to the sampler")
    # the value is sum_k c_k * (+-1): it must be one of the 2^k sign combinations
    cs = [terms[w] for w in terms if w]
    ok = None
    for signs in itertools.product((1, -1), repeat=len(cs)):
        tot = R.C(0)
        for s, c in zip(signs, cs):
            tot = tot + s * c
        d = (Sym.of(val) - tot).p
        if d.is_zero():
            ok = True
    env.check_true(bool(ok), "single-shot estimate is sum of +-c_k")


def words_upto(nq):
    out = []
    for k in range(1, nq + 1):
        for qs in itertools.combinations(range(nq), k):
            for ps in itertools.product("XYZ", repeat=k):
                out.append(list(zip(qs, ps)))
    return out


PREPS = [
    [("RY", [0], []), ("CNOT", [1], [0])],
    [("H", [0], []), ("RX", [1], []), ("CZ", [1], [0])],
    [("RX", [0], []), ("RY", [1], []), ("XX", [0, 1], [])],
    [("RY", [1], []), ("CRX", [0], [1])],
    [("H", [0], []), ("S", [0], []), ("RY", [1], [])],
]


def shapes(tier, seed):
    rnd = random.Random(seed)
    out = []
    n = 2
    W2 = words_upto(2)
    routes = ["native", "plain"]
    # single words, all of them on 2 qubits, alternating routes / preparations / initial state
    sel = W2 if tier == "thorough" else rnd.sample(W2, 8)
    for i, w in enumerate(sel):
        nm = "".join(f"{p}{q}" for q, p in w)
        for route in (routes if tier == "thorough" else [routes[i % 2]]):
            out.append(Shape(f"expect/{route}/{nm}/prep{i % len(PREPS)}", h_expect,
                             dict(route=route, words=[w], spec=PREPS[i % len(PREPS)], n=n, init=(i % 3 == 0)), modules=MODS))
    # multi-term operators, identity term, complex coefficients, empty circuit (exact-frequency route)
    pool3 = words_upto(3)
    nops = 6 if tier == "quick" else 24
    for i in range(nops):
        k = rnd.choice([2, 3])
        ws = rnd.sample(W2 if i % 2 == 0 else pool3, k)
        nn = 2 if i % 2 == 0 else 3
        spec = PREPS[i % len(PREPS)] if nn == 2 else PREPS[i % len(PREPS)] + [("CNOT", [2], [1])]
        nm = "+".join("".join(f"{p}{q}" for q, p in w) for w in ws)
        out.append(Shape(f"expect/{routes[i % 2]}/multi/{i}_{nm}", h_expect,
                         dict(route=routes[i % 2], words=ws, spec=spec, n=nn, init=(i % 4 == 1), ident=(i % 3 == 0)), modules=MODS))
    # words that share their sequence of non-Z letters but sit on DIFFERENT qubits (same basis-change gates, other targets)
    same_letters = [([[(0, "X")], [(1, "X")]], 2), ([[(0, "X"), (1, "Z")], [(0, "Z"), (1, "X")]], 2), ([[(0, "X"), (1, "Y")], [(0, "Y"), (1, "X")]], 2),
                    ([[(0, "Y")], [(1, "Y")], [(0, "Y"), (1, "Z")]], 2)]
    for i, (ws, nn) in enumerate(same_letters):
        for route in routes:
            spec = PREPS[(i + 1) % len(PREPS)] if nn == 2 else PREPS[i % len(PREPS)] + [("CNOT", [2], [1]), ("RY", [2], [])]
            nm = "+".join("".join(f"{p}{q}" for q, p in w) for w in ws)
            out.append(Shape(f"expect/{route}/same-letters/{nm}", h_expect, dict(route=route, words=ws, spec=spec, n=nn, init=(i % 2 == 0)), modules=MODS))
            if nn == 2:
                out.append(Shape(f"expect/{route}/same-letters/{nm}/emptycircuit", h_expect, dict(route=route, words=ws, spec=[], n=nn, init=True), modules=MODS))
    for i, route in enumerate(routes):
        out.append(Shape(f"expect/{route}/scan", h_expect_scan, dict(route=route, words=[[(0, "X")], [(0, "Z"), (1, "Y")], [(1, "Z")]], spec=PREPS[i], n=2),
                         modules=MODS))
        out.append(Shape(f"expect/{route}/complex-noconst", h_expect, dict(route=route, words=[[(0, "Y")], [(0, "Z"), (1, "X")]],
                                                                          spec=PREPS[i + 1], n=2, init=False, complex_coefs=True, ident=False), modules=MODS))
        out.append(Shape(f"expect/{route}/complex", h_expect, dict(route=route, words=[[(0, "X")], [(0, "Z"), (1, "Y")]],
                                                                  spec=PREPS[i], n=2, init=True, complex_coefs=True, ident=True), modules=MODS))
        out.append(Shape(f"expect/{route}/emptycircuit", h_expect, dict(route=route, words=[[(0, "X"), (1, "Y")], [(1, "Z")]], spec=[], n=2,
                                                                       init=True, ident=True), modules=MODS))
    out.append(Shape("canary/expect/sign", h_expect, dict(route="plain", words=[[(0, "Y")], [(1, "Z")]], spec=PREPS[0], n=2, init=False, canary=True),
                     modules=MODS, canary=True))
    out.append(Shape("variance/0", h_variance, dict(words=[[(0, "X")], [(0, "Z"), (1, "Z")]], spec=PREPS[0], n=2), modules=MODS))
    out.append(Shape("variance/complex", h_variance, dict(words=[[(0, "X")], [(0, "Z"), (1, "Z")]], spec=PREPS[2], n=2, complex_coefs=True), modules=MODS))
    sy = [([[(0, "X")], [(0, "Y"), (1, "Z")]], [("RX", [0], []), ("H", [1], []), ("CNOT", [1], [0])]),
          ([[(0, "Y")], [(1, "X")], [(0, "Z"), (1, "Y")]], [("RY", [0], []), ("S", [0], []), ("RZ", [1], []), ("H", [1], [])]),
          ([[(0, "Z")], [(0, "X"), (1, "X")]], [("H", [0], []), ("CRX", [1], [0])])]
    for i, (ws, spec) in enumerate(sy):
        out.append(Shape(f"sympy/expect/{i}", h_sympy_expect, dict(words=ws, spec=spec, n=2), modules=MODS))
    out.append(Shape("canary/sympy/expect", h_sympy_expect, dict(words=sy[0][0], spec=sy[0][1], n=2, canary=True), modules=MODS, canary=True))
    # coefficient TYPES mixed inside one operator (complex first / last / middle)
    w3 = [[(0, "X"), (1, "Y")], [(0, "Z")], [(1, "X")]]
    for nm, flags in (("complex-first", (1, 0, 0)), ("complex-last", (0, 0, 1)), ("complex-middle", (0, 1, 0))):
        if nm != "complex-middle" or tier == "thorough":     # the middle case needs > 20 s of solver time (var_imag == 0 branch)
            out.append(Shape(f"variance/mixed/{nm}", h_variance, dict(words=w3, spec=PREPS[2], n=2, complex_coefs=flags), modules=MODS))
        for route in routes:
            out.append(Shape(f"expect/{route}/mixed/{nm}", h_expect, dict(route=route, words=w3, spec=PREPS[2], n=2, init=False, complex_coefs=flags),
                             modules=MODS))
    out.append(Shape("variance/with-constant", h_variance, dict(words=[[(0, "X")], [(0, "Z"), (1, "Z")]], spec=PREPS[0], n=2, ident=True), modules=MODS))
    from harness import c10 as _c10
    for order in ("lsq_first", "msq_first"):
        for (nn, q, res) in ((2, 0, 1), (2, 1, 0), (3, 0, 0), (3, 2, 1), (3, 1, 1)):
            out.append(Shape(f"postselect/helper/{order}/n{nn}q{q}r{res}", _c10.h_collapse, dict(n=nn, qubit=q, result=res, order=order),
                             modules=MODS + tuple(_c10.MODS)))
    out.append(Shape("variance/1", h_variance, dict(words=[[(1, "Y")]], spec=PREPS[3], n=2), modules=MODS))
    for i, route in enumerate(routes):
        for outcome in (0, 1):
            out.append(Shape(f"postselect/{route}/o{outcome}", h_postselect,
                             dict(words=[[(0, "X")], [(0, "Z"), (1, "Z")]], pre=[("RY", [0], []), ("CNOT", [1], [0])],
                                  post=[("RX", [1], [])], mq=0, outcome=outcome, n=2, route=route), modules=MODS))
    for meth in ("get_expectation_value", "get_variance", "get_standard_error"):
        out.append(Shape(f"aux/scalar-types/{meth}", h_scalar_types, dict(method=meth), modules=()))
    out.append(Shape("freq_mixed/0", h_freq_mixed, dict(word=[(0, "Z"), (1, "X")], pre=[("RY", [0], [])], post=[("CNOT", [1], [0])], mq=0, n=2),
                     modules=MODS, max_paths=32))
    for meth in ("get_variance", "get_standard_error"):
        out.append(Shape(f"freq_mixed/{meth}", h_freq_mixed, dict(word=[(0, "Z"), (1, "X")], pre=[("RY", [0], [])], post=[("CNOT", [1], [0])], mq=0, n=2, method=meth),
                         modules=MODS, max_paths=32))
    out.append(Shape("freq_mixed/1", h_freq_mixed, dict(word=[(0, "Y"), (1, "Z")], pre=[("H", [1], [])], post=[("RX", [0], [])], mq=1, n=2),
                     modules=MODS, max_paths=32))
    # two measurements with gates in between and all four outcome strings
    for i, route in enumerate(routes):
        for o in ("00", "01", "10", "11"):
            out.append(Shape(f"postselect2/{route}/o{o}", h_postselect2,
                             dict(words=[[(0, "X")], [(1, "Z")], [(0, "Y"), (1, "X")]], outcome=o, route=route), modules=MODS))
    keysets = [["00", "01", "10", "11"], ["01", "10"], ["000", "011", "101", "110", "111"]]
    for i, ks in enumerate(keysets):
        nq = len(ks[0])
        for w in ([[(0, "Z")], [(0, "X"), (nq - 1, "Y")]] if tier == "quick" else words_upto(nq)[:: 3]):
            nm = "".join(f"{p}{q}" for q, p in w)
            out.append(Shape(f"oneterm/{i}/{nm}", h_oneterm, dict(n=nq, keys=ks, word=w), modules=MODS))
    out.append(Shape("sampled/0", h_sampled, dict(words=[[(0, "X")], [(0, "Z"), (1, "Y")]], spec=PREPS[0], n=2), modules=MODS, max_paths=64))
    return out
