"""C12  Symmetry operators and penalties are exact; default ansaetze conserve them."""
import copy
import itertools
import random
from fractions import Fraction as F

from symx.core import Shape
from symx import fock, paulibv as PB, refsem as R
from symx.num import Sym

PROPERTY = "C12"
MODS = ("tangelo.toolboxes.ansatz_generator.fermionic_operators", "tangelo.toolboxes.ansatz_generator.penalty_terms",
        "tangelo.toolboxes.qubit_mappings.mapping_transform", "tangelo.toolboxes.qubit_mappings.jkmn",
        "tangelo.toolboxes.qubit_mappings.symmetry_conserving_bravyi_kitaev",
        "tangelo.toolboxes.ansatz_generator.uccsd", "tangelo.toolboxes.ansatz_generator.upccgsd", "tangelo.toolboxes.ansatz_generator.uccgd",
        "tangelo.toolboxes.ansatz_generator.puccd", "tangelo.toolboxes.ansatz_generator.rucc", "tangelo.toolboxes.ansatz_generator.ansatz_utils",
        "tangelo.toolboxes.ansatz_generator._unitary_cc_paired", "tangelo.toolboxes.ansatz_generator._general_unitary_cc",
        "tangelo.toolboxes.ansatz_generator._unitary_cc_openshell",
        "openfermion.ops.operators.majorana_operator", "openfermion.transforms.opconversions.conversions")
SHAPE_BUDGET = dict(quick=150, thorough=900)

META = dict(
    explanation="(a) The REAL number_operator / spinz_operator / spin2_operator (both index layouts) applied, by the textbook ladder "
                "rules, to a symbolic occupation bit-vector equal N, S_z and S_- S_+ + S_z(S_z+1) of symx.fock matrix-element-wise "
                "(one z3 query over all determinants); after the REAL encodings (JW, BK, scBK sector; JKMN for the diagonal N, S_z) "
                "the Pauli sum acts on |Enc f> in the same way. (b) The REAL penalty terms with SYMBOLIC weight mu and target t: "
                "action on every determinant equals mu (N - t)^2, mu (S_z - t)^2, mu (S^2 - t)^2 (operator square of the reference), "
                "compared per monomial of (mu, t); combined_penalty with three symbolic weights/targets; mu(lambda - t)^2 >= 0 for "
                "every attainable eigenvalue lambda (solver, mu >= 0). (c) [N,H], [S_z,H], [S^2,H] built with the real operator "
                "classes and the real normal_ordered for a generic spin-free molecular Hamiltonian with symbolic integrals: every "
                "coefficient is the zero polynomial. (d) UCCSD, UCCGD, UpCCGSD(k=1), pUCCD, UCC1, UCC3 circuits built by the REAL "
                "ansatz classes with symbolic parameters (every sign branch of the Pauli-exponential builder is a solver-explored "
                "path), executed with the documented gate semantics: every amplitude outside the reference (N, S_z) sector is the "
                "zero polynomial.",
    bounds=dict(quick="(a) n_orbs <= 4 (S^2: <= 3), encodings on n_orbs <= 3; (b) N, S_z penalties n_orbs <= 3, S^2 penalty n_orbs = 2; "
                      "(c) N, S_z: 2-3 orbitals, S^2: 2 orbitals; (d) 4 qubits (2 electrons in 2 orbitals), pUCCD 2-3 qubits",
                thorough="(a) n_orbs <= 6; (b) n_orbs <= 4 (S^2 penalty <= 3); (c) all three operators on 2-3 orbitals; "
                         "(d) 4 qubits, plus UCCSD on 6 qubits (2 electrons in 3 orbitals) for 4 of the 32 parameter-sign patterns, |theta| in [0.01, 3]"),
    outside=["which pool operators ADAPT's gradient loop selects (a classical loop over measured gradients; the ansatz is grown here with listed selections from the default pool, 4 spin-orbitals)",
             "S^2 after the JKMN encoding (JKMN uses a different basis-phase convention; covered through multiplicativity in C03)",
             "IEEE rounding; coefficients below the 1e-8..1e-12 drop thresholds (threshold-assume policy)",
             "ansatz registers wider than 6 qubits; closed-shell UpCCGSD on 6 qubits (budget)"],
    stubs=["duck-typed molecule object (n_active_sos, n_active_electrons, active_spin, ...) instead of a PySCF-backed "
           "SecondQuantizedMolecule: the ansatz constructors only read these integers"],
    trusted_base=["symx.fock", "symx.paulibv", "documented gate matrices in symx.refsem"],
)


def preload():
    import tangelo.toolboxes.ansatz_generator.penalty_terms  # noqa
    import tangelo.toolboxes.ansatz_generator.uccsd  # noqa
    import tangelo.toolboxes.ansatz_generator.upccgsd  # noqa
    import tangelo.toolboxes.ansatz_generator.uccgd  # noqa
    import tangelo.toolboxes.ansatz_generator.puccd  # noqa
    import tangelo.toolboxes.ansatz_generator.rucc  # noqa


def real_encoder(mapping, n, utd):
    from harness.c03 import real_encoder as f
    return f(mapping, n, utd)


REF = dict(N=fock.number_terms, Sz=fock.sz_terms, S2=fock.s2_terms)


def real_operator(name, n_orbs, utd):
    from tangelo.toolboxes.ansatz_generator import fermionic_operators as fo
    return dict(N=fo.number_operator, Sz=fo.spinz_operator, S2=fo.spin2_operator)[name](n_orbs, up_then_down=utd)


def check_fermion_action(env, inp, real_terms, ref_terms, label):
    """real operator (ladder-operator dict produced by the real code) acts on every determinant like the reference"""
    if env.symbolic:
        lhs = PB.fermion_action(real_terms, inp.bits)
        rhs = PB.fermion_action(ref_terms, inp.bits)
        stmt, _ = PB.amps_equal(lhs, rhs)
        inp.holds_for_all(stmt, label)
    else:
        f = inp.value
        got = {k: complex(v) for k, v in fock.apply_operator(real_terms, f).items()}
        exp = {k: complex(v) for k, v in fock.apply_operator(ref_terms, f).items()}
        d = PB.dict_close(got, exp)
        env.check_true(d is None, label, detail=f"f={''.join(map(str, f))}: {d}")


# ------------------------------------------------------------------ (a) N, S_z, S^2
def h_symop(env, name, n_orbs, utd, canary=False):
    inp = PB.BitInput(env, 2 * n_orbs, "f")
    op = real_operator(name, n_orbs, utd)
    ref = REF[name](n_orbs, utd)
    if canary:
        ref = REF[name](n_orbs, not utd) if name != "N" else fock.op_scale(ref, 2)
    what = {"N": "N", "Sz": "S_z", "S2": "S_- S_+ + S_z(S_z+1)"}[name]
    check_fermion_action(env, inp, op.terms, ref, f"{name}(n_orbs={n_orbs}, up_then_down={utd}) acts on every determinant as {what}")


def h_symop_encoded(env, name, n_orbs, op_utd, map_utd, mapping, n_electrons=None, spin=None, canary=False):
    """op built in layout op_utd, mapped with up_then_down=map_utd: the register ordering is up-then-down if either is set"""
    import z3
    from tangelo.toolboxes.qubit_mappings.mapping_transform import fermion_to_qubit_mapping
    n = 2 * n_orbs
    scbk = mapping.upper() == "SCBK"
    inp = PB.BitInput(env, n, "f")
    fn = real_encoder(mapping, n, map_utd)
    if op_utd and scbk:
        raise ValueError("scBK takes interleaved input")
    enc = None
    if env.symbolic:
        try:
            enc = PB.AffineEnc(fn, n)
        except PB.NotAffine as e:
            env.notes.append(str(e))
    reg_utd = op_utd or map_utd or scbk
    op = real_operator(name, n_orbs, op_utd)
    kw = dict(n_spinorbitals=n, up_then_down=map_utd)
    dom, dom_fn = True, None
    if scbk:
        kw.update(n_electrons=n_electrons, spin=spin)
        n_alpha, half = (n_electrons + spin) // 2, n // 2

        def dom_fn(f):
            return sum(f) % 2 == n_electrons % 2 and sum(f[:half]) % 2 == n_alpha % 2
        if env.symbolic:
            dom = z3.And(PB._zb(PB._xor_all(inp.bits, PB.Z3Bits)) == bool(n_electrons % 2),
                         PB._zb(PB._xor_all(inp.bits[:half], PB.Z3Bits)) == bool(n_alpha % 2))
    q = fermion_to_qubit_mapping(op, mapping, **kw).terms
    ref = REF[name](n_orbs, reg_utd)
    if canary:
        ref = fock.op_add(ref, {((0, 1), (0, 0)): 1})
    PB.check_action(env, inp, q, ref, enc, fn, f"{mapping}(map_utd={map_utd}) of {name}(n_orbs={n_orbs}, up_then_down={op_utd}) acts on |Enc f> as the reference",
                    domain=dom, domain_fn=dom_fn)


# ------------------------------------------------------------------ (b) penalties with symbolic weight and target
def penalty_reference(name, n_orbs, utd, mu, t):
    x = fock.op_add(REF[name](n_orbs, utd), {(): -t})
    return fock.op_scale(fock.op_mul(x, x), mu)


def h_penalty(env, name, n_orbs, utd, mapping=None, canary=False):
    from tangelo.toolboxes.ansatz_generator import penalty_terms as pt
    from tangelo.toolboxes.qubit_mappings.mapping_transform import fermion_to_qubit_mapping
    n = 2 * n_orbs
    inp = PB.BitInput(env, n, "f")
    mu = env.real("mu", 0, 4)
    t = env.real("t", -4, 4)
    fnc = dict(N=pt.number_operator_penalty, Sz=pt.spin_operator_penalty, S2=pt.spin2_operator_penalty)[name]
    pen = fnc(n_orbs, t, mu=mu, up_then_down=utd)
    ref = penalty_reference(name, n_orbs, utd, mu, (t + 1 if canary else t))
    if mapping is None:
        check_fermion_action(env, inp, pen.terms, ref, f"{name} penalty (n_orbs={n_orbs}, utd={utd}) = mu ({name} - t)^2 on every determinant")
        if not canary:
            # the same penalty requested for the OTHER ordering afterwards, in the same process (nothing carried over between calls)
            pen_b = fnc(n_orbs, t, mu=mu, up_then_down=not utd)
            check_fermion_action(env, inp, pen_b.terms, penalty_reference(name, n_orbs, not utd, mu, t),
                                 f"{name} penalty (n_orbs={n_orbs}, utd={not utd}) requested after the utd={utd} one = mu ({name} - t)^2 on every determinant")
        if name in ("N", "Sz"):
            lams = range(n + 1) if name == "N" else [F(k, 2) for k in range(-n_orbs, n_orbs + 1)]
            for lam in lams:
                env.check_le(0, mu * (lam - t) * (lam - t), f"penalty eigenvalue mu ({lam} - t)^2 >= 0")
    else:
        fn = real_encoder(mapping, n, False)
        enc = PB.AffineEnc(fn, n) if env.symbolic else None
        q = fermion_to_qubit_mapping(pen, mapping, n_spinorbitals=n, up_then_down=False).terms
        PB.check_action(env, inp, q, ref, enc, fn, f"{mapping} image of the {name} penalty acts on |Enc f> as mu ({name} - t)^2")


def h_penalty_small(env, name, n_orbs, utd, mu, t):
    """AUXILIARY concrete shape (no solver role; the subject is an absolute numeric tolerance): SMALL weights (1e-7 .. 1e-4, e.g. for a
    Hamiltonian rescaled to unit norm): penalty / mu acts on every determinant as (O - t)^2 (1e-9), i.e. no term of mu (O - t)^2 is
    pruned after the multiplication by mu"""
    from tangelo.toolboxes.ansatz_generator import penalty_terms as pt
    from symx import shim
    n = 2 * n_orbs
    fnc = dict(N=pt.number_operator_penalty, Sz=pt.spin_operator_penalty, S2=pt.spin2_operator_penalty)[name]
    with shim.concrete_mode():
        pen = fnc(n_orbs, t, mu=mu, up_then_down=utd)
        ref = penalty_reference(name, n_orbs, utd, 1.0, t)
        worst, where = 0.0, None
        for f in itertools.product((0, 1), repeat=n):
            got = fock.apply_operator(dict(pen.terms), f)
            want = fock.apply_operator(ref, f)
            for g in set(got) | set(want):
                d = abs(complex(got.get(g, 0)) / mu - complex(want.get(g, 0)))
                if d > worst:
                    worst, where = d, (f, g)
    env.check_true(worst < 1e-9, f"{name} penalty with mu={mu:.2e} (n_orbs={n_orbs}, utd={utd}): penalty / mu == ({name} - {t})^2 on every determinant (1e-9)",
                   detail=f"max deviation {worst} at {where}")


def h_combined(env, n_orbs, utd, canary=False):
    from tangelo.toolboxes.ansatz_generator.penalty_terms import combined_penalty
    n = 2 * n_orbs
    inp = PB.BitInput(env, n, "f")
    mus = [env.real(f"mu{i}", F(1, 10), 4) for i in range(3)]
    ts = [env.real(f"t{i}", -4, 4) for i in range(3)]
    pen = combined_penalty(n_orbs, {"N": [mus[0], ts[0]], "Sz": [mus[1], ts[1]], "S^2": [mus[2], ts[2]]}, up_then_down=utd)
    ref = {}
    for k, name in enumerate(("N", "Sz", "S2")):
        ref = fock.op_add(ref, penalty_reference(name, n_orbs, utd, mus[k], ts[k] if not (canary and k == 1) else -ts[k]))
    check_fermion_action(env, inp, pen.terms, ref, f"combined_penalty (n_orbs={n_orbs}, utd={utd}) = sum of the three penalties on every determinant")
    # absent / zero-weight entries contribute nothing
    pen2 = combined_penalty(n_orbs, {"Sz": [mus[1], ts[1]]}, up_then_down=utd)
    check_fermion_action(env, inp, pen2.terms, penalty_reference("Sz", n_orbs, utd, mus[1], ts[1]), "combined_penalty with only Sz = the Sz penalty")


# ------------------------------------------------------------------ (c) commutation with molecular Hamiltonians
def h_commute(env, name, n_orbs, utd, canary=False):
    from harness.c03 import sym_integrals, build_fermion_op
    from tangelo.toolboxes.operators import normal_ordered
    const, h, eri = sym_integrals(env, n_orbs)
    if canary:
        h = [row[:] for row in h]
        eri = copy.deepcopy(eri)
        eri[0][0][0][1] = eri[0][0][0][1] + 1          # breaks the permutational symmetry (non-Hermitian, still spin-free)
        h[0][1] = h[0][1] + 1
    terms = fock.molecular_hamiltonian_terms(const, h, eri, n_orbs, utd)
    if canary and name in ("Sz", "S2", "N"):
        # a spin-flip term: does not commute with S_z / S^2; a pair-creation term: does not commute with N
        a, b = fock.so_index(0, 0, n_orbs, utd), fock.so_index(0, 1, n_orbs, utd)
        extra = {((a, 1), (b, 0)): 1} if name != "N" else {((a, 1), (b, 1)): 1}
        terms = fock.op_add(terms, extra)
    H = build_fermion_op(terms)
    O = real_operator(name, n_orbs, utd)
    comm = copy.deepcopy(O) * copy.deepcopy(H) - copy.deepcopy(H) * copy.deepcopy(O)
    comm = normal_ordered(comm)
    cs = list(comm.terms.values())
    env.check_vec_eq(cs, [0] * len(cs), f"[{name}, H] = 0 for every spin-free molecular Hamiltonian on {n_orbs} orbitals (utd={utd})")
    env.check_true(len(H.terms) > 1, "Hamiltonian has terms")


# ------------------------------------------------------------------ (d) conservation along the ansatz manifold (JW)
class DuckMolecule:
    """what the ansatz constructors read from a SecondQuantizedMolecule"""

    def __init__(self, n_mos, n_electrons, spin=0):
        self.n_active_mos = n_mos
        self.n_active_sos = 2 * n_mos
        self.n_active_electrons = n_electrons
        self.active_spin = spin
        self.spin = spin
        self.uhf = False
        self.n_active_ab_electrons = ((n_electrons + spin) // 2, (n_electrons - spin) // 2)
        self.solver = None
        self.frozen_orbitals = None
        # totals of the WHOLE molecule (one frozen doubly-occupied orbital below the active space): an ansatz must read the active values
        self.n_electrons = n_electrons + 2
        self.n_mos = n_mos + 1
        self.n_sos = 2 * (n_mos + 1)
        self.n_min_orbitals = n_mos + 1


def h_pool(env, n_orbs, utd, canary=False):
    """every generator of the default ADAPT / UCCGSD fermionic pool commutes with N and S_z (hence exp(theta G) conserves
    them); decided on the operators themselves: every coefficient of the normal-ordered commutator is zero"""
    from tangelo.toolboxes.ansatz_generator._general_unitary_cc import uccgsd_generator
    from tangelo.toolboxes.operators import FermionOperator, normal_ordered
    pool = uccgsd_generator(2 * n_orbs, up_down=utd)
    N = build_op(fock.number_terms(n_orbs, utd))
    Sz = build_op(fock.sz_terms(n_orbs, utd))
    if canary:
        a, b = fock.so_index(0, 0, n_orbs, utd), fock.so_index(0, 1, n_orbs, utd)
        pool = list(pool) + [FermionOperator(((a, 1), (b, 0)), 1.0) - FermionOperator(((b, 1), (a, 0)), 1.0)]
    env.check_true(len(pool) > 0, "pool is not empty")
    bad = []
    for k, G in enumerate(pool):
        for nm, O in (("N", N), ("Sz", Sz)):
            comm = normal_ordered(copy.deepcopy(O) * copy.deepcopy(G) - copy.deepcopy(G) * copy.deepcopy(O))
            mx = max([abs(complex(v)) for v in comm.terms.values()] or [0.0])
            if mx > 1e-12:
                bad.append((k, nm, mx))
    env.check_true(not bad, f"every pool generator commutes with N and S_z ({n_orbs} orbitals, up_then_down={utd})", detail=str(bad[:4]))


def build_op(terms):
    from tangelo.toolboxes.operators import FermionOperator
    op = FermionOperator()
    for t, c in terms.items():
        op += FermionOperator(t, float(c))
    return op


def h_ansatz(env, which, n_mos=2, n_electrons=2, spin=0, utd=False, signs=None, canary=False, history=None):
    from tangelo.toolboxes.ansatz_generator.uccsd import UCCSD
    from tangelo.toolboxes.ansatz_generator.upccgsd import UpCCGSD
    from tangelo.toolboxes.ansatz_generator.uccgd import UCCGD
    from tangelo.toolboxes.ansatz_generator.puccd import pUCCD
    from tangelo.toolboxes.ansatz_generator.rucc import RUCC
    mol = DuckMolecule(n_mos, n_electrons, spin)
    paired = False
    if which == "UCCSD":
        a = UCCSD(mol, mapping="JW", up_then_down=utd)
    elif which == "UCCGD":
        a = UCCGD(mol, mapping="JW", up_then_down=utd)
    elif which == "UpCCGSD":
        a = UpCCGSD(mol, mapping="JW", up_then_down=utd, k=1)
    elif which == "pUCCD":
        a = pUCCD(mol)
        paired = True
    elif which in ("UCC1", "UCC3"):
        a = RUCC(1 if which == "UCC1" else 3)
        utd = True                                   # RUCC prepares |1010>: alpha_0 and beta_0 in the up-then-down register
    elif which.startswith("ADAPT"):
        # the ansatz as ADAPTSolver grows it: operators of the default fermionic pool (mapped as the solver maps them) added one
        # by one; which operators the gradient loop would pick is immaterial - every listed selection is checked
        from tangelo.toolboxes.ansatz_generator.adapt_ansatz import ADAPTAnsatz
        from harness.c07 import _pool
        picks = [int(x) for x in which.split(":")[1].split(",")]
        ref_spelling = which.split(":")[2] if which.count(":") > 1 else None      # the class reads reference_state case-insensitively
        pool = _pool("jw", utd, 2 * n_mos)
        if n_mos > 2:
            # prefer operators whose Pauli words differ in LENGTH (the interesting ones for any re-ordering of words)
            mixed = [op for op in pool if len({len(w) for w in op.terms}) > 1]
            pool = mixed or pool
        a = ADAPTAnsatz(2 * n_mos, n_electrons, spin, dict({"mapping": "jw", "up_then_down": utd}, **({"reference_state": ref_spelling} if ref_spelling else {})))
        a.build_circuit()
        for p in picks:
            a.add_operator(copy.deepcopy(pool[p % len(pool)]))
    if signs is None:
        th = [env.real(f"t{i}", -3, 3) for i in range(a.n_var_params)]
    else:     # one sign pattern per shape (keeps the number of solver-explored sign branches at one)
        th = [env.real(f"t{i}", F(1, 100), 3) if signs[i % len(signs)] > 0 else env.real(f"t{i}", -3, F(-1, 100)) for i in range(a.n_var_params)]
    a.build_circuit(th)
    if history:
        # the circuit after a HISTORY of updates (a parameter exactly zero, then non-zero again) is still in the sector:
        # conservation is a property of every state the ansatz object can be brought to, not only of freshly built ones
        for step, zero_at in enumerate(history):
            if zero_at is None:
                nxt = [env.real(f"u{step}_{i}", F(1, 100), 3) if (i + step) % 2 else env.real(f"u{step}_{i}", -3, F(-1, 100)) for i in range(a.n_var_params)]
            else:
                nxt = [0.0 if i == zero_at % a.n_var_params else x for i, x in enumerate(th)]
            a.update_var_params(nxt)
    nq = a.circuit.width
    st = R.run_gates(a.circuit._gates, nq)
    n_alpha, n_beta = (n_electrons + spin) // 2, (n_electrons - spin) // 2
    if canary:
        n_alpha, n_beta = n_beta + 1, n_alpha - 1 if n_alpha else 0
    wrong = []
    for idx, amp in enumerate(st):
        bits = [(idx >> (nq - 1 - i)) & 1 for i in range(nq)]
        if paired:
            ok = sum(bits) == n_electrons // 2 and not canary
        else:
            na, nb = fock.n_alpha_beta(bits, utd)
            ok = (na, nb) == (n_alpha, n_beta)
        if not ok:
            wrong.append(amp)
    env.check_same(nq, n_mos if paired else 2 * n_mos, "register width")
    env.check_vec_eq(wrong, [0] * len(wrong), f"{which}: every amplitude outside the reference (N, S_z) sector vanishes for all parameters")
    # and the state is normalised (so the sector carries all the weight)
    nrm = R.C(0)
    for x in st:
        nrm = nrm + x * R.n_conj(x)
    env.check_eq(nrm, 1, f"{which}: state is normalised")


def shapes(tier, seed):
    rnd = random.Random(seed)
    quick = tier == "quick"
    out = []
    # (a)
    for name in ("N", "Sz", "S2"):
        for n_orbs in ((1, 2, 3, 4) if quick else (1, 2, 3, 4, 5, 6)):
            if quick and name == "S2" and n_orbs > 3:
                continue
            for utd in (False, True):
                out.append(Shape(f"symop/{name}/o{n_orbs}/utd{int(utd)}", h_symop, dict(name=name, n_orbs=n_orbs, utd=utd), modules=MODS))
    out.append(Shape("canary/symop/Sz", h_symop, dict(name="Sz", n_orbs=2, utd=True, canary=True), modules=MODS, canary=True))
    out.append(Shape("canary/symop/S2", h_symop, dict(name="S2", n_orbs=2, utd=False, canary=True), modules=MODS, canary=True))
    for name in ("N", "Sz", "S2"):
        for mapping in ("JW", "BK", "JKMN"):
            if mapping == "JKMN" and name == "S2":
                continue
            for n_orbs in ((2, 3) if quick else (2, 3, 4, 5)):
                for (op_utd, map_utd) in ((False, False), (False, True), (True, False)):
                    out.append(Shape(f"encoded/{name}/{mapping}/o{n_orbs}/op{int(op_utd)}map{int(map_utd)}", h_symop_encoded,
                                     dict(name=name, n_orbs=n_orbs, op_utd=op_utd, map_utd=map_utd, mapping=mapping), modules=MODS))
        for n_orbs in ((2, 3) if quick else (2, 3, 4)):
            adm = sorted({(na + nb, na - nb) for na in range(n_orbs + 1) for nb in range(n_orbs + 1)})
            for (ne, sp) in (adm if not quick else rnd.sample(adm, 4)):
                for map_utd in (False, True):
                    out.append(Shape(f"encoded/{name}/scBK/o{n_orbs}/N{ne}s{sp}/map{int(map_utd)}", h_symop_encoded,
                                     dict(name=name, n_orbs=n_orbs, op_utd=False, map_utd=map_utd, mapping="scbk", n_electrons=ne, spin=sp), modules=MODS))
    out.append(Shape("canary/encoded/BK", h_symop_encoded, dict(name="Sz", n_orbs=2, op_utd=False, map_utd=True, mapping="BK", canary=True),
                     modules=MODS, canary=True))
    # (b)
    for name in ("N", "Sz", "S2"):
        for n_orbs in ((1, 2, 3) if quick else (1, 2, 3, 4)):
            if name == "S2" and n_orbs > (2 if quick else 3):
                continue
            for utd in (False, True):
                out.append(Shape(f"penalty/{name}/o{n_orbs}/utd{int(utd)}", h_penalty, dict(name=name, n_orbs=n_orbs, utd=utd), modules=MODS))
        for mapping in ("JW", "BK"):
            out.append(Shape(f"penalty/{name}/o2/{mapping}", h_penalty, dict(name=name, n_orbs=2, utd=False, mapping=mapping), modules=MODS))
    for utd in (False, True):
        out.append(Shape(f"penalty/combined/o2/utd{int(utd)}", h_combined, dict(n_orbs=2, utd=utd), modules=MODS))
    for name_ in ("N", "Sz", "S2"):
        for mu_ in (4e-6, 2.5e-7, 3e-5, 1e-4):
            for utd_ in (False, True):
                out.append(Shape(f"aux/penalty-small/{name_}/o2/utd{int(utd_)}/mu={mu_:.1e}", h_penalty_small,
                                 dict(name=name_, n_orbs=2, utd=utd_, mu=mu_, t=0.75), modules=()))
    out.append(Shape("canary/penalty/N", h_penalty, dict(name="N", n_orbs=2, utd=False, canary=True), modules=MODS, canary=True))
    out.append(Shape("canary/penalty/combined", h_combined, dict(n_orbs=2, utd=True, canary=True), modules=MODS, canary=True))
    # (c)
    for name in ("N", "Sz", "S2"):
        for n_orbs in (2, 3):
            if quick and name == "S2" and n_orbs == 3:
                continue
            for utd in (False, True):
                out.append(Shape(f"commute/{name}/o{n_orbs}/utd{int(utd)}", h_commute, dict(name=name, n_orbs=n_orbs, utd=utd), modules=MODS))
    out.append(Shape("canary/commute/Sz", h_commute, dict(name="Sz", n_orbs=2, utd=False, canary=True), modules=MODS, canary=True))
    out.append(Shape("canary/commute/N", h_commute, dict(name="N", n_orbs=2, utd=True, canary=True), modules=MODS, canary=True))
    # (d)
    for which in ("UCCSD", "UCCGD", "UpCCGSD"):
        for utd in (False, True):
            out.append(Shape(f"ansatz/{which}/4q/utd{int(utd)}", h_ansatz, dict(which=which, utd=utd), modules=MODS, max_paths=64))
    # open-shell references and an odd number of orbitals (index permutations that cancel on closed-shell H2-like cases)
    out.append(Shape("ansatz/UpCCGSD/4q/doublet/utd1", h_ansatz, dict(which="UpCCGSD", n_mos=2, n_electrons=3, spin=1, utd=True, signs=(1, -1)),
                     modules=MODS, max_paths=16))
    out.append(Shape("ansatz/UpCCGSD/4q/doublet/utd0", h_ansatz, dict(which="UpCCGSD", n_mos=2, n_electrons=1, spin=1, utd=False, signs=(1, -1)),
                     modules=MODS, max_paths=16))
    out.append(Shape("ansatz/UCCSD/4q/doublet/utd1", h_ansatz, dict(which="UCCSD", n_mos=2, n_electrons=3, spin=1, utd=True, signs=(1, -1)),
                     modules=MODS, max_paths=16))
    # (UpCCGSD singlet on 6 qubits, 9 symbolic parameters, needs ~15 min of exact arithmetic - at the edge of the 900 s shape budget;
    #  it is not run: the 6-qubit triplet shapes below and the 4-qubit shapes cover the same code with fewer parameters)
    # (the generator always uses the interleaved ordering: its up_down argument is not forwarded, the mapping re-orders later)
    for no in ((2, 3) if quick else (2, 3, 4)):
        out.append(Shape(f"pool/uccgsd/o{no}", h_pool, dict(n_orbs=no, utd=False), modules=()))
    out.append(Shape("canary/pool", h_pool, dict(n_orbs=2, utd=False, canary=True), modules=(), canary=True))
    out.append(Shape("ansatz/pUCCD/2q", h_ansatz, dict(which="pUCCD"), modules=MODS, max_paths=64))
    out.append(Shape("ansatz/pUCCD/3q", h_ansatz, dict(which="pUCCD", n_mos=3), modules=MODS, max_paths=64))
    for utd in (False, True):
        for picks in ("0,1", "2,3", "3,0,2") + (("1,1", "0,1,2,3") if tier == "thorough" else ()):
            out.append(Shape(f"ansatz/ADAPT/{picks}/utd{int(utd)}", h_ansatz, dict(which=f"ADAPT:{picks}", utd=utd), modules=MODS, max_paths=64))
    for sp_ in ("hf", "Hf", "HF"):
        out.append(Shape(f"ansatz/ADAPT/0,3/utd0/reference_state={sp_}", h_ansatz, dict(which=f"ADAPT:0,3:{sp_}", utd=False), modules=MODS, max_paths=64))
    # high-spin references (n_alpha - n_beta = 2): the reference itself must sit in the right S_z sector
    for which in ("UCCGD", "UCCSD", "UpCCGSD"):
        for utd in (False, True):
            out.append(Shape(f"ansatz/{which}/4q/triplet/utd{int(utd)}", h_ansatz,
                             dict(which=which, n_mos=2, n_electrons=2, spin=2, utd=utd, signs=(1, -1)), modules=MODS, max_paths=64))
        if tier == "thorough":
            out.append(Shape(f"ansatz/{which}/6q/triplet/utd0", h_ansatz,
                             dict(which=which, n_mos=3, n_electrons=2, spin=2, utd=False, signs=(1, -1)), modules=MODS, max_paths=64))
    for which, nm_, ne_, zs in (("UCCSD", 2, 2, (1, 0)), ("UCCSD", 3, 2, (4, 3, 2)), ("UCCGD", 2, 2, (0, 1)), ("UpCCGSD", 2, 2, (2, 0))):
        for z in (zs if tier == "thorough" else zs[:1]):
            out.append(Shape(f"ansatz/{which}/{2 * nm_}q/history/zero{z}", h_ansatz,
                             dict(which=which, n_mos=nm_, n_electrons=ne_, spin=0, utd=False, signs=(1, -1), history=(z, None)), modules=MODS, max_paths=64))
    for picks in ("0,1", "2,5") + (("3",) if tier == "thorough" else ()):
        out.append(Shape(f"ansatz/ADAPT/6q/{picks}/utd0", h_ansatz, dict(which=f"ADAPT:{picks}", n_mos=3, utd=False, signs=(1, -1)), modules=MODS, max_paths=64))
    out.append(Shape("ansatz/UCC1", h_ansatz, dict(which="UCC1"), modules=MODS))
    out.append(Shape("ansatz/UCC3", h_ansatz, dict(which="UCC3"), modules=MODS))
    out.append(Shape("canary/ansatz/UCCSD", h_ansatz, dict(which="UCCSD", canary=True), modules=MODS, canary=True, max_paths=64))
    if not quick:
        for k, sg in enumerate(((1,), (-1,), (1, -1), (-1, 1))):
            out.append(Shape(f"ansatz/UCCSD/6q/signs{k}", h_ansatz, dict(which="UCCSD", n_mos=3, signs=sg), modules=MODS, max_paths=8))
    return out
