"""C04  Qubit Hamiltonians reproduce mean-field and full-CI energies (partial claim, see META)."""
import itertools
import random

import numpy as np

from symx.core import Shape
from symx import refsem as R, shim, fock, symmol
from symx.num import Sym
from harness.c03 import sym_integrals

PROPERTY = "C04"
MODS = symmol.MODS + ("tangelo.toolboxes.qubit_mappings.statevector_mapping", "openfermion.chem.molecular_data")

META = dict(
    explanation="A real SecondQuantizedMolecule is built on Tangelo's own IntegralSolver seam with SYMBOLIC integrals "
                "(core constant, h_pq, (pq|rs) with the 8-fold symmetry) and RHF/ROHF/UHF occupation patterns. (a) the real "
                "convert_frozen_orbitals partitions the orbitals consistently for int / list / per-spin selections; (b) the "
                "real frozen-orbital folding + fermionic operator assembly: for EVERY active-space determinant and every "
                "value of the integrals, the action of molecule.fermionic_hamiltonian equals the Slater-Condon row computed "
                "from the UNFROZEN integrals with the frozen occupied orbitals kept occupied (CAS projection) - the algebraic "
                "content of 'same spectrum as CAS-CI with the same frozen orbitals'; (c) under JW/BK/scBK/JKMN x both "
                "orderings the expectation value of the qubit Hamiltonian on the state prepared by the real "
                "get_reference_circuit equals the closed-form mean-field energy expression of the reference determinant.",
    bounds=dict(quick="<=3 spatial orbitals, <=1 frozen occupied + <=1 frozen virtual, non-contiguous selections, RHF/ROHF/UHF",
                thorough="<=4 spatial orbitals, more selections and electron numbers"),
    outside=["PySCF integral evaluation, SCF convergence and the value of mf_energy it reports", "the numerical FCI/CCSD energies "
             "of the classical solvers (compiled code + eigensolver)", "invariance of the lowest eigenvalue under active-orbital "
             "rotations (an eigenvalue statement)", "IEEE rounding", "UHF with different alpha/beta spatial orbitals beyond the "
             "block structure checked here", "the 'frozen_core' default (element table)"],
    stubs=["IntegralSolverPySCF -> SymIntegralSolver (a Tangelo IntegralSolver subclass returning the harness' integrals)"],
    trusted_base=["symx.fock Slater-Condon rules", "symx.refsem"],
    assumptions=["openfermion sparse iteration: tensor entries that are not identically zero are treated as non-zero (generic-nonzero policy)"],
)


def preload():
    import tangelo  # noqa
    from tangelo.toolboxes.qubit_mappings.statevector_mapping import get_reference_circuit  # noqa


class alloc:
    def __init__(self, env):
        self.env = env

    def __enter__(self):
        self.old = shim.ALLOC_OBJECT
        shim.ALLOC_OBJECT = bool(self.env.symbolic)

    def __exit__(self, *a):
        shim.ALLOC_OBJECT = self.old


def full_det(f_act, act, frozen_occ, n_mos):
    """interleaved occupation vector of the full space from the active one"""
    f = []
    for i in range(n_mos):
        if i in frozen_occ:
            f += [1, 1]
        elif i in act:
            k = act.index(i)
            f += [f_act[2 * k], f_act[2 * k + 1]]
        else:
            f += [0, 0]
    return tuple(f)


def act_of_full(g, act):
    out = []
    for i in act:
        out += [g[2 * i], g[2 * i + 1]]
    return tuple(out)


def h_partition(env, n_mos, ne, spin, frozen, uhf):
    const, h, eri = 0.0, [[0.0] * n_mos for _ in range(n_mos)], [[[[0.0] * n_mos for _ in range(n_mos)] for _ in range(n_mos)] for _ in range(n_mos)]
    mol = symmol.molecule(n_mos, ne, spin, const, h, eri, False, frozen=frozen, uhf=uhf)
    na, nb = (ne + spin) // 2, (ne - spin) // 2
    spins = (0, 1) if uhf else (None,)
    for s in spins:
        ao = mol.active_occupied if s is None else mol.active_occupied[s]
        fo = mol.frozen_occupied if s is None else mol.frozen_occupied[s]
        av = mol.active_virtual if s is None else mol.active_virtual[s]
        fv = mol.frozen_virtual if s is None else mol.frozen_virtual[s]
        allo = sorted(ao + fo + av + fv)
        env.check_same(allo, list(range(n_mos)), f"partition covers every orbital exactly once (spin block {s})")
        nocc = max(na, nb) if s is None else (na if s == 0 else nb)
        env.check_true(all(i < nocc for i in ao + fo) and all(i >= nocc for i in av + fv), "occupied/virtual classes follow the occupations")
        if isinstance(frozen, int):
            want = list(range(frozen))
        elif frozen is None:
            want = []
        elif uhf and frozen and isinstance(frozen[0], (list, tuple)):
            want = sorted(frozen[s])
        else:
            want = sorted(frozen)
        env.check_same(sorted(fo + fv), want, "frozen orbitals are exactly the requested ones")
    if not uhf:
        nfe = sum(int(mol.mo_occ[i]) for i in mol.frozen_occupied)
        env.check_same(mol.n_active_electrons, ne - nfe, "n_active_electrons = electrons not sitting in frozen orbitals")
        env.check_same(mol.n_active_sos, 2 * len(mol.active_mos), "n_active_sos")
        env.check_same(mol.active_spin, spin, "active spin equals the molecular spin (frozen orbitals are closed)")
    else:
        nfe = len(mol.frozen_occupied[0]) + len(mol.frozen_occupied[1])
        env.check_same(mol.n_active_electrons, ne - nfe, "UHF n_active_electrons")
        env.check_same(mol.active_spin, (na - len(mol.frozen_occupied[0])) - (nb - len(mol.frozen_occupied[1])), "UHF active spin")


def h_folding(env, n_mos, ne, spin, frozen, uhf=False, canary=False):
    const, h, eri = sym_integrals(env, n_mos)
    with alloc(env):
        mol = symmol.molecule(n_mos, ne, spin, const, h, eri, env.symbolic, frozen=frozen, uhf=uhf)
        H = mol.fermionic_hamiltonian
    if uhf:
        act, frozen_occ = list(mol.active_mos[0]), list(mol.frozen_occupied[0])
        env.check_same(list(mol.active_mos[1]), act, "same active space for both spins in this shape")
    else:
        act, frozen_occ = list(mol.active_mos), list(mol.frozen_occupied)
    if canary:
        eri = [[[[x for x in c] for c in b] for b in a] for a in eri]
        i = frozen_occ[0] if frozen_occ else 0
        j = act[0]
        for (a, b, c, d) in ((i, i, j, j), (j, j, i, i)):
            eri[a][b][c][d] = eri[a][b][c][d] * 2
    terms = dict(H.terms)
    for f_act in itertools.product((0, 1), repeat=2 * len(act)):
        f_full = full_det(f_act, act, frozen_occ, n_mos)
        row = fock.slater_condon_row(f_full, const, h, eri)
        exp = {}
        for g, v in row.items():
            if all(g[2 * i] == 1 and g[2 * i + 1] == 1 for i in frozen_occ) and \
                    all(g[2 * i] == 0 and g[2 * i + 1] == 0 for i in range(n_mos) if i not in act and i not in frozen_occ):
                exp[act_of_full(g, act)] = v
        got = fock.apply_operator(terms, f_act)
        keys = sorted(set(got) | set(exp))
        env.check_vec_eq([got.get(k, 0) for k in keys], [exp.get(k, 0) for k in keys],
                         f"H_active|{''.join(map(str, f_act))}> == CAS projection of the full-space Slater-Condon row (frozen={frozen}, uhf={uhf})")


def h_reference(env, n_mos, ne, spin, frozen, mapping, utd):
    from tangelo.toolboxes.qubit_mappings.mapping_transform import fermion_to_qubit_mapping
    from tangelo.toolboxes.qubit_mappings.statevector_mapping import get_reference_circuit
    const, h, eri = sym_integrals(env, n_mos)
    with alloc(env):
        mol = symmol.molecule(n_mos, ne, spin, const, h, eri, env.symbolic, frozen=frozen)
        H = mol.fermionic_hamiltonian
        qH = fermion_to_qubit_mapping(H, mapping, n_spinorbitals=mol.n_active_sos, n_electrons=mol.n_active_electrons,
                                      up_then_down=utd, spin=mol.active_spin)
    with shim.concrete_mode():
        circ = get_reference_circuit(mol.n_active_sos, mol.n_active_electrons, mapping, up_then_down=utd, spin=mol.active_spin)
    nq = mol.n_active_sos - (2 if mapping.lower() == "scbk" else 0)
    st = R.run_gates(circ._gates, nq)
    val = R.expectation(st, nq, dict(qH.terms))
    # closed-form mean-field energy of the aufbau determinant, from the unfrozen integrals
    na, nb = (ne + spin) // 2, (ne - spin) // 2
    f_ref = []
    for i in range(n_mos):
        f_ref += [1 if i < na else 0, 1 if i < nb else 0]
    e_mf = fock.slater_condon_row(tuple(f_ref), const, h, eri).get(tuple(f_ref), 0)
    env.check_eq(val, e_mf, f"<ref|H_qubit|ref> == mean-field energy expression [{mapping}, up_then_down={utd}, frozen={frozen}]")


def shapes(tier, seed):
    out = []
    part = [(3, 2, 0, None, False), (3, 4, 0, 1, False), (4, 4, 0, [0, 3], False), (4, 4, 0, [1, 2], False),
            (4, 2, 0, [3], False), (4, 3, 1, [0], False), (4, 4, 2, [3], False), (4, 6, 0, 2, False), (4, 4, 0, [2], False),
            (3, 2, 0, None, True), (4, 4, 0, [[0, 3], [0, 3]], True), (4, 3, 1, [[0, 3], [0]], True), (4, 4, 2, [[0], [2, 3]], True)]
    for (n, ne, sp, fr, uhf) in part:
        out.append(Shape(f"partition/n{n}e{ne}s{sp}/{fr}/uhf={int(uhf)}", h_partition, dict(n_mos=n, ne=ne, spin=sp, frozen=fr, uhf=uhf), modules=MODS))
    fold = [(2, 2, 0, None, False), (3, 2, 0, None, False), (3, 4, 0, [0], False), (3, 2, 0, [2], False),
            (3, 3, 1, [0], False), (3, 2, 0, [1], False), (2, 2, 0, None, True), (3, 4, 0, [[0], [0]], True)]
    if tier == "thorough":
        fold += [(4, 4, 0, [0, 3], False), (4, 4, 0, [0, 2], False), (4, 6, 0, [0, 1], False), (3, 2, 2, None, False),
                 (3, 2, 0, [[2], [2]], True)]
    for (n, ne, sp, fr, uhf) in fold:
        out.append(Shape(f"folding/n{n}e{ne}s{sp}/{fr}/uhf={int(uhf)}", h_folding, dict(n_mos=n, ne=ne, spin=sp, frozen=fr, uhf=uhf),
                         modules=MODS, max_paths=8))
    out.append(Shape("canary/folding", h_folding, dict(n_mos=3, ne=4, spin=0, frozen=[0], canary=True), modules=MODS, canary=True, max_paths=8))
    refs = [(2, 2, 0, None), (3, 4, 0, [0]), (3, 2, 0, [2]), (3, 2, 0, [1])]
    if tier == "thorough":
        refs += [(3, 3, 1, [0]), (3, 2, 0, None), (4, 4, 0, [0, 3])]
    for (n, ne, sp, fr) in refs:
        for mp in ("jw", "bk", "scbk", "jkmn"):
            for utd in (False, True):
                if tier == "quick" and (n, fr) not in ((2, None), (3, [0])) and (mp, utd) != ("jw", False):
                    continue
                out.append(Shape(f"reference/n{n}e{ne}s{sp}/{fr}/{mp}/utd={int(utd)}", h_reference,
                                 dict(n_mos=n, ne=ne, spin=sp, frozen=fr, mapping=mp, utd=utd), modules=MODS, max_paths=8))
    return out
