"""C04  Qubit Hamiltonians reproduce mean-field and full-CI energies (partial claim, see META)."""
import itertools
import random

import numpy as np

from symx.core import Shape
from symx import refsem as R, shim, fock, symmol
from symx.num import Sym
from harness.c03 import sym_integrals

PROPERTY = "C04"
MODS = symmol.MODS + ("tangelo.toolboxes.qubit_mappings.statevector_mapping", "openfermion.chem.molecular_data")

META = dict(
    explanation="A real SecondQuantizedMolecule is built on Tangelo's own IntegralSolver seam with SYMBOLIC integrals "
                "(core constant, h_pq, (pq|rs) with the 8-fold symmetry) and RHF/ROHF/UHF occupation patterns. (a) the real "
                "convert_frozen_orbitals partitions the orbitals consistently for int / list / per-spin selections; (b) the "
                "real frozen-orbital folding + fermionic operator assembly: for EVERY active-space determinant and every "
                "value of the integrals, the action of molecule.fermionic_hamiltonian equals the Slater-Condon row computed "
                "from the UNFROZEN integrals with the frozen occupied orbitals kept occupied (CAS projection) - the algebraic "
                "content of 'same spectrum as CAS-CI with the same frozen orbitals'; (c) under JW/BK/scBK/JKMN x both "
                "orderings the expectation value of the qubit Hamiltonian on the state prepared by the real "
                "get_reference_circuit equals the closed-form mean-field energy expression of the reference determinant.",
    bounds=dict(quick="<=3 spatial orbitals, <=1 frozen occupied + <=1 frozen virtual, non-contiguous selections, RHF/ROHF/UHF",
                thorough="<=4 spatial orbitals, more selections and electron numbers"),
    outside=["PySCF integral evaluation, SCF convergence and the value of mf_energy it reports", "the numerical FCI/CCSD energies "
             "of the classical solvers (compiled code + eigensolver)", "invariance of the lowest eigenvalue under active-orbital "
             "rotations (an eigenvalue statement; auxiliary concrete shapes aux/rotation only)", "IEEE rounding", "UHF with different alpha/beta spatial orbitals beyond the "
             "block structure checked here", "the 'frozen_core' default (element table)"],
    stubs=["IntegralSolverPySCF -> SymIntegralSolver (a Tangelo IntegralSolver subclass returning the harness' integrals)"],
    trusted_base=["symx.fock Slater-Condon rules", "symx.refsem"],
    assumptions=["openfermion sparse iteration: tensor entries that are not identically zero are treated as non-zero (generic-nonzero policy)"],
)


def preload():
    import tangelo  # noqa
    from tangelo.toolboxes.qubit_mappings.statevector_mapping import get_reference_circuit  # noqa


class alloc:
    def __init__(self, env):
        self.env = env

    def __enter__(self):
        self.old = shim.ALLOC_OBJECT
        shim.ALLOC_OBJECT = bool(self.env.symbolic)

    def __exit__(self, *a):
        shim.ALLOC_OBJECT = self.old


def full_det(f_act, act, frozen_occ, n_mos):
    """interleaved occupation vector of the full space from the active one"""
    f = []
    for i in range(n_mos):
        if i in frozen_occ:
            f += [1, 1]
        elif i in act:
            k = act.index(i)
            f += [f_act[2 * k], f_act[2 * k + 1]]
        else:
            f += [0, 0]
    return tuple(f)


def act_of_full(g, act):
    out = []
    for i in act:
        out += [g[2 * i], g[2 * i + 1]]
    return tuple(out)


def h_partition(env, n_mos, ne, spin, frozen, uhf):
    const, h, eri = 0.0, [[0.0] * n_mos for _ in range(n_mos)], [[[[0.0] * n_mos for _ in range(n_mos)] for _ in range(n_mos)] for _ in range(n_mos)]
    mol = symmol.molecule(n_mos, ne, spin, const, h, eri, False, frozen=frozen, uhf=uhf)
    na, nb = (ne + spin) // 2, (ne - spin) // 2
    spins = (0, 1) if uhf else (None,)
    for s in spins:
        ao = mol.active_occupied if s is None else mol.active_occupied[s]
        fo = mol.frozen_occupied if s is None else mol.frozen_occupied[s]
        av = mol.active_virtual if s is None else mol.active_virtual[s]
        fv = mol.frozen_virtual if s is None else mol.frozen_virtual[s]
        allo = sorted(ao + fo + av + fv)
        env.check_same(allo, list(range(n_mos)), f"partition covers every orbital exactly once (spin block {s})")
        nocc = max(na, nb) if s is None else (na if s == 0 else nb)
        env.check_true(all(i < nocc for i in ao + fo) and all(i >= nocc for i in av + fv), "occupied/virtual classes follow the occupations")
        if isinstance(frozen, int):
            want = list(range(frozen))
        elif frozen is None:
            want = []
        elif uhf and frozen and isinstance(frozen[0], (list, tuple)):
            want = sorted(frozen[s])
        else:
            want = sorted(frozen)
        env.check_same(sorted(fo + fv), want, "frozen orbitals are exactly the requested ones")
    if not uhf:
        nfe = sum(int(mol.mo_occ[i]) for i in mol.frozen_occupied)
        env.check_same(mol.n_active_electrons, ne - nfe, "n_active_electrons = electrons not sitting in frozen orbitals")
        env.check_same(mol.n_active_sos, 2 * len(mol.active_mos), "n_active_sos")
        env.check_same(mol.active_spin, spin, "active spin equals the molecular spin (frozen orbitals are closed)")
    else:
        nfe = len(mol.frozen_occupied[0]) + len(mol.frozen_occupied[1])
        env.check_same(mol.n_active_electrons, ne - nfe, "UHF n_active_electrons")
        env.check_same(mol.active_spin, (na - len(mol.frozen_occupied[0])) - (nb - len(mol.frozen_occupied[1])), "UHF active spin")


def h_folding(env, n_mos, ne, spin, frozen, uhf=False, canary=False):
    const, h, eri = sym_integrals(env, n_mos)
    with alloc(env):
        mol = symmol.molecule(n_mos, ne, spin, const, h, eri, env.symbolic, frozen=frozen, uhf=uhf)
        H = mol.fermionic_hamiltonian
    if uhf:
        act, frozen_occ = list(mol.active_mos[0]), list(mol.frozen_occupied[0])
        env.check_same(list(mol.active_mos[1]), act, "same active space for both spins in this shape")
    else:
        act, frozen_occ = list(mol.active_mos), list(mol.frozen_occupied)
    if canary:
        eri = [[[[x for x in c] for c in b] for b in a] for a in eri]
        i = frozen_occ[0] if frozen_occ else 0
        j = act[0]
        for (a, b, c, d) in ((i, i, j, j), (j, j, i, i)):
            eri[a][b][c][d] = eri[a][b][c][d] * 2
    terms = dict(H.terms)
    for f_act in itertools.product((0, 1), repeat=2 * len(act)):
        f_full = full_det(f_act, act, frozen_occ, n_mos)
        row = fock.slater_condon_row(f_full, const, h, eri)
        exp = {}
        for g, v in row.items():
            if all(g[2 * i] == 1 and g[2 * i + 1] == 1 for i in frozen_occ) and \
                    all(g[2 * i] == 0 and g[2 * i + 1] == 0 for i in range(n_mos) if i not in act and i not in frozen_occ):
                exp[act_of_full(g, act)] = v
        got = fock.apply_operator(terms, f_act)
        keys = sorted(set(got) | set(exp))
        env.check_vec_eq([got.get(k, 0) for k in keys], [exp.get(k, 0) for k in keys],
                         f"H_active|{''.join(map(str, f_act))}> == CAS projection of the full-space Slater-Condon row (frozen={frozen}, uhf={uhf})")


def _sym8(env, m, pre):
    h = [[None] * m for _ in range(m)]
    for i in range(m):
        for j in range(i, m):
            h[i][j] = h[j][i] = env.real(f"{pre}h{i}{j}", -2, 2)
    eri = [[[[None] * m for _ in range(m)] for _ in range(m)] for _ in range(m)]
    for i, j, k, l in itertools.product(range(m), repeat=4):
        if eri[i][j][k][l] is None:
            v = env.real(f"{pre}g{i}{j}{k}{l}", -2, 2)
            for (a, b, c, d) in ((i, j, k, l), (j, i, k, l), (i, j, l, k), (j, i, l, k), (k, l, i, j), (l, k, i, j), (k, l, j, i), (l, k, j, i)):
                eri[a][b][c][d] = v
    return h, eri


def _sym_ab(env, m):
    """(pq|rs) with pq alpha and rs beta orbitals: symmetric within each pair only"""
    eri = [[[[None] * m for _ in range(m)] for _ in range(m)] for _ in range(m)]
    for i, j, k, l in itertools.product(range(m), repeat=4):
        if eri[i][j][k][l] is None:
            v = env.real(f"abg{i}{j}{k}{l}", -2, 2)
            for (a, b, c, d) in ((i, j, k, l), (j, i, k, l), (i, j, l, k), (j, i, l, k)):
                eri[a][b][c][d] = v
    return eri


def uhf_terms(const, ha, hb, eaa, eab, ebb, n):
    """textbook spin-unrestricted Hamiltonian as an operator dict (interleaved ordering: alpha 2p, beta 2p+1)"""
    t = {(): const}

    def add(term, c):
        t[term] = t.get(term, 0) + c
    for p in range(n):
        for q in range(n):
            add(((2 * p, 1), (2 * q, 0)), ha[p][q])
            add(((2 * p + 1, 1), (2 * q + 1, 0)), hb[p][q])
    half = R.C(1) / 2
    for p, q, r, s_ in itertools.product(range(n), repeat=4):
        add(((2 * p, 1), (2 * r, 1), (2 * s_, 0), (2 * q, 0)), half * eaa[p][q][r][s_])
        add(((2 * p + 1, 1), (2 * r + 1, 1), (2 * s_ + 1, 0), (2 * q + 1, 0)), half * ebb[p][q][r][s_])
        add(((2 * p, 1), (2 * r + 1, 1), (2 * s_ + 1, 0), (2 * q, 0)), eab[p][q][r][s_])
    return t


def h_folding_uhf(env, n_mos, ne, spin, frozen, canary=False):
    """UHF with DIFFERENT alpha and beta integrals and per-spin frozen lists"""
    const = env.real("E0", -2, 2)
    ha, eaa = _sym8(env, n_mos, "a")
    hb, ebb = _sym8(env, n_mos, "b")
    eab = _sym_ab(env, n_mos)
    with alloc(env):
        mol = symmol.molecule(n_mos, ne, spin, const, ha, eaa, env.symbolic, frozen=frozen, uhf=True, h_b=hb, eri_ab=eab, eri_bb=ebb)
        H = mol.fermionic_hamiltonian
    act_a, act_b = list(mol.active_mos[0]), list(mol.active_mos[1])
    fo_a, fo_b = list(mol.frozen_occupied[0]), list(mol.frozen_occupied[1])
    na_, nb_ = len(act_a), len(act_b)
    nq = 2 * max(na_, nb_)
    full = uhf_terms(const, ha, hb, eaa, eab if not canary else [[[[x * 2 for x in c] for c in b] for b in a] for a in eab], ebb, n_mos)
    terms = dict(H.terms)

    def to_full(f_act):
        f = [0] * (2 * n_mos)
        for i in fo_a:
            f[2 * i] = 1
        for i in fo_b:
            f[2 * i + 1] = 1
        for k_, i in enumerate(act_a):
            f[2 * i] = f_act[2 * k_]
        for k_, i in enumerate(act_b):
            f[2 * i + 1] = f_act[2 * k_ + 1]
        return tuple(f)

    def to_act(g):
        out = [0] * nq
        for k_, i in enumerate(act_a):
            out[2 * k_] = g[2 * i]
        for k_, i in enumerate(act_b):
            out[2 * k_ + 1] = g[2 * i + 1]
        return tuple(out)
    core = sorted([2 * i for i in fo_a] + [2 * i + 1 for i in fo_b])

    def sign(f_act):
        """|f>_act stands for (active creators in ACTIVE order) acting on the frozen core; bringing that operator string to
        ascending full-space order costs (-1)^inversions - a basis-vector sign convention, not physics"""
        seq = []
        for k_ in range(nq // 2):
            if k_ < na_ and f_act[2 * k_]:
                seq.append(2 * act_a[k_])
            if k_ < nb_ and f_act[2 * k_ + 1]:
                seq.append(2 * act_b[k_] + 1)
        seq += core
        inv = sum(1 for i in range(len(seq)) for j in range(i + 1, len(seq)) if seq[i] > seq[j])
        return -1 if inv % 2 else 1

    for f_act in itertools.product((0, 1), repeat=nq):
        # positions beyond a spin's active count do not exist: keep them empty
        if any(f_act[2 * k_] for k_ in range(na_, nq // 2)) or any(f_act[2 * k_ + 1] for k_ in range(nb_, nq // 2)):
            continue
        f_full = to_full(f_act)
        row = fock.apply_operator(full, f_full)
        exp = {}
        for g, v in row.items():
            ok = all(g[2 * i] == 1 for i in fo_a) and all(g[2 * i + 1] == 1 for i in fo_b)
            ok = ok and all(g[2 * i] == 0 for i in range(n_mos) if i not in act_a and i not in fo_a)
            ok = ok and all(g[2 * i + 1] == 0 for i in range(n_mos) if i not in act_b and i not in fo_b)
            if ok:
                ga = to_act(g)
                exp[ga] = exp.get(ga, 0) + v * (sign(f_act) * sign(ga))
        got = fock.apply_operator(terms, f_act)
        keys = sorted(set(got) | set(exp))
        env.check_vec_eq([got.get(k_, 0) for k_ in keys], [exp.get(k_, 0) for k_ in keys],
                         f"UHF H_active|{''.join(map(str, f_act))}> == CAS projection of the spin-unrestricted Hamiltonian (frozen={frozen})")


def h_reference(env, n_mos, ne, spin, frozen, mapping, utd):
    from tangelo.toolboxes.qubit_mappings.mapping_transform import fermion_to_qubit_mapping
    from tangelo.toolboxes.qubit_mappings.statevector_mapping import get_reference_circuit
    const, h, eri = sym_integrals(env, n_mos)
    with alloc(env):
        mol = symmol.molecule(n_mos, ne, spin, const, h, eri, env.symbolic, frozen=frozen)
        H = mol.fermionic_hamiltonian
        qH = fermion_to_qubit_mapping(H, mapping, n_spinorbitals=mol.n_active_sos, n_electrons=mol.n_active_electrons,
                                      up_then_down=utd, spin=mol.active_spin)
    with shim.concrete_mode():
        circ = get_reference_circuit(mol.n_active_sos, mol.n_active_electrons, mapping, up_then_down=utd, spin=mol.active_spin)
    nq = mol.n_active_sos - (2 if mapping.lower() == "scbk" else 0)
    st = R.run_gates(circ._gates, nq)
    val = R.expectation(st, nq, dict(qH.terms))
    # closed-form mean-field energy of the aufbau determinant, from the unfrozen integrals
    na, nb = (ne + spin) // 2, (ne - spin) // 2
    f_ref = []
    for i in range(n_mos):
        f_ref += [1 if i < na else 0, 1 if i < nb else 0]
    e_mf = fock.slater_condon_row(tuple(f_ref), const, h, eri).get(tuple(f_ref), 0)
    env.check_eq(val, e_mf, f"<ref|H_qubit|ref> == mean-field energy expression [{mapping}, up_then_down={utd}, frozen={frozen}]")


AUX_MOLS = {
    "H4_singlet": dict(xyz="H4", q=0, spin=0, frozen=None, uhf=False),
    "H4_triplet_fv3": dict(xyz="H4", q=0, spin=2, frozen=[3], uhf=False),
    "H4_triplet": dict(xyz="H4", q=0, spin=2, frozen=None, uhf=False),
    # electrostatic embedding in MM point charges (the nuclei - charge term is part of the constant of the Hamiltonian)
    "H4_qmmm_fv3": dict(xyz="H4", q=0, spin=0, frozen=[3], uhf=False, charges=[(-0.4, (0.0, 1.5, 1.0)), (0.25, (1.2, -0.8, 2.5))]),
    "H4+_qmmm_uhf": dict(xyz="H4", q=1, spin=1, frozen=None, uhf=True, charges=[(-0.4, (0.0, 1.5, 1.0)), (0.25, (1.2, -0.8, 2.5))]),
    "H4+_doublet_fo0": dict(xyz="H4", q=1, spin=1, frozen=[0], uhf=False),
    "H4_interior_f1": dict(xyz="H4", q=0, spin=0, frozen=[1], uhf=False),
    "LiH_triplet_fo0": dict(xyz="LiH", q=0, spin=2, frozen=[0], uhf=False),
    "H4+_uhf_f": dict(xyz="H4", q=1, spin=1, frozen=[[0], [0]], uhf=True),
    # unrestricted, TWO frozen occupied alpha orbitals (their mutual Coulomb - exchange term enters the constant) and different lists per spin
    "LiH_triplet_uhf_f01": dict(xyz="LiH", q=0, spin=2, frozen=[[0, 1], [0, 1]], uhf=True),
    "LiH_triplet_uhf_f01_05": dict(xyz="LiH", q=0, spin=2, frozen=[[0, 1], [0, 5]], uhf=True),
    # closed-shell reference whose lowest M_s = 0 state is a triplet (the sector ground state is not a singlet)
    "H4sq_singlet_fv3": dict(xyz="H4sq", q=0, spin=0, frozen=[3], uhf=False),
    # unrestricted reference with an effective core potential (the pseudo-potential is part of the core Hamiltonian)
    "NaH-_uhf_ecp": dict(xyz="NaH", q=-1, spin=1, frozen=[[4, 5, 6, 7, 8, 9], [4, 5, 6, 7, 8, 9]], uhf=True, basis="lanl2dz", ecp={"Na": "lanl2dz"}),
}
_XYZ = {"H4": [("H", (0.0, 0.0, 0.0)), ("H", (0.0, 0.0, 0.9)), ("H", (0.0, 0.8, 1.9)), ("H", (0.3, 0.0, 2.9))],
        "LiH": [("Li", (0.0, 0.0, 0.0)), ("H", (0.0, 0.0, 1.6))],
        "H4sq": [("H", (0.0, 0.0, 0.0)), ("H", (1.3, 0.0, 0.0)), ("H", (1.3, 1.3, 0.0)), ("H", (0.0, 1.3, 0.0))],
        "NaH": [("Na", (0.0, 0.0, 0.0)), ("H", (0.0, 0.0, 2.0))]}


def h_aux_fci(env, key, mapping, utd):
    """AUXILIARY concrete shape (no solver role; PySCF + numpy eigensolver are numeric): for a real molecule the lowest
    eigenvalue of the qubit Hamiltonian in the (N, Sz) sector equals the classical FCI energy with the same frozen orbitals,
    and the reference circuit's expectation equals the mean-field energy PySCF reports (1e-6)."""
    from tangelo import SecondQuantizedMolecule
    from tangelo.algorithms.classical import FCISolver
    from tangelo.toolboxes.qubit_mappings.mapping_transform import fermion_to_qubit_mapping
    from tangelo.toolboxes.qubit_mappings.statevector_mapping import get_reference_circuit, get_mapped_vector
    from openfermion import get_sparse_operator
    spec = AUX_MOLS[key]
    with shim.concrete_mode():
        extra = {}
        if spec.get("charges"):
            from tangelo.toolboxes.molecular_computation.integral_solver_pyscf import IntegralSolverPySCFQMMM
            extra["solver"] = IntegralSolverPySCFQMMM(list(spec["charges"]))
        m = SecondQuantizedMolecule(_XYZ[spec["xyz"]], q=spec["q"], spin=spec["spin"], basis=spec.get("basis", "sto-3g"), ecp=spec.get("ecp"),
                                    frozen_orbitals=spec["frozen"], uhf=spec["uhf"], **extra)
        n, ne, sp = m.n_active_sos, m.n_active_electrons, m.active_spin
        qH = fermion_to_qubit_mapping(m.fermionic_hamiltonian, mapping, n_spinorbitals=n, n_electrons=ne, up_then_down=utd, spin=sp)
        nq = n - (2 if mapping.lower() == "scbk" else 0)
        M = get_sparse_operator(qH, n_qubits=nq).toarray()
        # sector basis states = images of determinants with (n_alpha, n_beta)
        na, nb = (ne + sp) // 2, (ne - sp) // 2
        idxs = set()
        for f in itertools.product((0, 1), repeat=n):
            if sum(f[0::2]) == na and sum(f[1::2]) == nb:
                v = get_mapped_vector(np.array(f), mapping, utd)
                idxs.add(int("".join(str(int(b)) for b in v), 2))
        idxs = sorted(idxs)
        sub = M[np.ix_(idxs, idxs)]
        e_sector = float(np.linalg.eigvalsh(sub)[0])
        circ = get_reference_circuit(n, ne, mapping, up_then_down=utd, spin=sp)
        st = np.zeros(2 ** nq, dtype=complex)
        bits = ["0"] * nq
        for g in circ._gates:
            bits[g.target[0]] = "1"
        st[int("".join(bits), 2)] = 1
        e_ref = float((st.conj() @ M @ st).real)
        e_mf = float(m.mf_energy)
        e_fci = None
        if not spec["uhf"]:
            e_fci = float(FCISolver(m).simulate())
    env.check_true(abs(e_ref - e_mf) < 1e-6, f"<ref|H|ref> == mean-field energy of PySCF [{key}, {mapping}, utd={utd}]", detail=f"{e_ref} vs {e_mf}")
    if sp == ne % 2 and not spec["uhf"]:
        # lowest-spin reference: leaving the optional spin argument at its default prepares the same determinant
        with shim.concrete_mode():
            circ_d = get_reference_circuit(n, ne, mapping, up_then_down=utd)
        env.check_same(sorted(g.target[0] for g in circ_d._gates), sorted(g.target[0] for g in circ._gates),
                       f"get_reference_circuit with the spin left at its default == the one with spin={sp} [{key}, {mapping}, utd={utd}]")
    if e_fci is not None:
        env.check_true(abs(e_sector - e_fci) < 1e-6, f"lowest (N, Sz)-sector eigenvalue == FCISolver energy [{key}, {mapping}, utd={utd}]",
                       detail=f"{e_sector} vs {e_fci}")


def h_aux_solver_reuse(env, uhf):
    """AUXILIARY concrete shape (no solver role): ONE integral-solver object handed (documented `solver=` argument) to the
    successive molecules of a bond scan - each molecule is built and evaluated before the next one is built (the solver object
    holds the orbital coefficients of the molecule built last, by design; going BACK to an earlier molecule is not claimed):
    for each molecule the reference determinant's expectation of ITS Hamiltonian equals ITS mean-field energy (1e-6)"""
    from tangelo import SecondQuantizedMolecule
    from tangelo.toolboxes.molecular_computation.integral_solver_pyscf import IntegralSolverPySCF
    from tangelo.toolboxes.qubit_mappings.mapping_transform import fermion_to_qubit_mapping
    from openfermion import get_sparse_operator
    geoms = [[("H", (0.0, 0.0, 0.0)), ("H", (0.0, 0.0, 0.8)), ("H", (0.0, 0.5, 1.9)), ("H", (0.2, 0.0, 2.7))],
             [("H", (0.0, 0.0, 0.0)), ("H", (0.0, 0.0, 1.3)), ("H", (0.0, 0.9, 2.2)), ("H", (0.4, 0.0, 3.6))],
             [("H", (0.0, 0.0, 0.0)), ("H", (0.0, 0.0, 1.0)), ("H", (0.0, 0.7, 2.0)), ("H", (0.3, 0.0, 3.1))]]
    with shim.concrete_mode():
        solver = IntegralSolverPySCF()
        q_, sp_ = (1, 1) if uhf else (0, 0)

        def e_ref(m):
            n, ne, sp = m.n_active_sos, m.n_active_electrons, m.active_spin
            qH = fermion_to_qubit_mapping(m.fermionic_hamiltonian, "jw", n_spinorbitals=n, n_electrons=ne, up_then_down=False, spin=sp)
            M = get_sparse_operator(qH, n_qubits=n).toarray()
            na, nb = (ne + sp) // 2, (ne - sp) // 2
            bits = ["0"] * n
            for i in range(na):
                bits[2 * i] = "1"
            for i in range(nb):
                bits[2 * i + 1] = "1"
            return float(M[int("".join(bits), 2), int("".join(bits), 2)].real)
        mfs = []
        for step, g in enumerate(geoms):
            m = SecondQuantizedMolecule(g, q=q_, spin=sp_, basis="sto-3g", uhf=uhf, solver=solver)
            e, mf = e_ref(m), float(m.mf_energy)
            mfs.append(mf)
            env.check_true(abs(e - mf) < 1e-6, f"shared solver object, scan step {step} (uhf={uhf}): <ref|H|ref> == that molecule's mean-field energy",
                           detail=f"{e} vs {mf}")
            e2 = e_ref(m)
            env.check_true(abs(e2 - mf) < 1e-6, f"shared solver object, scan step {step} (uhf={uhf}), Hamiltonian read a second time", detail=f"{e2} vs {mf}")
    env.check_true(min(abs(a - b) for i, a in enumerate(mfs) for b in mfs[i + 1:]) > 1e-3, "harness premise: the geometries have different energies")


def h_aux_rotation(env, key):
    """AUXILIARY concrete shape (no solver role): the documented optional mo_coeff= argument. Rotating two ACTIVE orbitals among
    themselves changes the integrals but not the spectrum: the lowest (N, Sz)-sector eigenvalue of the Jordan-Wigner matrix built
    from the rotated coefficients equals the one of the stored coefficients (1e-8), and differs from it in matrix elements."""
    import math
    from tangelo import SecondQuantizedMolecule
    from tangelo.toolboxes.qubit_mappings.mapping_transform import fermion_to_qubit_mapping
    from openfermion import get_sparse_operator
    spec = AUX_MOLS[key]
    with shim.concrete_mode():
        m = SecondQuantizedMolecule(_XYZ[spec["xyz"]], q=spec["q"], spin=spec["spin"], basis="sto-3g", frozen_orbitals=spec["frozen"], uhf=False)
        n, ne, sp = m.n_active_sos, m.n_active_electrons, m.active_spin
        na, nb = (ne + sp) // 2, (ne - sp) // 2
        idxs = [int("".join(map(str, f)), 2) for f in itertools.product((0, 1), repeat=n) if sum(f[0::2]) == na and sum(f[1::2]) == nb]

        def lowest(mo):
            H = m._get_fermionic_hamiltonian(mo) if mo is not None else m.fermionic_hamiltonian
            M = get_sparse_operator(fermion_to_qubit_mapping(H, "jw", n_spinorbitals=n), n_qubits=n).toarray()
            return float(np.linalg.eigvalsh(M[np.ix_(idxs, idxs)])[0]), M
        e0, M0 = lowest(None)
        C = np.array(m.mo_coeff, dtype=float).copy()
        i, j = m.active_mos[0], m.active_mos[-1]
        th = 0.37
        ci, cj = C[:, i].copy(), C[:, j].copy()
        C[:, i], C[:, j] = math.cos(th) * ci + math.sin(th) * cj, -math.sin(th) * ci + math.cos(th) * cj
        stored = np.array(m.mo_coeff, dtype=float).copy()
        e1, M1 = lowest(C)
        e2, _ = lowest(None)
        # the same rotation through the documented setter; afterwards the CALLER's array is overwritten in place (it is the
        # caller's): the molecule keeps the coefficients it was given at assignment time
        m.mo_coeff = C
        given = C.copy()
        e3, _ = lowest(None)
        C[:, :] = 0.0
        kept = float(np.abs(np.array(m.mo_coeff, dtype=float) - given).max())
        e4, _ = lowest(None) if kept == 0.0 else (float("nan"), None)
        m.mo_coeff = stored
    env.check_true(abs(e1 - e0) < 1e-8, f"lowest sector eigenvalue is invariant under a rotation of active orbitals {i},{j} passed as mo_coeff= [{key}]", detail=f"{e1} vs {e0}")
    env.check_true(float(np.abs(M1 - M0).max()) > 1e-6, "the rotated coefficients were used (matrix elements differ)")
    env.check_true(abs(e2 - e0) < 1e-12, "the molecule's own coefficients are untouched by the call with mo_coeff=")
    env.check_true(abs(e3 - e0) < 1e-8, f"lowest sector eigenvalue is invariant under the same rotation assigned through molecule.mo_coeff = C [{key}]", detail=f"{e3} vs {e0}")
    env.check_true(kept == 0.0 and abs(e4 - e3) < 1e-12, "after molecule.mo_coeff = C the molecule does not follow later in-place changes of the caller's array C",
                   detail=f"max change of the stored coefficients {kept}")


def shapes(tier, seed):
    out = []
    part = [(3, 2, 0, None, False), (3, 4, 0, 1, False), (4, 4, 0, [0, 3], False), (4, 4, 0, [1, 2], False),
            (4, 2, 0, [3], False), (4, 3, 1, [0], False), (4, 4, 2, [3], False), (4, 6, 0, 2, False), (4, 4, 0, [2], False),
            (3, 2, 0, None, True), (4, 4, 0, [[0, 3], [0, 3]], True), (4, 3, 1, [[0, 3], [0]], True), (4, 4, 2, [[0], [2, 3]], True)]
    for (n, ne, sp, fr, uhf) in part:
        out.append(Shape(f"partition/n{n}e{ne}s{sp}/{fr}/uhf={int(uhf)}", h_partition, dict(n_mos=n, ne=ne, spin=sp, frozen=fr, uhf=uhf), modules=MODS))
    fold = [(2, 2, 0, None, False), (3, 2, 0, None, False), (3, 4, 0, [0], False), (3, 2, 0, [2], False),
            (3, 3, 1, [0], False), (3, 2, 0, [1], False), (2, 2, 0, None, True), (3, 4, 0, [[0], [0]], True)]
    if tier == "thorough":
        fold += [(4, 4, 0, [0, 3], False), (4, 4, 0, [0, 2], False), (4, 6, 0, [0, 1], False), (3, 2, 2, None, False),
                 (3, 2, 0, [[2], [2]], True)]
    for (n, ne, sp, fr, uhf) in fold:
        out.append(Shape(f"folding/n{n}e{ne}s{sp}/{fr}/uhf={int(uhf)}", h_folding, dict(n_mos=n, ne=ne, spin=sp, frozen=fr, uhf=uhf),
                         modules=MODS, max_paths=8))
    ufold = [(2, 2, 0, [[], []]), (3, 3, 1, [[0], [1]]), (3, 4, 0, [[0], [0]]), (3, 3, 1, [[0, 2], [0]]), (3, 4, 2, [[1], [0]])]
    if tier == "thorough":
        ufold += [(4, 5, 1, [[1, 3], [0, 3]]), (4, 4, 0, [[0], [1]]), (3, 2, 0, [[2], [1]])]
    for (n, ne, sp, fr) in ufold:
        out.append(Shape(f"folding_uhf/n{n}e{ne}s{sp}/{fr}", h_folding_uhf, dict(n_mos=n, ne=ne, spin=sp, frozen=fr), modules=MODS, max_paths=8))
    out.append(Shape("canary/folding_uhf", h_folding_uhf, dict(n_mos=3, ne=3, spin=1, frozen=[[0], [1]], canary=True), modules=MODS, canary=True, max_paths=8))
    out.append(Shape("canary/folding", h_folding, dict(n_mos=3, ne=4, spin=0, frozen=[0], canary=True), modules=MODS, canary=True, max_paths=8))
    for key in AUX_MOLS:
        for mp, utd in ((("jw", False), ("bk", True)) if tier == "quick" else (("jw", False), ("jw", True), ("bk", False), ("bk", True), ("scbk", False), ("jkmn", True))):
            if key.startswith("LiH") and (mp, utd) != ("jw", False):
                continue
            out.append(Shape(f"aux/fci_sector/{key}/{mp}/utd={int(utd)}", h_aux_fci, dict(key=key, mapping=mp, utd=utd), modules=()))
    for uhf_ in (False, True):
        if not any(s_.name == f"aux/solver-reuse/uhf={int(uhf_)}" for s_ in out):
            out.append(Shape(f"aux/solver-reuse/uhf={int(uhf_)}", h_aux_solver_reuse, dict(uhf=uhf_), modules=()))
    for key in ("H4_interior_f1", "H4+_doublet_fo0", "LiH_triplet_fo0"):
        out.append(Shape(f"aux/rotation/{key}", h_aux_rotation, dict(key=key), modules=()))
    refs = [(2, 2, 0, None), (3, 4, 0, [0]), (3, 2, 0, [2]), (3, 2, 0, [1])]
    if tier == "thorough":
        refs += [(3, 3, 1, [0]), (3, 2, 0, None), (4, 4, 0, [0, 3])]
    for (n, ne, sp, fr) in refs:
        for mp in ("jw", "bk", "scbk", "jkmn"):
            for utd in (False, True):
                if tier == "quick" and (n, fr) not in ((2, None), (3, [0])) and (mp, utd) != ("jw", False):
                    continue
                out.append(Shape(f"reference/n{n}e{ne}s{sp}/{fr}/{mp}/utd={int(utd)}", h_reference,
                                 dict(n_mos=n, ne=ne, spin=sp, frozen=fr, mapping=mp, utd=utd), modules=MODS, max_paths=8))
    return out
