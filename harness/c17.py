"""C17  Circuits and operators survive export/import round trips."""
import itertools
import random

from symx.core import Shape
from symx import refsem as R
from symx.num import Sym

PROPERTY = "C17"
M_IONQ = ("tangelo.linq.translator.translate_json_ionq", "tangelo.linq.translator.translate_circuit")
M_OP = ("tangelo.linq.translator.translate_cirq", "tangelo.linq.translator.translate_qubitop")

META = dict(
    explanation="(1) IonQ JSON: circuits over the writer's gate set (every gate name x every placement on <=3 qubits incl. two "
                "controls, inferred/explicit/idle-top widths; seeded 2-3 gate sequences) with SYMBOLIC rotation parameters are "
                "pushed through the real translate_circuit(c,'ionq') and back; names (CNOT=CX), targets, controls, width are "
                "compared structurally and every parameter by a solver-decided real equality; gates outside the format must raise "
                "on export and JSON entries the importer cannot express must raise on import. (2) ProjectQ command text: "
                "ENUMERATION (not symbolic: a parameter is printed into text) over gate kinds x qubit indices 0..11 x "
                "representative parameter literals x seeded sequences; unsupported gates and multi-controlled CNOT must be "
                "refused; width with idle top qubits must survive. (3) eval(repr(gate)) equals the gate field by field "
                "(name, targets, controls, parameter as real / string, is_variational): enumeration over all gate kinds, "
                "placements with one- and two-digit indices, literal and string parameters. (4) translate_operator tangelo->cirq->"
                "tangelo on operators over all Pauli words on <=3 qubits: cirq.PauliString calls complex() on the coefficient, so "
                "the export direction runs with concrete (rational/complex) coefficients; the import direction "
                "translate_op_from_cirq is additionally run with SYMBOLIC complex coefficients carried through cirq as sympy "
                "symbols (PauliSum built by the harness independently of openfermion) and mapped back to solver variables, "
                "coefficient equality per term decided by the solver.",
    bounds=dict(quick="IonQ: 20 gate names, all placements on 3 qubits x 3 width modes, 8x12 seeded sequences; ProjectQ: 12 gate kinds x "
                      "qubits 0..11 x 11 literals, 6x12 sequences; repr: 27 gate kinds x placements x 16 parameters (zero, negative zero and integer zero included); operators: "
                      "64 words single-term + 24 seeded 2-3 term operators (concrete), 12 symbolic import operators",
                thorough="IonQ: same singles + all 138x138 ordered pairs of gate placements on 3 qubits + 40x12 sequences of length 3; ProjectQ: 40x12 sequences; "
                         "operators: all 64 single words x 6 coefficients, 200 seeded 2-3 term operators, 64+60 symbolic import operators"),
    outside=["OpenQASM export (translate_c_to_openqasm delegates to qiskit's .qasm(): qiskit absent) - hence no OpenQASM round trip; "
             "qiskit, braket, qulacs, pennylane, stim, projectq-operator formats: packages absent",
             "is_variational is Tangelo-internal metadata that no external format carries: not compared for format round trips "
             "(it IS compared for repr/eval)",
             "ProjectQ text and repr/eval: Python's float repr/parse round trip is trusted; these parts are enumeration over shapes x "
             "representative literals, the solver only sees constant obligations",
             "repr/eval of non-finite parameters (inf/nan), of Sym parameters, of CMEASURE dict parameters",
             "operator export tangelo->cirq with symbolic coefficients (cirq.PauliString realises the coefficient with complex()); "
             "operator terms whose coefficient is exactly 0 or below cirq's LinearDict drop tolerance; the sympy operator format "
             "(one direction only); 'openfermion' is not a translate_operator format (Tangelo's QubitOperator is an openfermion "
             "subclass) - only refusal of the unknown format name is checked",
             "IEEE rounding"],
    stubs=[], trusted_base=["Python float repr/parse", "cirq.PauliSum / openfermion.qubit_operator_to_pauli_sum (third party, real code is run)",
                            "sympy expression -> Sym conversion in the harness (symbolic import shapes)"],
)


def preload():
    import tangelo.linq  # noqa
    import tangelo.linq.translator  # noqa
    import cirq  # noqa
    import openfermion  # noqa


# ---------------------------------------------------------------- helpers
def _is_num(x):
    import numbers
    return isinstance(x, (Sym, numbers.Number)) and not isinstance(x, bool)


def canon_name(n):
    return "CX" if n in ("CNOT", "CX") else n


def build_gates(env, specs, tag=""):
    """specs: list of (name, targets, controls, p) with p None | 'sym' | literal"""
    from tangelo.linq import Gate
    gates = []
    for i, (name, tg, ct, p) in enumerate(specs):
        kw = {}
        if p == "sym":
            kw["parameter"] = env.angle(f"{tag}p{i}")
        elif p is not None:
            kw["parameter"] = p
        gates.append(Gate(name, list(tg) if isinstance(tg, (list, tuple)) else tg,
                          control=(None if ct is None else list(ct)), **kw))
    return gates


def snapshot(gates):
    return [(g.name, list(g.target), None if g.control is None else list(g.control), g.parameter, g.is_variational) for g in gates]


def compare_circuits(env, snap, width, c2, label, shift=0, variational=False):
    """snap: snapshot of the original gates; c2: circuit after the round trip.
    Structure by exact comparison, parameters as reals (solver)."""
    got = snapshot(c2._gates)
    s1 = [(canon_name(n), t, list(c or [])) + ((v,) if variational else ()) for (n, t, c, p, v) in snap]
    s2 = [(canon_name(n), t, list(c or [])) + ((v,) if variational else ()) for (n, t, c, p, v) in got]
    env.check_same(s2, s1, f"{label}: gate names/targets/controls")
    env.check_same(c2.width, width, f"{label}: width")
    if len(got) != len(snap):
        return
    for i, (a, b) in enumerate(zip(snap, got)):
        pa, pb = a[3], b[3]
        if _is_num(pa) and _is_num(pb):
            env.check_eq(pb, pa + shift, f"{label}: parameter of gate {i} ({a[0]})")
        else:
            env.check_same(pb, pa, f"{label}: parameter of gate {i} ({a[0]})")


# ---------------------------------------------------------------- (1) IonQ JSON
ION_1Q = ["H", "X", "Y", "Z", "S", "T"]
ION_1QP = ["RX", "RY", "RZ", "PHASE"]
ION_CP = ["CRX", "CRY", "CRZ", "CPHASE"]
ION_C = ["CX", "CY", "CZ", "CNOT"]
ION_ALL = ION_1Q + ["SWAP"] + ION_1QP + ["XX"] + ION_CP + ION_C
ION_UNSUPPORTED = [("MEASURE", 0, None, None), ("CSWAP", (1, 2), (0,), None), ("CH", 0, (1,), None), ("SDAG", 1, None, None),
                   ("CS", 0, (1,), None), ("CT", 0, (2,), None), ("FOO", (0, 1, 2), None, 0.3), ("CXX", (0, 1), (2,), 0.3),
                   ("CMEASURE", 0, None, None), ("RXX", (0, 1), None, 0.5), ("CSDAG", 0, (1,), None)]


def ion_placements(name, nq=3):
    qs = range(nq)
    if name in ION_1Q:
        return [(name, q, None, None) for q in qs]
    if name in ION_1QP:
        return [(name, q, None, "sym") for q in qs]
    if name == "SWAP":
        return [(name, (a, b), None, None) for a, b in itertools.permutations(qs, 2)]
    if name == "XX":
        return [(name, (a, b), None, "sym") for a, b in itertools.permutations(qs, 2)]
    out = []
    p = "sym" if name in ION_CP else None
    for t in qs:
        others = [q for q in qs if q != t]
        for k in (1, 2):
            for cs in itertools.permutations(others, k):
                out.append((name, t, tuple(cs), p))
    return out


def h_ionq(env, circuits, canary=False):
    """circuits: list of (specs, n_qubits or None)"""
    from tangelo.linq import Circuit
    from tangelo.linq.translator import translate_circuit
    for k, (specs, nq) in enumerate(circuits):
        gates = build_gates(env, specs, tag=f"c{k}")
        c = Circuit(gates, n_qubits=nq)
        snap, width = snapshot(c._gates), c.width
        label = f"ionq round trip [{' '.join(s[0] for s in specs)} | n_qubits={nq}]"
        try:
            j = translate_circuit(c, "ionq")
            c2 = translate_circuit(j, "tangelo", source="ionq")
        except (ValueError, KeyError, TypeError, NotImplementedError, AttributeError, IndexError) as e:
            env.fail(label + ": raised", f"{type(e).__name__}: {e}")
            continue
        compare_circuits(env, snap, width, c2, label, shift=(1 if canary else 0))


def h_ionq_refuse(env, spec):
    from tangelo.linq import Circuit, Gate
    from tangelo.linq.translator import translate_circuit
    name, tg, ct, p = spec
    if name == "CMEASURE":
        g = Gate("CMEASURE", 0, parameter={"0": [Gate("X", 1)], "1": []})
    else:
        g = build_gates(env, [spec])[0]
    c = Circuit([Gate("H", 0), g])
    env.check_raises(lambda: translate_circuit(c, "ionq"), f"ionq export: {name} must be refused")


def h_ionq_unset(env):
    """parameterised gates whose parameter is still the unset placeholder "": the IonQ export either refuses them or the round trip
    gives back the same gate (same name - PHASE does not turn into Z - same qubits, parameter still unset)"""
    from tangelo.linq import Circuit, Gate
    from tangelo.linq.translator import translate_circuit
    for g in (Gate("PHASE", 0), Gate("CPHASE", 2, control=1), Gate("RX", 1), Gate("RZ", 0), Gate("CRY", 0, control=2), Gate("XX", [1, 3])):
        c = Circuit([Gate("H", 0), g])
        try:
            c2 = translate_circuit(translate_circuit(c, "ionq"), "tangelo", source="ionq")
        except Exception:       # a refusal is fine
            continue
        g2 = c2._gates[-1]
        env.check_same((g2.name, list(g2.target), list(g2.control or []), g2.parameter in ("", None) and g2.name == g.name or g2.parameter),
                       (g.name, list(g.target), list(g.control or []), True),
                       f"ionq round trip of {g.name} with an unset parameter: same gate back (or refused)")


ION_BAD_JSON = [
    {"gate": "v", "targets": [0]},
    {"gate": "s", "targets": [0], "controls": [1]},
    {"gate": "x", "targets": [0], "controls": [1], "rotation": 0.3},
    {"gate": "swap", "targets": [0, 1], "controls": [2]},
    {"gate": "xx", "targets": [0, 1], "controls": [2], "rotation": 0.3},
    {"gate": "h", "targets": [0], "controls": [1]},
    {"gate": "measure", "targets": [0]},
]


def h_ionq_import_refuse(env):
    from tangelo.linq.translator import translate_circuit
    for entry in ION_BAD_JSON:
        j = {"qubits": 3, "circuit": [{"gate": "h", "targets": [2]}, dict(entry)]}
        env.check_raises(lambda: translate_circuit(j, "tangelo", source="ionq"),
                         f"ionq import: entry {entry} is not expressible and must be refused")


# ---------------------------------------------------------------- (2) ProjectQ text
PQ_1Q = ["H", "X", "Y", "Z", "S", "T"]
PQ_P = ["RX", "RY", "RZ"]
PQ_LITERALS = [-0.7, 1e-05, -2.5e-07, 2.0, 3, 123456.789, 3.141592653589793, 0.1 + 0.2, 1e+22, -12.0, 0.0]
PQ_UNSUPPORTED = [("CX", 1, (0,), None), ("CY", 1, (0,), None), ("CZ", 1, (0,), None), ("SWAP", (0, 1), None, None),
                  ("XX", (0, 1), None, 0.3), ("CRX", 0, (1,), 0.3), ("CRY", 0, (1,), 0.3), ("CRZ", 0, (1,), 0.3),
                  ("CPHASE", 0, (1,), 0.3), ("CSWAP", (1, 2), (0,), None), ("CH", 0, (1,), None), ("FOO", (0, 1), None, None)]


def pq_roundtrip(env, specs, nq, label):
    from tangelo.linq import Circuit
    from tangelo.linq.translator import translate_circuit
    c = Circuit(build_gates(env, specs), n_qubits=nq)
    snap, width = snapshot(c._gates), c.width
    try:
        s = translate_circuit(c, "projectq")
        c2 = translate_circuit(s, "tangelo", source="projectq")
    except (ValueError, KeyError, TypeError, NotImplementedError, AttributeError, IndexError) as e:
        env.fail(label, f"round trip of {specs} raised {type(e).__name__}: {e}")
        return
    compare_circuits(env, snap, width, c2, label)


def h_pq_single(env, name, qubits, literals, canary=False):
    label = f"projectq round trip: {name}"
    for q in qubits:
        if name == "CNOT":
            for ctl in [x for x in qubits if x != q]:
                pq_roundtrip(env, [(name, q, (ctl,), None)], None, label)
        elif name in ("PHASE",) or name in PQ_P:
            for lit in literals:
                pq_roundtrip(env, [(name, q, None, lit)], None, label)
        else:
            pq_roundtrip(env, [(name, q, None, None)], None, label)
    if canary:
        # wrong spec: the parser is claimed to return the control as target
        from tangelo.linq import Circuit, Gate
        from tangelo.linq.translator import translate_circuit
        c = Circuit([Gate("CNOT", 10, control=3)])
        c2 = translate_circuit(translate_circuit(c, "projectq"), "tangelo", source="projectq")
        compare_circuits(env, [("CNOT", [3], [10], "", False)], 11, c2, "canary")


def h_pq_seq(env, circuits, label):
    for specs in circuits:
        pq_roundtrip(env, specs, None, label)


def h_pq_width(env):
    """idle top qubits: the text carries Allocate lines for every qubit of the register"""
    for specs, nq in ([[("H", 0, None, None)], 3], [[("RX", 1, None, 0.25), ("CNOT", 0, (1,), None)], 5], [[("X", 2, None, None)], 12],
                      [[("CNOT", 11, (3,), None), ("H", 10, None, None)], 12], [[("X", 9, None, None)], 11], [[("H", 0, None, None)], 100],
                      [[("RZ", 57, None, -1.5)], 101]):
        pq_roundtrip(env, specs, nq, "projectq round trip: width with idle top qubits")


def h_pq_refuse(env, spec):
    from tangelo.linq import Circuit, Gate
    from tangelo.linq.translator import translate_circuit
    c = Circuit([Gate("H", 0)] + build_gates(env, [spec]))
    env.check_raises(lambda: translate_circuit(c, "projectq"), f"projectq export: {spec[0]} must be refused")


def h_pq_multicontrol(env):
    """CNOT with two controls is not expressible by the writer's 'CX | ( c, t )' line: refuse, or round-trip faithfully"""
    from tangelo.linq import Circuit, Gate
    from tangelo.linq.translator import translate_circuit
    for t, cs in ((0, [1, 2]), (2, [0, 1]), (1, [3, 0])):
        c = Circuit([Gate("CNOT", t, control=cs)])
        snap, width = snapshot(c._gates), c.width
        label = "projectq export: multi-controlled CNOT must be refused or preserved"
        try:
            s = translate_circuit(c, "projectq")
        except Exception:
            env.check_true(True, label)
            continue
        try:
            c2 = translate_circuit(s, "tangelo", source="projectq")
        except Exception:
            env.check_true(True, label)       # refused on import: not silently altered
            continue
        compare_circuits(env, snap, width, c2, label)


# ---------------------------------------------------------------- (3) repr / eval
REPR_PARAMS = [0.0, -0.0, 0, 0.3, -0.7, 1e-05, -2.5e-07, 2.0, 3, 123456.789, 3.141592653589793, 0.1 + 0.2, 1e+22, "theta", "p 0", "a_1"]
REPR_KINDS = ([(n, "1q") for n in ["H", "X", "Y", "Z", "S", "T", "MEASURE", "SDAG"]] +
              [(n, "1qp") for n in ["RX", "RY", "RZ", "PHASE"]] +
              [(n, "c") for n in ["CNOT", "CX", "CY", "CZ", "CH"]] +
              [(n, "cp") for n in ["CRX", "CRY", "CRZ", "CPHASE"]] +
              [("SWAP", "2t"), ("XX", "2tp"), ("CSWAP", "c2t"), ("FOO", "3t"), ("CFOO", "c3tp"), ("POTATO", "1qp")])


def repr_placements(kind):
    if kind in ("1q", "1qp"):
        return [((q,), None) for q in (0, 1, 7, 10, 11)]
    if kind in ("c", "cp"):
        return [((0,), (1,)), ((1,), (0,)), ((10,), (3,)), ((2,), (0, 1)), ((0,), (11, 2)), ((5,), (4, 3, 10))]
    if kind in ("2t", "2tp"):
        return [((0, 1), None), ((1, 0), None), ((10, 2), None), ((3, 11), None)]
    if kind == "c2t":
        return [((1, 2), (0,)), ((2, 0), (1,)), ((10, 0), (5, 11))]
    if kind == "3t":
        return [((0, 1, 2), None), ((10, 0, 4), None)]
    if kind == "c3tp":
        return [((0, 1, 2), (3,)), ((10, 0, 4), (11, 5))]
    raise ValueError(kind)


def h_repr(env, name, kind, params, canary=False):
    from tangelo.linq import Gate
    import numpy as np
    ns = {"Gate": Gate}
    has_p = kind.endswith("p")
    for tg, ct in repr_placements(kind):
        for var in (False, True):
            for p in (params if has_p else [None]) + ([np.float64(0.3)] if has_p else []):
                kw = {} if p is None else {"parameter": p}
                g = Gate(name, list(tg), control=(None if ct is None else list(ct)), is_variational=var, **kw)
                snap = snapshot([g])[0]
                label = f"eval(repr(gate)) == gate: {name}"
                r = repr(g)
                try:
                    g2 = eval(r, dict(ns))
                except Exception as e:
                    env.fail(label, f"eval({r!r}) raised {type(e).__name__}: {e}")
                    continue
                got = snapshot([g2])[0]
                exp = (snap[0], snap[1], snap[2], snap[4])
                if canary:
                    exp = (snap[0], snap[1][::-1] if len(snap[1]) > 1 else [snap[1][0] + 1], snap[2], snap[4])
                env.check_same((got[0], got[1], got[2], got[4]), exp, label + " (name, target, control, is_variational)")
                if _is_num(snap[3]) and _is_num(got[3]):
                    env.check_eq(got[3], float(snap[3]) if not isinstance(snap[3], int) else snap[3], label + " (parameter)")
                else:
                    env.check_same(got[3], snap[3], label + " (parameter)")


def h_repr_string_quote(env):
    """string parameters are printed between single quotes"""
    from tangelo.linq import Gate
    for p in ("it's", "a'b", 'say "x"', "back\\slash"):
        g = Gate("RX", 0, parameter=p)
        r = repr(g)
        label = "eval(repr(gate)) == gate: string parameter with quote/backslash characters"
        try:
            g2 = eval(r, {"Gate": Gate})
        except Exception as e:
            env.fail(label, f"parameter {p!r}: eval({r!r}) raised {type(e).__name__}: {e}")
            continue
        env.check_same(g2.parameter, p, label)


def h_repr_sympy(env):
    """symbolic-expression parameters: evaluated in a namespace that binds the symbols"""
    import sympy
    from tangelo.linq import Gate
    t, u = sympy.symbols("t u")
    for p in (t, 2 * t, t + u / 3, -t):
        g = Gate("CRZ", 1, control=[0, 2], parameter=p)
        g2 = eval(repr(g), {"Gate": Gate, "t": t, "u": u})
        env.check_same((g2.name, g2.target, g2.control, g2.is_variational), (g.name, g.target, g.control, g.is_variational),
                       "eval(repr(gate)) == gate: sympy parameter (fields)")
        env.check_true(sympy.simplify(g2.parameter - p) == 0, "eval(repr(gate)) == gate: sympy parameter (value)")


# ---------------------------------------------------------------- (4) operators
def all_words(n=3):
    out = [()]
    for k in range(1, n + 1):
        for qs in itertools.combinations(range(n), k):
            for ps in itertools.product("XYZ", repeat=k):
                out.append(tuple(zip(qs, ps)))
    return out


OP_COEFS = [1.0, -0.5, 0.25 + 0.75j, -2j, 1234.5, 1e-3, -0.1 + 0.2j, 3, 0.333333333333, 7.5e-05 - 1.0j]


def compare_terms(env, got, exp, label, sign=1):
    """got/exp: dict word -> coefficient.  same support (words sorted by qubit) and equal coefficients"""
    env.check_same(sorted(got, key=repr), sorted(exp, key=repr), f"{label}: set of Pauli words")
    for w in exp:
        if w in got:
            env.check_eq(got[w], sign * exp[w], f"{label}: coefficient of {w}")


def h_op_roundtrip(env, ops, use_openfermion=False, canary=False):
    """ops: list of [(word, coef)] with concrete coefficients"""
    from tangelo.linq import translate_operator
    if use_openfermion:
        from openfermion import QubitOperator
    else:
        from tangelo.toolboxes.operators import QubitOperator
    for terms in ops:
        op = QubitOperator()
        for w, c in terms:
            op += QubitOperator(w, c)
        exp = dict(op.terms)
        label = f"operator tangelo->cirq->tangelo [{' + '.join(_wname(w) for w, _ in terms)}]"
        ps = translate_operator(op, "tangelo", "cirq")
        back = translate_operator(ps, "cirq", "tangelo")
        env.check_same(dict(op.terms), exp, label + ": source operator unchanged")
        compare_terms(env, dict(back.terms), exp, label, sign=(-1 if canary else 1))


def _wname(w):
    return "".join(f"{p}{q}" for q, p in w) or "I"


def sympy_to_num(e, table):
    """exact evaluation of a sympy expression in Symbols (looked up in table) over + * ** and numbers"""
    import sympy
    if isinstance(e, (int, float, complex, Sym)):
        return e
    e = sympy.sympify(e)
    if e.is_Symbol:
        return table[e.name]
    if e is sympy.I:
        return R.IMAG()
    if e.is_Add:
        s = sympy_to_num(e.args[0], table)
        for a in e.args[1:]:
            s = s + sympy_to_num(a, table)
        return s
    if e.is_Mul:
        s = sympy_to_num(e.args[0], table)
        for a in e.args[1:]:
            s = s * sympy_to_num(a, table)
        return s
    if e.is_Pow and e.args[1].is_Integer:
        return sympy_to_num(e.args[0], table) ** int(e.args[1])
    if e.is_Rational:
        from fractions import Fraction
        return R.C(Fraction(int(e.p), int(e.q))) if R.EXACT else float(e)
    if e.is_Float:
        return float(e)
    if e.is_number:
        return complex(e)
    raise TypeError(f"cannot convert {e!r}")


def h_op_from_cirq_sym(env, ops, canary=False):
    """import direction with symbolic coefficients: PauliSum built here (independently of openfermion) with sympy symbols as
    coefficient carriers in symbolic mode (plain complex numbers in replay mode)"""
    import cirq
    import sympy
    from tangelo.linq import translate_operator
    pauli = {"X": cirq.X, "Y": cirq.Y, "Z": cirq.Z}
    for k, words in enumerate(ops):
        nq = 1 + max([q for w in words for q, _ in w] + [0])
        qubits = cirq.LineQubit.range(nq)
        table, exp, strings = {}, {}, []
        for i, w in enumerate(words):
            # a term with coefficient exactly 0 is dropped by cirq (outside the claim): one component is kept non-zero
            re = env.real(f"o{k}c{i}.re", nonzero=(i % 2 == 0))
            im = env.real(f"o{k}c{i}.im", nonzero=(i % 2 == 1))
            val = re + R.IMAG() * im if env.symbolic else complex(re, im)
            if env.symbolic:
                carrier = sympy.Symbol(f"o{k}c{i}")
                table[carrier.name] = val
            else:
                carrier = val
            exp[w] = val
            strings.append(cirq.PauliString(qubit_pauli_map={qubits[q]: pauli[p] for q, p in w}, coefficient=carrier))
        ps = cirq.PauliSum.from_pauli_strings(strings)
        back = translate_operator(ps, "cirq", "tangelo")
        got = {w: sympy_to_num(c, table) for w, c in back.terms.items()}
        compare_terms(env, got, exp, f"operator cirq->tangelo, symbolic coefficients [{' + '.join(_wname(w) for w in words)}]",
                      sign=(-1 if canary else 1))


def h_op_unknown_format(env):
    from tangelo.linq import translate_operator
    from tangelo.toolboxes.operators import QubitOperator
    op = QubitOperator("X0 Y1", 0.5)
    for fmt in ("openfermion", "nonsense"):
        env.check_raises(lambda: translate_operator(op, "tangelo", fmt), f"translate_operator: unknown target format '{fmt}' is refused")
        env.check_raises(lambda: translate_operator(op, fmt, "tangelo"), f"translate_operator: unknown source format '{fmt}' is refused")
    from tangelo.linq import Circuit, Gate
    from tangelo.linq.translator import translate_circuit
    c = Circuit([Gate("H", 0)])
    env.check_raises(lambda: translate_circuit(c, "nonsense"), "translate_circuit: unknown target format is refused")
    env.check_raises(lambda: translate_circuit(c, "tangelo", source="cirq"), "translate_circuit: import from a format without importer is refused")


# ---------------------------------------------------------------- shapes
def _rand_ion_seq(rnd, length):
    specs = []
    for _ in range(length):
        name = rnd.choice(ION_ALL)
        specs.append(rnd.choice(ion_placements(name)))
    return specs


def _rand_pq_seq(rnd, length, names):
    specs = []
    for _ in range(length):
        name = rnd.choice(names)
        q = rnd.randrange(12)
        if name == "CNOT":
            c = rnd.choice([x for x in range(12) if x != q])
            specs.append((name, q, (c,), None))
        elif name in PQ_P or name == "PHASE":
            specs.append((name, q, None, rnd.choice(PQ_LITERALS)))
        else:
            specs.append((name, q, None, None))
    return specs


def shapes(tier, seed):
    rnd = random.Random(seed)
    out = []
    thorough = tier == "thorough"
    # ---- (1) IonQ
    for name in ION_ALL:
        circs = []
        for spec in ion_placements(name):
            for nq in (None, 3, 4):
                circs.append(([spec], nq))
        out.append(Shape(f"ionq/single/{name}", h_ionq, dict(circuits=circs), modules=M_IONQ, policy=dict(truth="fork")))
    nseq = 40 if thorough else 8
    for i in range(nseq):
        circs = [(_rand_ion_seq(rnd, 3 if thorough else rnd.choice((2, 3))), rnd.choice((None, 3, 5))) for _ in range(12)]
        out.append(Shape(f"ionq/seq/{i}", h_ionq, dict(circuits=circs), modules=M_IONQ))
    if thorough:
        # every ordered pair of placements on 3 qubits (138 x 138 two-gate circuits)
        allp = [pl for b in ION_ALL for pl in ion_placements(b)]
        for a in ION_ALL:
            pa = ion_placements(a)
            for j in range(0, len(pa), 6):
                circs = [([p1, p2], None) for p1 in pa[j:j + 6] for p2 in allp]
                out.append(Shape(f"ionq/pairs/{a}/{j // 6}", h_ionq, dict(circuits=circs), modules=M_IONQ))
    for spec in ION_UNSUPPORTED:
        out.append(Shape(f"ionq/refuse/{spec[0]}", h_ionq_refuse, dict(spec=spec), modules=M_IONQ))
    out.append(Shape("ionq/import-refuse", h_ionq_import_refuse, {}, modules=M_IONQ))
    out.append(Shape("ionq/unset-parameter", h_ionq_unset, {}, modules=()))
    out.append(Shape("canary/ionq/parameter", h_ionq, dict(circuits=[([("CRZ", 1, (0, 2), "sym"), ("H", 0, None, None)], None)], canary=True),
                     modules=M_IONQ, canary=True))
    # ---- (2) ProjectQ (concrete enumeration; translate_projectq is NOT shimmed)
    qs = list(range(12))
    for name in PQ_1Q + PQ_P + ["CNOT", "PHASE", "MEASURE"]:
        out.append(Shape(f"projectq/single/{name}", h_pq_single, dict(name=name, qubits=qs, literals=PQ_LITERALS)))
    core_names = PQ_1Q + PQ_P + ["CNOT"]
    for i in range(40 if thorough else 6):
        circs = [_rand_pq_seq(rnd, rnd.choice((2, 3, 5)), core_names) for _ in range(12)]
        out.append(Shape(f"projectq/seq/{i}", h_pq_seq, dict(circuits=circs, label="projectq round trip: sequence")))
    for tag, extra in (("PHASE", ["PHASE"]), ("MEASURE", ["MEASURE"])):
        circs = []
        while len(circs) < 6:
            s = _rand_pq_seq(rnd, 3, core_names + extra * 4)
            if any(x[0] == tag for x in s):
                circs.append(s)
        out.append(Shape(f"projectq/seq-with/{tag}", h_pq_seq, dict(circuits=circs, label=f"projectq round trip: {tag} (inside a sequence)")))
    out.append(Shape("projectq/width-idle", h_pq_width, {}))
    for spec in PQ_UNSUPPORTED:
        out.append(Shape(f"projectq/refuse/{spec[0]}", h_pq_refuse, dict(spec=spec)))
    out.append(Shape("projectq/refuse/multi-controlled-CNOT", h_pq_multicontrol, {}))
    out.append(Shape("canary/projectq/cnot-direction", h_pq_single, dict(name="H", qubits=[0], literals=[], canary=True), canary=True))
    # ---- (3) repr
    for name, kind in REPR_KINDS:
        out.append(Shape(f"repr/{name}", h_repr, dict(name=name, kind=kind, params=REPR_PARAMS)))
    out.append(Shape("repr/string-with-quote", h_repr_string_quote, {}))
    out.append(Shape("repr/sympy-parameter", h_repr_sympy, {}))
    out.append(Shape("canary/repr/target", h_repr, dict(name="SWAP", kind="2t", params=[], canary=True), canary=True))
    # ---- (4) operators
    words = all_words(3)
    if thorough:
        singles = [[(w, c)] for w in words for c in rnd.sample(OP_COEFS, 6)]
    else:
        singles = [[(w, rnd.choice(OP_COEFS))] for w in words]
    for i in range(0, len(singles), 32):
        out.append(Shape(f"op/cirq-roundtrip/single/{i // 32}", h_op_roundtrip, dict(ops=singles[i:i + 32]), modules=M_OP))
    multis = []
    for _ in range(200 if thorough else 24):
        ws = rnd.sample(words, rnd.choice((2, 3)))
        multis.append([(w, rnd.choice(OP_COEFS)) for w in ws])
    for i in range(0, len(multis), 12):
        out.append(Shape(f"op/cirq-roundtrip/multi/{i // 12}", h_op_roundtrip, dict(ops=multis[i:i + 12]), modules=M_OP))
    out.append(Shape("op/cirq-roundtrip/openfermion-instance", h_op_roundtrip,
                     dict(ops=[[(w, rnd.choice(OP_COEFS)) for w in rnd.sample(words, 3)] for _ in range(6)], use_openfermion=True), modules=M_OP))
    symops = [[w] for w in (words if thorough else rnd.sample(words, 6))]
    symops += [rnd.sample(words, rnd.choice((2, 3))) for _ in range(60 if thorough else 6)]
    for i in range(0, len(symops), 6):
        out.append(Shape(f"op/from-cirq-symbolic/{i // 6}", h_op_from_cirq_sym, dict(ops=symops[i:i + 6]), modules=M_OP))
    out.append(Shape("op/unknown-format", h_op_unknown_format, {}, modules=M_OP))
    out.append(Shape("canary/op/roundtrip-sign", h_op_roundtrip, dict(ops=[[(((0, "X"), (1, "Y")), 0.25 + 0.75j), (((2, "Z"),), -0.5)]], canary=True),
                     modules=M_OP, canary=True))
    out.append(Shape("canary/op/from-cirq-sign", h_op_from_cirq_sym, dict(ops=[[((0, "X"), (1, "Y")), ((2, "Z"),)]], canary=True),
                     modules=M_OP, canary=True))
    return out
