"""C18  Measurement grouping and histogram processing conserve information."""
import itertools
import random
from fractions import Fraction

from symx.core import Shape
from symx import opalg as A
from symx import refsem as R
from symx.num import SymEscape
from symx.path import Infeasible

PROPERTY = "C18"
M_GROUP = "tangelo.toolboxes.measurements.qubit_terms_grouping"
M_HIST = "tangelo.toolboxes.post_processing.histogram"
M_POST = "tangelo.toolboxes.post_processing.post_selection"
M_BOOT = "tangelo.toolboxes.post_processing.bootstrapping"
M_BACK = "tangelo.linq.target.backend"
MODS = (M_GROUP, M_HIST, M_POST, M_BOOT, M_BACK)

META = dict(
    explanation="(a) group_qwc(op, seed, n_repeat) on operators with SYMBOLIC complex coefficients: the groups partition the "
                "terms (each input term in exactly one group, coefficient equal for all values), every term's letters are "
                "contained in its group's basis word (diagonal in that basis), the input is unchanged, map_measurements_qwc "
                "lists exactly the bases that commute qubit-wise with each term; exp_value_from_measurement_bases on fully "
                "symbolic histograms equals the hand-written sum coef * sum_k f_k (-1)^(parity on the term's support), and on "
                "histograms derived from a fully symbolic state rotated into each group's basis it equals <psi|H|psi> of "
                "the original operator. (b) Histogram construction (counts / frequencies+n_shots, msq_first), frequencies, "
                "aggregate_histograms / + / +=, remove_qubit_indices, post_select (method and function), strip_post_selection, "
                "split_frequency_dict(+desired_measurement), split_frequency_dict_for_last_n_digits, get_expectation_value "
                "under marginalisation of untouched qubits: bitstring keys are enumerated, the values are symbolic "
                "(integer counts >= 0 or probabilities in [0,1] summing to 1); every output entry is compared with the "
                "marginal / conditional written by hand (missing key = 0), totals and normalisation follow. "
                "(c) get_resampled_frequencies / Histogram.resample with scipy.stats replaced by a recording stub: the "
                "(values, probabilities) handed to the sampler equal the input distribution, the number of requested "
                "draws is n_shots, the output keys have the input width and the output equals tally/n_shots (sum 1).",
    bounds=dict(quick="grouping: seeded operators of 3-12 words on 2-4 qubits, seeds 0-3, n_repeat 1-2, <=4 symbolic histogram "
                      "entries per basis; state-based check on 2-3 qubits; histograms: all non-empty key sets for 1-2 qubits, "
                      "seeded key sets (<=5 keys) for 3 qubits; n_shots in {1,3,10,100}",
                thorough="more seeded operators (same size bounds), state-based check up to 3 qubits with more operators; all key "
                         "sets for 1-2 qubits and 40 seeded ones for 3 qubits, every index subset / expected-outcome "
                         "dictionary on <=2 positions; n_shots up to 10**7+3 for the chunked sampler loop"),
    outside=["IEEE rounding", "the random draws themselves (only the distribution handed to the sampler and the processing of an "
             "arbitrary draw are checked)", "histograms with zero total (frequencies undefined)",
             "coefficients of non-identically-zero sums below openfermion's 1e-8 drop threshold (threshold-assume policy)",
             "optimality of the clique cover (number of groups) is not part of the property",
             "registers wider than 4 qubits; operators with more than 12 terms"],
    stubs=["scipy.stats.rv_discrete -> recording stub returning an arbitrary (seeded) draw from the support"],
    trusted_base=["symx.opalg / hand-written marginal, conditional and parity formulas in harness/c18.py", "symx.refsem gate matrices "
                  "(basis rotations H, SDAG) for the state-based grouping check"],
)


def preload():
    import tangelo.toolboxes.measurements  # noqa
    import tangelo.toolboxes.post_processing  # noqa
    import tangelo.toolboxes.post_processing.post_selection  # noqa
    import tangelo.linq.target.backend  # noqa


# ------------------------------------------------------------------ hand-written reference
def total(d):
    s = 0
    for v in d.values():
        s = s + v
    return s


def marginal(d, remove):
    """sum out the positions in `remove`"""
    out = {}
    for k, v in d.items():
        nk = "".join(ch for i, ch in enumerate(k) if i not in remove)
        out[nk] = out[nk] + v if nk in out else v
    return out


def select(d, expected):
    return {k: v for k, v in d.items() if all(k[i] == b for i, b in expected.items())}


def normalised(d):
    t = total(d)
    return {k: v / t for k, v in d.items()}


def parity_value(term, d):
    """sum_k d[k] (-1)^(number of ones of k on the support of the Pauli word)"""
    s = 0
    for k, v in d.items():
        ones = sum(1 for q, _ in term if k[q] == "1")
        s = s + (v if ones % 2 == 0 else -v)
    return s


def cmp_dict(env, got, ref, label, width=None):
    if width is not None:
        bad = [k for k in got if len(k) != width or set(k) - {"0", "1"}]
        if bad:
            return env.fail(label, f"keys of wrong width/alphabet: {bad[:4]} (expected width {width})")
    x, y, keys = A.d_vectors(dict(got), dict(ref))
    env.check_vec_eq(x, y, label)


def counts_in(env, keys, lo=0, hi=50, name="c"):
    return {k: env.integer(f"{name}{k}", lo, hi) for k in keys}


def probs_in(env, keys, name="p"):
    """probabilities in [0,1] summing to 1 (the last one is 1 - sum of the others, assumed >= 0)"""
    keys = list(keys)
    d = {}
    s = 0
    for k in keys[:-1]:
        d[k] = env.real(f"{name}{k}", lo=0, hi=1)
        s = s + d[k]
    last = 1 - s
    if len(keys) > 1:
        env.assume(last >= 0, "probabilities sum to 1")
    d[keys[-1]] = last if len(keys) > 1 else (R.C(1) if env.symbolic else 1.0)
    return d


def values_in(env, keys, kind, name="v"):
    if kind == "counts":
        d = counts_in(env, keys, name=name)
        env.assume(total(d) >= 1, "at least one shot")
        return d
    return probs_in(env, keys, name=name)


# ------------------------------------------------------------------ (a) grouping
def _tangelo_qop(words, coefs):
    from tangelo.toolboxes.operators import QubitOperator
    q = QubitOperator()
    q.terms = dict(zip(words, coefs))
    return q


def h_group(env, words, n, seed, n_repeat, hist_keys, canary=False):
    from tangelo.toolboxes.measurements import group_qwc, exp_value_from_measurement_bases
    from tangelo.toolboxes.measurements.qubit_terms_grouping import map_measurements_qwc
    coefs = [env.complex(f"c{i}") for i in range(len(words))]
    op = _tangelo_qop(words, coefs)
    before = dict(op.terms)
    groups = group_qwc(op, seed=seed, n_repeat=n_repeat)
    # partition
    seen = {}
    for basis, sub in groups.items():
        for t, c in sub.terms.items():
            seen.setdefault(t, []).append((basis, c))
    env.check_true(set(seen) == set(words), "group_qwc: union of the groups' terms equals the input terms",
                   f"missing {set(words) - set(seen)}, extra {set(seen) - set(words)}")
    env.check_true(all(len(v) == 1 for v in seen.values()), "group_qwc: every term appears in exactly one group",
                   f"{[(t, [b for b, _ in v]) for t, v in seen.items() if len(v) != 1][:3]}")
    got = {t: (2 * v[0][1] if canary else v[0][1]) for t, v in seen.items()}
    x, y, _ = A.d_vectors(got, dict(zip(words, coefs)))
    env.check_vec_eq(x, y, "group_qwc: every term keeps its coefficient")
    bad = [(t, b) for t, v in seen.items() for b, _ in v if not set(t) <= set(b)]
    env.check_true(not bad, "group_qwc: every term is diagonal in its group's basis (its letters are contained in the basis word)", f"{bad[:3]}")
    env.check_true(all(len(dict(b)) == len(b) for b in groups), "group_qwc: a basis word has one letter per qubit", f"{list(groups)}")
    x, y, _ = A.d_vectors(dict(op.terms), before)
    env.check_vec_eq(x, y, "group_qwc: the input operator is unchanged")
    # map_measurements_qwc
    mm = map_measurements_qwc(groups)
    ref_mm = {t: [b for b in groups if A.words_qwc(t, b)] for t in words if t}
    env.check_true({t: sorted(v, key=repr) for t, v in mm.items()} == {t: sorted(v, key=repr) for t, v in ref_mm.items()},
                   "map_measurements_qwc: each term is mapped to exactly the bases commuting qubit-wise with it", f"{mm} vs {ref_mm}"[:300])
    # expectation value from fully symbolic histograms
    hists = {}
    for bi, basis in enumerate(groups):
        hists[basis] = {k: env.real(f"f{bi}_{k}", lo=0, hi=1) for k in hist_keys[bi % len(hist_keys)]}
    val = exp_value_from_measurement_bases(groups, hists)
    ref = 0
    for basis, sub in groups.items():
        for t in sub.terms:
            ref = ref + before[t] * parity_value(t, hists[basis])
    env.check_eq(val, ref, "exp_value_from_measurement_bases: equals sum over terms of coef * sum_k f_k (-1)^parity")


def h_group_state(env, words, n, seed, canary=False):
    """histograms obtained by measuring ONE symbolic state in each group's basis: the assembled value is <psi|H|psi>"""
    from tangelo.toolboxes.measurements import group_qwc, exp_value_from_measurement_bases
    coefs = [env.real(f"c{i}", lo=-3, hi=3) for i in range(len(words))]
    op = _tangelo_qop(words, coefs)
    psi = env.state(n, "psi")
    groups = group_qwc(op, seed=seed)
    hists = {}
    for basis in groups:
        st = list(psi)
        for q, letter in basis:
            if letter == "Y":
                st = R.apply_gate(st, n, "SDAG", [q])
            if letter in "XY":
                st = R.apply_gate(st, n, "H", [q])
        pr = R.probabilities(st)
        hists[basis] = {R.bitstring(i, n): pr[i] for i in range(2 ** n)}
    val = exp_value_from_measurement_bases(groups, hists)
    terms = dict(zip(words, coefs))
    if canary:
        terms[words[0]] = -terms[words[0]]
    ref = R.expectation(psi, n, terms)
    env.check_eq(val, ref, "grouped measurement of one state: assembled expectation value equals <psi|H|psi>")


def h_oneterm(env, n, keys, terms, canary=False):
    from tangelo.linq import get_expectation_value_from_frequencies_oneterm
    from tangelo.toolboxes.post_processing import Histogram
    f = {k: env.real(f"f{k}", lo=0, hi=1) for k in keys}
    for t in terms:
        ref = parity_value(t, f)
        if canary:
            ref = ref - 2 * f[keys[-1]]
        env.check_eq(get_expectation_value_from_frequencies_oneterm(t, f), ref,
                     f"get_expectation_value_from_frequencies_oneterm: sum_k f_k (-1)^parity [term {t}]")
    c = counts_in(env, keys, lo=0)
    env.assume(total(c) >= 1, "at least one shot")
    w = env.complex("w")
    h = Histogram(dict(c))
    for t in terms:
        env.check_eq(h.get_expectation_value(t, w), w * parity_value(t, c) / total(c),
                     f"Histogram.get_expectation_value: coeff * sum_k (c_k/N) (-1)^parity [term {t}]")


# ------------------------------------------------------------------ (b) histograms
def h_construct(env, n, keys, kind, canary=False):
    """Histogram(counts) / Histogram(.., msq_first=True): counts, n_shots, n_qubits, frequencies"""
    from tangelo.toolboxes.post_processing import Histogram
    v = values_in(env, keys, kind)
    for msq in (False, True):
        h = Histogram(dict(v), msq_first=msq)
        ref = {(k[::-1] if (msq and not canary) else k): x for k, x in v.items()}
        cmp_dict(env, h.counts, ref, f"Histogram(msq_first={msq}).counts: input entries{' under reversed keys' if msq else ''}", width=n)
        env.check_eq(h.n_shots, total(v), f"Histogram(msq_first={msq}).n_shots = sum of the entries")
        env.check_same(h.n_qubits, n, "n_qubits")
        fr = h.frequencies
        cmp_dict(env, fr, normalised(ref), f"Histogram(msq_first={msq}).frequencies: entry / total", width=n)
        env.check_eq(total(fr), 1, f"Histogram(msq_first={msq}).frequencies sum to 1")
    x, y, _ = A.d_vectors(dict(v), dict(v))
    env.check_raises(lambda: Histogram({"0": 1, "01": 1}), "inconsistent bitstring lengths are rejected")


def h_from_counts_consistent(env, n, keys, n_shots, canary=False):
    """frequencies k_i/N that ARE consistent with N shots give back exactly the counts k_i (total N)"""
    from tangelo.toolboxes.post_processing import Histogram
    k = counts_in(env, keys, lo=0, hi=n_shots, name="k")
    env.assume(total(k) == n_shots, "counts add up to n_shots")
    freqs = {b: x / n_shots for b, x in k.items()}
    h = Histogram(freqs, n_shots=n_shots)
    ref = dict(k) if not canary else {b: x + 1 for b, x in k.items()}
    cmp_dict(env, h.counts, ref, "Histogram(k/N, n_shots=N).counts are the counts k", width=n)
    env.check_eq(h.n_shots, n_shots if not canary else n_shots + 1, "Histogram(k/N, n_shots=N).n_shots = N")
    if not canary:
        # the two documented constructor options TOGETHER: frequencies + n_shots with msq_first=True
        hm = Histogram(dict(freqs), n_shots=n_shots, msq_first=True)
        cmp_dict(env, hm.counts, {b[::-1]: x for b, x in k.items()}, "Histogram(k/N, n_shots=N, msq_first=True).counts are the counts k under reversed keys", width=n)
        env.check_eq(hm.n_shots, n_shots, "Histogram(k/N, n_shots=N, msq_first=True).n_shots = N")


def h_from_freqs(env, n, keys, n_shots, what, canary=False):
    """Histogram(probabilities, n_shots): each count is the rounded p*N; the total number of counts"""
    from tangelo.toolboxes.post_processing import Histogram
    p = probs_in(env, keys)
    h = Histogram(dict(p), n_shots=n_shots)
    if what == "entries":
        env.check_true(set(h.counts) == set(p), "Histogram(p, n_shots).counts has the input keys")
        half = Fraction(1, 2) if not canary else Fraction(1, 4)
        for b in keys:
            c = h.counts[b]
            env.check_le(c - p[b] * n_shots, half, "Histogram(p, n_shots): count - p*n_shots <= 1/2")
            env.check_le(p[b] * n_shots - c, half, "Histogram(p, n_shots): p*n_shots - count <= 1/2")
    else:
        # ties (p*n_shots exactly half-integral) are excluded: the engine's model of round() leaves their direction open
        half = Fraction(1, 2)
        for b in keys:
            d = h.counts[b] - p[b] * n_shots
            env.assume(d < half, "no rounding tie")
            env.assume(d > -half, "no rounding tie")
        env.check_eq(h.n_shots, n_shots, "Histogram(p, n_shots).n_shots equals the n_shots passed in (total counts conserved)")


def h_from_freqs_tie(env, n_shots, canary=False):
    """concrete tie case p = (1/2, 1/2) with odd n_shots (Python rounds half to even)"""
    from tangelo.toolboxes.post_processing import Histogram
    w = env.real("unused", lo=0, hi=1)      # keeps the shape inside the symbolic machinery; the inputs are concrete
    h = Histogram({"0": 0.5, "1": 0.5}, n_shots=n_shots)
    env.check_eq(h.n_shots + 0 * w, n_shots if not canary else n_shots + 2,
                 "Histogram({'0': 0.5, '1': 0.5}, n_shots).n_shots equals the n_shots passed in (total counts conserved)")


def h_aggregate(env, n, keysets, via, lo, canary=False):
    from tangelo.toolboxes.post_processing import Histogram
    from tangelo.toolboxes.post_processing.histogram import aggregate_histograms
    ins = [counts_in(env, ks, lo=lo, name=f"h{i}_") for i, ks in enumerate(keysets)]
    for d in ins:
        env.assume(total(d) >= 1, "at least one shot per histogram")
    hs = [Histogram(dict(d)) for d in ins]
    if via == "func":
        res = aggregate_histograms(*hs)
    elif via == "add":
        res = hs[0]
        for h in hs[1:]:
            res = res + h
    else:
        res = Histogram(dict(ins[0]))
        for h in hs[1:]:
            res += h
    ref = {}
    for d in (ins if not canary else ins[:-1] + [{k: 2 * v for k, v in ins[-1].items()}]):
        ref = A.d_add(ref, d)
    cmp_dict(env, res.counts, ref, f"aggregate ({via}): every entry is the sum of the inputs' entries", width=n)
    env.check_eq(res.n_shots, total(ref), f"aggregate ({via}): total counts conserved")
    for i, (h, d) in enumerate(zip(hs, ins)):
        cmp_dict(env, h.counts, d, f"aggregate ({via}): input histogram {i} unchanged")
    if via == "iadd" and not canary:
        # a histogram built directly from the caller's dictionary (no copy on our side) and incremented in place: the caller's
        # dictionary, and another histogram built from it, keep their values
        raw = dict(ins[0])
        twin = Histogram(raw)
        acc = Histogram(raw)
        for h in hs[1:]:
            acc += h
        cmp_dict(env, raw, ins[0], "aggregate (iadd): the dictionary the histogram was built from is unchanged")
        cmp_dict(env, twin.counts, ins[0], "aggregate (iadd): another histogram built from the same dictionary is unchanged")


def _index_sets(n, max_size):
    out = []
    for r in range(0, max_size + 1):
        out += [tuple(c) for c in itertools.combinations(range(n), r)]
    # the order in which the caller lists the indices is immaterial: descending and rotated orders too
    out += [tuple(reversed(c)) for c in out if len(c) >= 2] + [c[1:] + c[:1] for c in out if len(c) >= 3]
    return list(dict.fromkeys(out))


def h_remove(env, n, keys, kind, index_sets, canary=False):
    from tangelo.toolboxes.post_processing import Histogram
    from tangelo.toolboxes.post_processing.post_selection import strip_post_selection
    v = values_in(env, keys, kind)
    for idx in index_sets:
        h = Histogram(dict(v))
        h.remove_qubit_indices(*idx)
        ref = marginal(v, set(idx)) if not canary else marginal(v, set(i + 1 for i in idx))
        cmp_dict(env, h.counts, ref, f"remove_qubit_indices: every entry is the marginal over the removed positions [indices {idx}]", width=n - len(idx))
        env.check_eq(h.n_shots, total(v), f"remove_qubit_indices: total conserved [indices {idx}]")
        fr = strip_post_selection(dict(v), *idx)
        cmp_dict(env, fr, normalised(marginal(v, set(idx))), f"strip_post_selection: marginal / total [qubits {idx}]", width=n - len(idx))
        env.check_eq(total(fr), 1, f"strip_post_selection: result sums to 1 [qubits {idx}]")


def _expected_dicts(n, max_size):
    out = []
    for r in range(1, max_size + 1):
        for idx in itertools.combinations(range(n), r):
            for bits in itertools.product("01", repeat=r):
                out.append(dict(zip(idx, bits)))
    return out


def h_post_select(env, n, keys, kind, expected_list, canary=False):
    from tangelo.toolboxes.post_processing import Histogram
    from tangelo.toolboxes.post_processing.post_selection import post_select
    v = values_in(env, keys, kind)
    for exp in expected_list:
        sel = select(v, exp)
        ref_counts = marginal(sel, set(exp))
        if canary:
            ref_counts = marginal(v, set(exp))
        h = Histogram(dict(v))
        if kind == "counts":
            env.check_eq(h.n_shots, total(v), "n_shots before post-selection")      # derived quantities are read BEFORE ...
        h.post_select(dict(exp))
        cmp_dict(env, h.counts, ref_counts, f"Histogram.post_select: entries are the selected counts with the selected positions removed [{exp}]",
                 width=n - len(exp))
        if kind == "counts":
            env.check_eq(h.n_shots, total(ref_counts), f"Histogram.n_shots after post_select is the number of selected shots [{exp}]")   # ... and after
        if not sel:
            env.check_same(post_select(dict(v), dict(exp)), {}, f"post_select: nothing selected gives an empty result [{exp}]")
            continue
        env.assume(total(sel) > 0, "selected outcome has non-zero weight")
        fr = post_select(dict(v), dict(exp))
        cmp_dict(env, fr, normalised(ref_counts), f"post_select: conditional distribution p(rest | selected) [{exp}]", width=n - len(exp))
        env.check_eq(total(fr), 1, f"post_select: result sums to 1 [{exp}]")
    cmp_dict(env, v, v, "input dictionary unchanged")


def h_filter(env, n, keys):
    """filter_hist(hist, predicate, *args, **kwargs): the kept shots are exactly those whose bitstring satisfies the predicate WITH the
    arguments the caller gave (by position, by keyword, or mixed - the predicate has defaults for them), kept + rejected = total,
    and the input histogram is unchanged"""
    from tangelo.toolboxes.post_processing import Histogram
    from tangelo.toolboxes.post_processing.histogram import filter_hist
    c = counts_in(env, keys, lo=0)

    def pred(bitstring, pos=0, val="1", invert=False):
        return (bitstring[pos] == val) != invert
    calls = [((), {}), ((n - 1, "0"), {}), ((), dict(pos=n - 1, val="0")), ((n - 1,), dict(val="0")), ((), dict(invert=True)), ((0, "1", True), {}),
             ((), dict(val="0", invert=True, pos=n - 1))]
    for a_, k_ in calls:
        h = Histogram(dict(c))
        before = dict(h.counts)
        kept = filter_hist(h, pred, *a_, **k_)
        rej = filter_hist(h, lambda b_, *aa, **kk: not pred(b_, *aa, **kk), *a_, **k_)
        ref = {b_: v for b_, v in before.items() if pred(b_, *a_, **k_)}
        cmp_dict(env, kept.counts, ref, f"filter_hist(args={a_}, kwargs={k_}): kept counts are those of the bitstrings satisfying the predicate", width=n)
        env.check_eq(total(kept.counts) + total(rej.counts), total(before), f"filter_hist(args={a_}, kwargs={k_}): kept + rejected shots == all shots")
        cmp_dict(env, h.counts, before, "filter_hist leaves the input histogram unchanged", width=n)


def h_split(env, n, keys, kind, cases, canary=False):
    from tangelo.toolboxes.post_processing.post_selection import split_frequency_dict
    v = values_in(env, keys, kind)
    orig = dict(v)
    for indices, desired in cases:
        others = set(range(n)) - set(indices)
        ref_mid = normalised(marginal(v, others))
        if desired is None:
            ref_marg = normalised(marginal(v, set(indices)))
        else:
            exp = dict(zip(indices, desired))
            sel = select(v, exp)
            if not sel:
                continue
            env.assume(total(sel) > 0, "selected outcome has non-zero weight")
            ref_marg = normalised(marginal(sel, set(indices)))
        if canary:
            ref_mid, ref_marg = ref_marg, ref_mid
        mid, marg = split_frequency_dict(dict(v), list(indices), desired_measurement=desired)
        cmp_dict(env, mid, ref_mid, f"split_frequency_dict: first result is the marginal on the given indices [{indices}, {desired}]", width=len(indices))
        cmp_dict(env, marg, ref_marg, f"split_frequency_dict: second result is the marginal/conditional on the remaining indices [{indices}, {desired}]",
                 width=n - len(indices))
        env.check_eq(total(mid), 1, f"split_frequency_dict: first result sums to 1 [{indices}, {desired}]")
        env.check_eq(total(marg), 1, f"split_frequency_dict: second result sums to 1 [{indices}, {desired}]")
    cmp_dict(env, v, orig, "split_frequency_dict: input dictionary unchanged")


def h_split_last(env, n, keys, kind, canary=False):
    from tangelo.toolboxes.post_processing.post_selection import split_frequency_dict_for_last_n_digits
    v = values_in(env, keys, kind)
    for last in range(0, n + 1):
        f1, f2 = split_frequency_dict_for_last_n_digits(dict(v), last)
        ref1 = marginal(v, set(range(n - last, n)))
        ref2 = marginal(v, set(range(0, n - last)))
        if canary:
            ref1, ref2 = ref2, ref1
        cmp_dict(env, f1, ref1, f"split_frequency_dict_for_last_n_digits: first result is the marginal on the leading bits [n={last}]", width=n - last)
        cmp_dict(env, f2, ref2, f"split_frequency_dict_for_last_n_digits: second result is the marginal on the last n bits [n={last}]", width=last)
        env.check_eq(total(f1), total(v), f"split_frequency_dict_for_last_n_digits: total of first result conserved [n={last}]")
        env.check_eq(total(f2), total(v), f"split_frequency_dict_for_last_n_digits: total of second result conserved [n={last}]")


def h_marginal_expect(env, n, keys, cases, canary=False):
    """removing qubits a Pauli word does not act on leaves its expectation value unchanged (word re-indexed)"""
    from tangelo.toolboxes.post_processing import Histogram
    c = counts_in(env, keys, lo=0)
    env.assume(total(c) >= 1, "at least one shot")
    for term, removed in cases:
        h = Histogram(dict(c))
        before = h.get_expectation_value(term, 1.)
        h.remove_qubit_indices(*removed)
        shift = {q: q - sum(1 for r in removed if r < q) for q, _ in term}
        t2 = tuple((shift[q], p) for q, p in term)
        if canary:
            t2 = tuple((q, p) for q, p in term)
        after = h.get_expectation_value(t2, 1.)
        env.check_eq(after, before, f"expectation value of a word unchanged after marginalising untouched qubits [word {term}, removed {removed}]")
        env.check_eq(before, parity_value(term, c) / total(c), f"get_expectation_value: reference value [word {term}]")


# ------------------------------------------------------------------ (c) resampling
class _StubDist:
    def __init__(self, rec, xk, pk, rnd):
        self.rec, self.xk, self.rnd = rec, [int(x) for x in xk], rnd
        rec["values"].append(([int(x) for x in xk], list(pk)))

    def rvs(self, size=1):
        import numpy as np
        self.rec["sizes"].append(int(size))
        if size <= 64:
            draw = [self.rnd.choice(self.xk) for _ in range(size)]
        else:       # long draws: a fixed pattern over the support (any draw is allowed)
            draw = (self.xk * (size // len(self.xk) + 1))[:size]
        self.rec["draws"].extend(draw if size <= 64 else [])
        self.rec["tally_long"] = self.rec.get("tally_long", {})
        if size > 64:
            for x in set(draw):
                self.rec["tally_long"][x] = self.rec["tally_long"].get(x, 0) + draw.count(x)
        return np.array(draw, dtype=np.int64)


class _StubStats:
    def __init__(self, rec, rnd):
        self.rec, self.rnd = rec, rnd

    def rv_discrete(self, name=None, values=None, **kw):
        return _StubDist(self.rec, values[0], values[1], self.rnd)


def h_resample(env, n, keys, kind, ncount, via, canary=False):
    import importlib
    from symx import shim
    from tangelo.toolboxes.post_processing import Histogram
    boot = importlib.import_module(M_BOOT)
    rec = dict(values=[], sizes=[], draws=[])
    rnd = random.Random(f"{n}{keys}{ncount}")
    saved, old_alloc = boot.__dict__.get("stats"), shim.ALLOC_OBJECT
    boot.__dict__["stats"] = _StubStats(rec, rnd)
    shim.ALLOC_OBJECT = bool(env.symbolic)
    try:
        if via == "function":
            p = values_in(env, keys, kind)
            out = boot.get_resampled_frequencies(dict(p), ncount)
        else:
            c = counts_in(env, keys, lo=0)
            env.assume(total(c) >= 1, "at least one shot")
            hist = Histogram(dict(c))
            p = normalised(c)
            res = hist.resample(ncount)
            out = res.frequencies
    finally:
        boot.__dict__["stats"] = saved
        shim.ALLOC_OBJECT = old_alloc
    env.check_same(len(rec["values"]), 1, "the sampler is built once")
    xk, pk = rec["values"][0]
    handed = {}
    for x, q in zip(xk, pk):
        handed[x] = handed[x] + q if x in handed else q
    ref = {int(k, 2): v for k, v in p.items()}
    if canary:
        ref = {x: v for x, v in zip(sorted(ref), [ref[x] for x in sorted(ref, reverse=True)])}
    x_, y_, _ = A.d_vectors(handed, ref)
    env.check_vec_eq(x_, y_, f"resampling ({via}): the distribution handed to the sampler equals the input distribution")
    env.check_same(sum(rec["sizes"]), ncount, f"resampling ({via}): the number of requested draws is n_shots")
    tally = dict(rec.get("tally_long", {}))
    for x in rec["draws"]:
        tally[x] = tally.get(x, 0) + 1
    ref_out = {format(x, f"0{n}b"): Fraction(t, ncount) for x, t in tally.items()}
    if all(isinstance(v, float) for v in out.values()):
        # the draw is concrete, so the output is made of ordinary floats: compared numerically (IEEE division)
        bad = [k for k in out if len(k) != n or set(k) - {"0", "1"}]
        ok = not bad and set(out) == set(ref_out) and all(abs(out[k] - float(ref_out[k])) <= 1e-12 for k in out)
        env.check_true(ok, f"resampling ({via}): output = tally / n_shots under keys of the input width", f"{dict(list(out.items())[:4])} vs {ref_out}"[:300])
        env.check_true(abs(sum(out.values()) - 1) <= 1e-9, f"resampling ({via}): output sums to 1", f"{sum(out.values())!r}")
    else:
        cmp_dict(env, out, ref_out, f"resampling ({via}): output = tally / n_shots under keys of the input width", width=n)
        env.check_eq(total(out), 1, f"resampling ({via}): output sums to 1")
    if via == "method":
        env.check_eq(res.n_shots, ncount, "Histogram.resample(n_shots).n_shots equals n_shots")


# ------------------------------------------------------------------ enumeration
def bitstrings(n):
    return ["".join(b) for b in itertools.product("01", repeat=n)]


def all_words(n, max_weight=None):
    out = []
    for letters in itertools.product("IXYZ", repeat=n):
        w = tuple((q, l) for q, l in enumerate(letters) if l != "I")
        if max_weight is None or len(w) <= max_weight:
            out.append(w)
    return out


def nonempty_subsets(items):
    out = []
    for r in range(1, len(items) + 1):
        out += [list(c) for c in itertools.combinations(items, r)]
    return out


def shapes(tier, seed):
    out = []
    sub = lambda name: random.Random(f"c18/{seed}/{name}")      # noqa: E731
    quick = tier == "quick"
    # ---------------- grouping
    r = sub("group")
    ops = [  # fixed core: H2-like, non-commuting pairs on the same qubit, identity term
        (2, [(), ((0, "Z"),), ((1, "Z"),), ((0, "Z"), (1, "Z")), ((0, "X"), (1, "X")), ((0, "Y"), (1, "Y"))]),
        (3, [((0, "X"),), ((0, "Y"),), ((0, "Z"),), ((1, "X"), (2, "Z")), ((1, "Z"), (2, "X")), ((0, "Z"), (1, "X"), (2, "Z"))]),
        (4, [((0, "X"), (1, "X"), (2, "Y"), (3, "Y")), ((0, "Y"), (1, "Y"), (2, "X"), (3, "X")), ((0, "Z"), (2, "Z")), ((1, "Z"), (3, "Z")),
             ((0, "Z"),), ((3, "Z"),), ()]),
    ]
    for _ in range(5 if quick else 30):
        n = r.choice((2, 3, 4))
        k = r.randint(3, min(12, 4 ** n - 1))
        ops.append((n, r.sample(all_words(n), k)))
    for i, (n, words) in enumerate(ops):
        for sd in (0, 1, 2, 3):
            for rep in ((1, 2) if (i < 3 or not quick) else (1,)):
                if quick and i >= 3 and sd not in (0, (i % 3) + 1):
                    continue
                rr = sub(f"gk{i}{sd}{rep}")
                hk = [rr.sample(bitstrings(n), min(2 ** n, rr.randint(1, 4))) for _ in range(3)]
                out.append(Shape(f"group/op{i:02d}n{n}t{len(words)}/seed{sd}/rep{rep}", h_group,
                                 dict(words=words, n=n, seed=sd, n_repeat=rep, hist_keys=hk), modules=MODS))
    st_ops = [o for o in ops if o[0] <= 3][: (4 if quick else 14)]
    for i, (n, words) in enumerate(st_ops):
        for sd in ((0, 2) if quick else (0, 1, 2, 3)):
            out.append(Shape(f"group_state/op{i:02d}n{n}t{len(words)}/seed{sd}", h_group_state, dict(words=words, n=n, seed=sd), modules=MODS))
    # ---------------- key sets
    ks1, ks2 = nonempty_subsets(bitstrings(1)), nonempty_subsets(bitstrings(2))
    r3 = sub("ks3")
    ks3 = [sorted(r3.sample(bitstrings(3), r3.randint(1, 5))) for _ in range(6 if quick else 40)]
    ks3.append(bitstrings(3))
    ks3 = [list(t) for t in dict.fromkeys(tuple(k) for k in ks3)]       # drop duplicates, keep order
    keysets = [(1, k) for k in ks1] + [(2, k) for k in ks2] + [(3, k) for k in ks3]
    small = [(n, k) for n, k in keysets if len(k) <= 4]

    def nm(n, keys):
        return f"n{n}/" + "+".join(keys)

    # one-term expectation values
    for n, keys in (keysets if not quick else [ks for i, ks in enumerate(keysets) if i % 2 == 0]):
        words = all_words(n) if n <= 2 else sub(nm(n, keys)).sample(all_words(n), 8)
        out.append(Shape(f"oneterm/{nm(n, keys)}", h_oneterm, dict(n=n, keys=keys, terms=words), modules=MODS))
    # construction
    for n, keys in keysets:
        out.append(Shape(f"hist/construct/counts/{nm(n, keys)}", h_construct, dict(n=n, keys=keys, kind="counts"), modules=MODS))
    for n, keys in small:
        out.append(Shape(f"hist/construct/probs/{nm(n, keys)}", h_construct, dict(n=n, keys=keys, kind="probs"), modules=MODS))
    shots = (1, 3, 10, 100) if quick else (1, 2, 3, 7, 10, 100, 1000, 8192)
    for n, keys in small:
        rr = sub("shots" + nm(n, keys))
        for N in (rr.sample(shots, 2) if quick else shots):
            out.append(Shape(f"hist/from_counts_over_N/N{N}/{nm(n, keys)}", h_from_counts_consistent, dict(n=n, keys=keys, n_shots=N), modules=MODS))
            out.append(Shape(f"hist/from_freqs_entries/N{N}/{nm(n, keys)}", h_from_freqs, dict(n=n, keys=keys, n_shots=N, what="entries"), modules=MODS))
            if len(keys) >= 2:
                out.append(Shape(f"hist/from_freqs_total/N{N}/{nm(n, keys)}", h_from_freqs, dict(n=n, keys=keys, n_shots=N, what="total"), modules=MODS))
    for N in (1, 3) if quick else (1, 3, 5, 101):
        out.append(Shape(f"hist/from_freqs_total/tie/N{N}", h_from_freqs_tie, dict(n_shots=N), modules=MODS))
    # aggregation
    r = sub("agg")
    agg = []
    for n, pool in ((1, ks1), (2, ks2), (3, ks3)):
        for _ in range({1: 3, 2: 8, 3: 4}[n] if quick else {1: 9, 2: 40, 3: 20}[n]):
            m = r.choice((2, 2, 3))
            agg.append((n, [r.choice(pool) for _ in range(m)]))
    for i, (n, kss) in enumerate(agg):
        via = ("func", "add", "iadd")[i % 3]
        nkeys = len(set(k for ks in kss for k in ks))
        lo = 0 if nkeys <= 3 else 1         # zero counts fork inside collections.Counter.__add__ (2^keys paths)
        out.append(Shape(f"hist/aggregate/{via}/{i:02d}n{n}/" + "|".join("+".join(ks) for ks in kss), h_aggregate,
                         dict(n=n, keysets=kss, via=via, lo=lo), modules=MODS, max_paths=64))
    # marginals / post-selection / splits
    for kind in ("counts", "probs"):
        for n, keys in (keysets if kind == "counts" else small):
            if quick and n == 3 and kind == "probs" and len(keys) > 3:
                continue
            tag = f"{kind}/{nm(n, keys)}"
            rr = sub(tag)
            idx = _index_sets(n, min(n, 2))
            exps = _expected_dicts(n, min(n, 2))
            cases = []
            for ind in [i for i in _index_sets(n, n) if 0 < len(i)]:
                cases.append((ind, None))
                for bits in itertools.product("01", repeat=len(ind)):
                    cases.append((ind, "".join(bits)))
                if len(ind) == 2:
                    cases.append((ind[::-1], None))
                    cases.append((ind[::-1], "01"))
            if n == 3 and quick:
                idx, exps, cases = rr.sample(idx, 4), rr.sample(exps, 5), rr.sample(cases, 5)
            elif n == 3:
                exps, cases = rr.sample(exps, 10), rr.sample(cases, 12)
            out.append(Shape(f"hist/remove/{tag}", h_remove, dict(n=n, keys=keys, kind=kind, index_sets=idx), modules=MODS))
            out.append(Shape(f"hist/post_select/{tag}", h_post_select, dict(n=n, keys=keys, kind=kind, expected_list=exps), modules=MODS))
            out.append(Shape(f"hist/split/{tag}", h_split, dict(n=n, keys=keys, kind=kind, cases=cases), modules=MODS))
            out.append(Shape(f"hist/split_last/{tag}", h_split_last, dict(n=n, keys=keys, kind=kind), modules=MODS))
    # expectation value under marginalisation
    for n, keys in [ks for ks in keysets if ks[0] >= 2]:
        rr = sub("me" + nm(n, keys))
        cases = []
        for w in all_words(n):
            free = [q for q in range(n) if q not in dict(w)]
            for rsz in range(1, len(free) + 1):
                for rem in itertools.combinations(free, rsz):
                    if len(rem) < n:
                        cases.append((w, rem))
        if n == 3:
            cases = rr.sample(cases, 8 if quick else 24)
        out.append(Shape(f"hist/marginal_expectation/{nm(n, keys)}", h_marginal_expect, dict(n=n, keys=keys, cases=cases), modules=MODS))
    for n_, keys_ in ((2, ["00", "01", "10", "11"]), (3, ["000", "011", "101", "110", "111"]), (1, ["0", "1"])):
        out.append(Shape(f"hist/filter/n{n_}", h_filter, dict(n=n_, keys=keys_), modules=MODS))
    # resampling
    r = sub("res")
    res = [(n, k) for n, k in small if len(k) >= 1]
    res = r.sample(res, 8) if quick else res
    for i, (n, keys) in enumerate(res):
        for via in ("function", "method"):
            for ncount in ((5, 64) if quick else (1, 5, 64, 1000)):
                kind = "probs" if via == "function" else "counts"
                out.append(Shape(f"resample/{via}/N{ncount}/{nm(n, keys)}", h_resample,
                                 dict(n=n, keys=keys, kind=kind, ncount=ncount, via=via), modules=MODS))
    out.append(Shape("resample/function/N10000000/n1/0+1/chunk-multiple", h_resample,
                     dict(n=1, keys=["0", "1"], kind="probs", ncount=10 ** 7, via="function"), modules=MODS))
    out.append(Shape("resample/function/N10000003/n2/00+11", h_resample,
                     dict(n=2, keys=["00", "11"], kind="probs", ncount=10 ** 7 + 3, via="function"), modules=MODS))
    if not quick:
        out.append(Shape("resample/function/N20000000/n1/0+1", h_resample,
                         dict(n=1, keys=["0", "1"], kind="probs", ncount=2 * 10 ** 7, via="function"), modules=MODS))
    # ---------------- canaries
    k2 = ["00", "01", "11"]
    C = lambda name, fn, kw: out.append(Shape("canary/" + name, fn, dict(kw, canary=True), modules=MODS, canary=True))      # noqa: E731
    C("group", h_group, dict(words=ops[0][1], n=2, seed=0, n_repeat=1, hist_keys=[["00", "11"]]))
    C("group_state", h_group_state, dict(words=ops[0][1], n=2, seed=1))
    C("oneterm", h_oneterm, dict(n=2, keys=k2, terms=[((0, "Z"),)]))
    C("construct", h_construct, dict(n=2, keys=["01", "11"], kind="counts"))
    C("from_counts_over_N", h_from_counts_consistent, dict(n=2, keys=k2, n_shots=10))
    C("from_freqs_entries", h_from_freqs, dict(n=1, keys=["0", "1"], n_shots=10, what="entries"))
    C("aggregate", h_aggregate, dict(n=2, keysets=[k2, ["01"]], via="func", lo=1))
    C("remove", h_remove, dict(n=2, keys=k2, kind="counts", index_sets=[(0,)]))
    C("post_select", h_post_select, dict(n=2, keys=k2, kind="counts", expected_list=[{0: "0"}]))
    C("split", h_split, dict(n=2, keys=k2, kind="counts", cases=[((0,), None)]))
    C("split_last", h_split_last, dict(n=2, keys=k2, kind="counts"))
    C("marginal_expectation", h_marginal_expect, dict(n=2, keys=k2, cases=[(((1, "Z"),), (0,))]))
    C("resample", h_resample, dict(n=2, keys=["00", "01"], kind="probs", ncount=5, via="function"))
    return out
