"""C19  Noisy simulation applies exactly the specified channels."""
import itertools
import random

import numpy as np

from symx.core import Shape
from symx import refsem as R, shim, cirqstub, path
from symx.num import Sym
from symx.smt import Cons
from harness.c01 import build_gates as _build_gates_c01, PARAM


def build_gates(env, spec):
    """as harness.c01.build_gates; an entry (name, targets, controls, angle) carries a CONCRETE angle (e.g. exactly 0.0)"""
    from tangelo.linq import Gate
    if all(len(s_) == 3 for s_ in spec):
        return _build_gates_c01(env, spec)
    gates, params = [], []
    for i, s_ in enumerate(spec):
        name, tg, ct = s_[:3]
        th = (s_[3] if len(s_) > 3 else env.angle(f"th{i}")) if name in PARAM else ""
        params.append(th)
        gates.append(Gate(name, tg, control=ct if ct else None, parameter=th))
    return gates, params

PROPERTY = "C19"
MODS = ("tangelo.linq.target.backend", "tangelo.linq.target.target_cirq", "tangelo.linq.translator.translate_cirq",
        "tangelo.linq.noisy_simulation.noise_models")

META = dict(
    explanation="Circuits with SYMBOLIC angles are simulated under a NoiseModel whose Pauli (px,py,pz) and depolarising (p) "
                "rates are SYMBOLIC reals in [0,1] through the real NoiseModel.add_quantum_error, the real "
                "translate_c_to_cirq(noise_model=...) and the real CirqSimulator noisy route, with exact stubs for "
                "cirq.DensityMatrixSimulator and the channel constructors; the FULL density matrix handed to "
                "cirq.sample_density_matrix is compared entry-wise with the reference: after each noisy gate, in gate order "
                "and in the order the errors were added, the Pauli channel on every touched qubit (targets, then controls) / "
                "the depolarising channel rho -> (1-p) rho + p I/2^k (x) tr_k rho on the k touched qubits. Noisy expectation "
                "values: per term, the distribution handed to the sampler is the diagonal of the reference state after the "
                "(equally noisy) basis rotation. Malformed / unsupported specifications must raise.",
    bounds=dict(quick="n<=3 qubits, 1-3 gates, noisy 1-, 2- and 3-qubit gates, both channels on one gate",
                thorough="n<=3 qubits, up to 4 gates, more assignments"),
    outside=["IEEE rounding", "sampling statistics", "qiskit noise conversion (package absent)"],
    stubs=["cirq.DensityMatrixSimulator -> exact stub (unitaries from the real cirq gates, channels as Kraus sums)",
           "cirq.asymmetric_depolarize / cirq.depolarize / bit_flip / phase_flip / phase_damp / amplitude_damp with symbolic rates -> stub gates "
           "carrying the rates (documented channel definitions; damping channels through their Kraus operators with a solver-side square root)",
           "cirq.sample_density_matrix -> recorder + solver-chosen draw"],
    trusted_base=["refsem density-matrix helpers", "cirq's documented definition of depolarize(p, n): each of the 4^n-1 non-identity Paulis with probability p/(4^n-1)"],
)


def preload():
    import cirq  # noqa
    from tangelo.linq import get_backend  # noqa
    cirqstub.self_check()


def make_noise(env, assign):
    """assign: list of (gate_name, 'pauli'|'depol'); returns (NoiseModel, {gate: [(type, params)]})"""
    from tangelo.linq.noisy_simulation import NoiseModel
    nm = NoiseModel()
    ref = {}
    for i, (g, kind) in enumerate(assign):
        if kind in ("pauli-x", "pauli-y", "pauli-z"):
            # a Pauli error with ONE non-zero rate (the other two exactly 0.0)
            one = env.real(f"p{i}{kind[-1]}", lo=0, hi=1)
            ps = [one if a == kind[-1] else 0.0 for a in "xyz"]
            nm.add_quantum_error(g, "pauli", list(ps))
            ref.setdefault(g, []).append(("pauli", ps))
        elif kind == "pauli":
            ps = [env.real(f"p{i}{a}", lo=0, hi=1) for a in "xyz"]
            if env.symbolic:
                s = ps[0] + ps[1] + ps[2]
                env.assume(Cons((1 - s).p, ">="), "px+py+pz <= 1")
            else:
                s = sum(ps)
                if s > 1:
                    ps = [p / (s + 0.1) for p in ps]
            nm.add_quantum_error(g, "pauli", list(ps))
            ref.setdefault(g, []).append(("pauli", ps))
        else:
            p = env.real(f"p{i}", lo=0, hi=1)
            nm.add_quantum_error(g, "depol", p)
            ref.setdefault(g, []).append(("depol", p))
    return nm, ref


def oracle_dm(spec, params, n, ref, extra=()):
    rho = R.dm_from_state(R.basis_state(n, 0))
    for (name, tg, ct), th in list(zip([s_[:3] for s_ in spec], params)) + list(extra):
        rho = R.dm_apply_unitary_gate(rho, n, name, tg, ct, th if name in PARAM else None)
        for kind, pr in ref.get(name, []):
            qs = list(tg) + list(ct or [])
            if kind == "pauli":
                for q in qs:
                    rho = R.dm_pauli_channel(rho, n, q, pr[0], pr[1], pr[2])
            else:
                rho = R.dm_depolarize(rho, n, qs, pr)
    return rho


def backend(env, nm, n_shots=1):
    if env.symbolic:
        return cirqstub.symbolic_backend(n_shots=n_shots, noise_model=nm)
    from tangelo.linq import get_backend
    return get_backend("cirq", n_shots=n_shots, noise_model=nm)


def h_noisy(env, spec, n, assign, canary=False):
    from tangelo.linq import Circuit
    gates, params = build_gates(env, spec)
    circ = Circuit(gates, n_qubits=n)
    nm, ref = make_noise(env, assign)
    want = oracle_dm(spec if not canary else spec[::-1], params if not canary else params[::-1], n, ref)
    sig0 = [(g.name, list(g.target), list(g.control or []), g.parameter) for g in circ._gates]
    if env.symbolic:
        b = backend(env, nm)
        freqs, _ = b.simulate(circ)
        # a noisy simulation only READS the circuit; running it again gives the same state
        sig1 = [(g.name, list(g.target), list(g.control or []), g.parameter) for g in circ._gates]
        env.check_same([x[:3] for x in sig1], [x[:3] for x in sig0], "noisy simulation leaves the gates of the source circuit unchanged")
        b2 = backend(env, nm)
        b2.simulate(circ)
        rho2 = b2.cirq.sampler_calls[0]["rho"]
        env.check_vec_eq([rho2[i][j] for i in range(2 ** n) for j in range(2 ** n)], [want[i][j] for i in range(2 ** n) for j in range(2 ** n)],
                         "a second noisy simulation of the same circuit object gives the same density matrix")
        calls = b.cirq.sampler_calls
        env.check_true(len(calls) == 1 and calls[0]["kind"] == "density_matrix", "density-matrix sampler used once")
        rho = calls[0]["rho"]
        env.check_vec_eq([rho[i][j] for i in range(2 ** n) for j in range(2 ** n)],
                         [want[i][j] for i in range(2 ** n) for j in range(2 ** n)],
                         f"density matrix after {spec} with noise {assign} == reference channels in gate order")
    else:
        # real cirq: compare the simulator's final density matrix (exact, no sampling involved)
        b = backend(env, nm, n_shots=10)
        freqs, _ = b.simulate(circ)
        rho = np.asarray(b._current_state)
        env.check_vec_eq([rho[i][j] for i in range(2 ** n) for j in range(2 ** n)],
                         [want[i][j] for i in range(2 ** n) for j in range(2 ** n)],
                         f"density matrix after {spec} with noise {assign} == reference channels in gate order", tol=1e-7)
        env.check_true(abs(sum(freqs.values()) - 1) < 1e-9, "frequencies sum to 1")


def h_noisy_init(env, spec, n, assign):
    """noise model together with a complex initial statevector: the state is |psi><psi| followed by the noisy gates"""
    from tangelo.linq import Circuit
    from harness.c01 import as_array
    gates, params = build_gates(env, spec)
    circ = Circuit(gates, n_qubits=n)
    nm, ref = make_noise(env, assign)
    psi = env.state(n, "psi")
    rho = R.dm_from_state(psi)
    for (name, tg, ct), th in zip(spec, params):
        rho = R.dm_apply_unitary_gate(rho, n, name, tg, ct, th if name in PARAM else None)
        for kind, pr in ref.get(name, []):
            qs = list(tg) + list(ct or [])
            if kind == "pauli":
                for q in qs:
                    rho = R.dm_pauli_channel(rho, n, q, pr[0], pr[1], pr[2])
            else:
                rho = R.dm_depolarize(rho, n, qs, pr)
    want = rho
    if env.symbolic:
        b = backend(env, nm)
        b.simulate(circ, initial_statevector=as_array(env, psi))
        got = b.cirq.sampler_calls[0]["rho"]
        tol = 1e-8
    else:
        b = backend(env, nm, n_shots=5)
        b.simulate(circ, initial_statevector=as_array(env, psi))
        got = np.asarray(b._current_state)
        tol = 1e-7
    env.check_vec_eq([got[i][j] for i in range(2 ** n) for j in range(2 ** n)], [want[i][j] for i in range(2 ** n) for j in range(2 ** n)],
                     f"noisy density matrix from a complex initial statevector after {spec} with noise {assign}", tol=tol)


def _noisy_expect_init(env, spec, params, circ, nm, ref, n, word, init_index):
    from tangelo.toolboxes.operators import QubitOperator
    from harness.c01 import as_array
    c = env.real("c", lo=-2, hi=2)
    op = QubitOperator()
    op.terms[tuple(word)] = c
    rot = {"X": ("RY", -np.pi / 2), "Y": ("RX", np.pi / 2)}
    extra = [((rot[p][0], [q], []), rot[p][1]) for q, p in word if p in rot]
    # reference: the same noisy evolution started from the basis state |init_index> (prepended X gates carry no noise here:
    # the channels of the model are attached to the gates of `spec` only, and X is not among the noisy gate names used)
    rho = R.dm_from_state(R.basis_state(n, init_index))
    for (name, tg, ct), th in list(zip([s_[:3] for s_ in spec], params)) + list(extra):
        rho = R.dm_apply_unitary_gate(rho, n, name, tg, ct, th if name in PARAM else None)
        for kind, pr in ref.get(name, []):
            qs = list(tg) + list(ct or [])
            if kind == "pauli":
                for q in qs:
                    rho = R.dm_pauli_channel(rho, n, q, pr[0], pr[1], pr[2])
            else:
                rho = R.dm_depolarize(rho, n, qs, pr)
    psi = R.basis_state(n, init_index)
    if env.symbolic:
        b = backend(env, nm)
        b.get_expectation_value(op, circ, initial_statevector=as_array(env, psi))
        probs = b.cirq.sampler_calls[-1]["probs"]
        env.check_vec_eq(probs, [rho[i][i] for i in range(2 ** n)], f"noisy outcome distribution for term {word} from the initial state |{R.bitstring(init_index, n)}>")
    else:
        b = backend(env, nm, n_shots=40000)
        val = b.get_expectation_value(op, circ, initial_statevector=as_array(env, psi))
        want = complex(c) * sum((1 if bin(i & sum(1 << (n - 1 - q) for q, _ in word)).count("1") % 2 == 0 else -1) * complex(rho[i][i]).real for i in range(2 ** n))
        env.check_le(abs(complex(val) - want), 0.04 * max(1.0, abs(complex(c))), f"noisy expectation value for term {word} from the initial state |{R.bitstring(init_index, n)}> (40000 shots, > 5 sigma)")


def h_noisy_expect(env, spec, n, assign, word, init_index=None):
    """per term: distribution handed to the sampler = diagonal of the reference state after the noisy basis rotation;
    init_index: the evolution starts from that basis state, handed in as initial_statevector"""
    from tangelo.linq import Circuit
    from tangelo.toolboxes.operators import QubitOperator
    gates, params = build_gates(env, spec)
    circ = Circuit(gates, n_qubits=n)
    nm, ref = make_noise(env, assign)
    if init_index is not None:
        return _noisy_expect_init(env, spec, params, circ, nm, ref, n, word, init_index)
    c = env.real("c", lo=-2, hi=2)
    op = QubitOperator()
    op.terms[tuple(word)] = c
    rot = {"X": ("RY", -np.pi / 2), "Y": ("RX", np.pi / 2)}
    extra = [((rot[p][0], [q], []), rot[p][1]) for q, p in word if p in rot]
    want = oracle_dm(spec, params, n, ref, extra)
    if env.symbolic:
        b = backend(env, nm)
        val = b.get_expectation_value(op, circ)
        calls = b.cirq.sampler_calls
        env.check_true(len(calls) >= 1, "sampler used")
        probs = calls[-1]["probs"]
        env.check_vec_eq(probs, [want[i][i] for i in range(2 ** n)], f"noisy outcome distribution for term {word}")
        d1, d2 = (Sym.of(val) - c).p, (Sym.of(val) + c).p
        env.check_true(d1.is_zero() or d2.is_zero(), "one-shot estimate is +-c")
    else:
        b = backend(env, nm, n_shots=20)
        val = b.get_expectation_value(op, circ)
        env.check_true(abs(complex(val)) <= abs(c) + 1e-9, "estimate bounded by |c|")


def h_noisy_prepared(env, spec, n, assign, words):
    """the density matrix handed back by a noisy simulate(return_statevector=True) and then given to
    expectation_value_from_prepared_state: the value is tr(rho O) for operators with X, Z and (an odd number of) Y factors"""
    from tangelo.linq import Circuit
    from tangelo.toolboxes.operators import QubitOperator
    gates, params = build_gates(env, spec)
    circ = Circuit(gates, n_qubits=n)
    nm, ref = make_noise(env, assign)
    op = QubitOperator()
    terms = {}
    for i, w in enumerate(words):
        c = env.real(f"c{i}", lo=-2, hi=2)
        op.terms[tuple(w)] = c
        terms[tuple(w)] = c
    want = oracle_dm(spec, params, n, ref)
    b = backend(env, nm, n_shots=(1 if env.symbolic else 10))
    from harness import c02
    try:
        if env.symbolic:
            import tangelo.linq.target.target_cirq as tc
            real = tc.__dict__.get("_verif_real_translate_operator") or tc.translate_operator
            tc.__dict__["_verif_real_translate_operator"] = real
            tc.__dict__["translate_operator"] = c02._sym_translate_operator(real)
        _, rho = b.simulate(circ, return_statevector=True)
        val = b.expectation_value_from_prepared_state(op, n, rho)
    finally:
        c02._restore()
    env.check_eq(val, R.dm_expectation(want, n, terms).real if not env.symbolic else R.dm_expectation(want, n, terms),
                 f"expectation_value_from_prepared_state(noisy density matrix) == tr(rho O) for words {words}")


def h_zero(env, spec, n, assign):
    """zero error rates reproduce the noiseless state (concrete zeros, symbolic angles)"""
    from tangelo.linq import Circuit
    from tangelo.linq.noisy_simulation import NoiseModel
    gates, params = build_gates(env, spec)
    circ = Circuit(gates, n_qubits=n)
    nm = NoiseModel()
    for g, kind in assign:
        nm.add_quantum_error(g, kind, [0.0, 0.0, 0.0] if kind == "pauli" else 0.0)
    st = R.run_gates([(nm_, tg, ct, th if nm_ in PARAM else None) for (nm_, tg, ct), th in zip(spec, params)], n)
    want = R.dm_from_state(st)
    if env.symbolic:
        b = backend(env, nm)
        b.simulate(circ)
        rho = b.cirq.sampler_calls[0]["rho"]
    else:
        b = backend(env, nm, n_shots=5)
        b.simulate(circ)
        rho = np.asarray(b._current_state)
    env.check_vec_eq([rho[i][j] for i in range(2 ** n) for j in range(2 ** n)],
                     [want[i][j] for i in range(2 ** n) for j in range(2 ** n)], "zero rates == noiseless state", tol=1e-7)


def h_model_history(env, case):
    """the noise model as an object with a history: (a) an error registered AFTER the model has been used once is applied by
    the next simulation; (b) a zero-rate entry registered first does not suppress the (symbolic-rate) entry registered after it."""
    from tangelo.linq import Circuit, Gate
    from tangelo.linq.noisy_simulation import NoiseModel
    from fractions import Fraction as Fr
    spec = [("RY", [0], []), ("CNOT", [1], [0])]
    gates, params = build_gates(env, spec)
    circ = Circuit(gates, n_qubits=2)
    def rates(tag):
        ps = [env.real(f"{tag}{a}", lo=0, hi=1) for a in "xyz"]
        if env.symbolic:
            env.assume(Cons((1 - (ps[0] + ps[1] + ps[2])).p, ">="), "px+py+pz <= 1")
        elif sum(ps) > 1:
            ps = [p / (sum(ps) + 0.1) for p in ps]
        return ps
    nm = NoiseModel()
    if case == "extend-after-use":
        p0 = env.real("p0", lo=0, hi=1)
        nm.add_quantum_error("RY", "depol", p0)
        _ = sorted(nm.noisy_gates)
        b0 = backend(env, nm) if env.symbolic else backend(env, nm, n_shots=5)
        b0.simulate(circ)
        ps = rates("q")
        nm.add_quantum_error("CNOT", "pauli", list(ps))
        ref = {"RY": [("depol", p0)], "CNOT": [("pauli", ps)]}
    elif case == "zero-first/pauli-depol":
        p1 = env.real("p1", lo=0, hi=1)
        nm.add_quantum_error("CNOT", "pauli", [0.0, 0.0, 0.0])
        nm.add_quantum_error("CNOT", "depol", p1)
        ref = {"CNOT": [("depol", p1)]}
    else:
        ps = rates("q")
        nm.add_quantum_error("CNOT", "depol", 0.0)
        nm.add_quantum_error("CNOT", "pauli", list(ps))
        ref = {"CNOT": [("pauli", ps)]}
    want = oracle_dm(spec, params, 2, ref)
    if env.symbolic:
        b = backend(env, nm)
        b.simulate(circ)
        rho = b.cirq.sampler_calls[0]["rho"]
        tol = 1e-8
    else:
        b = backend(env, nm, n_shots=5)
        b.simulate(circ)
        rho = np.asarray(b._current_state)
        tol = 1e-7
    env.check_vec_eq([rho[i][j] for i in range(4) for j in range(4)], [want[i][j] for i in range(4) for j in range(4)],
                     f"noise model history '{case}': density matrix == reference channels of the model as it stands", tol=tol)


def h_reject(env, case):
    from tangelo.linq.noisy_simulation import NoiseModel
    from tangelo.linq import get_backend, Circuit, Gate
    nm = NoiseModel()
    if case == "type":
        env.check_raises(lambda: nm.add_quantum_error("X", "amplitude_damping", 0.1), "unsupported noise type is rejected")
        # the two keywords are matched exactly by the translator: any other spelling must be refused rather than stored and ignored
        for kw_, pr in (("Pauli", [0.1, 0.1, 0.1]), ("DEPOL", 0.1), ("Depol", 0.2), ("pauli ", [0.1, 0.0, 0.0])):
            try:
                nm.add_quantum_error("X", kw_, pr)
                accepted = True
            except Exception:       # noqa
                accepted = False
            env.check_true((not accepted) or all(t in ("pauli", "depol") for t, _ in nm._quantum_errors.get("X", [])),
                           f"noise type keyword {kw_!r}: refused, or stored under a keyword the simulator applies")
    elif case == "pauli-notlist":
        env.check_raises(lambda: nm.add_quantum_error("X", "pauli", 0.1), "pauli noise needs a list")
    elif case == "pauli-len":
        env.check_raises(lambda: nm.add_quantum_error("X", "pauli", [0.1, 0.1]), "pauli noise needs 3 probabilities")
    elif case == "depol-list":
        env.check_raises(lambda: nm.add_quantum_error("X", "depol", [0.1, 0.1, 0.1]), "depol noise needs one float")
    elif case == "twice":
        nm.add_quantum_error("X", "depol", 0.1)
        env.check_raises(lambda: nm.add_quantum_error("X", "depol", 0.2), "same channel type twice on one gate is rejected")
        # a REJECTED entry leaves the model as it was: exactly the channels that were accepted are applied afterwards
        env.check_same([(t, p) for t, p in nm._quantum_errors["X"]], [("depol", 0.1)], "a rejected channel is not stored in the noise model")
        for bad in (lambda: nm.add_quantum_error("X", "pauli", [0.1, 0.1]), lambda: nm.add_quantum_error("Y", "foo", 0.1),
                    lambda: nm.add_quantum_error("Z", "depol", [0.1, 0.2])):
            try:
                bad()
            except Exception:       # noqa
                pass
        env.check_same({k: list(v) for k, v in nm._quantum_errors.items() if v}, {"X": [("depol", 0.1)]}, "rejected entries (any reason) leave no trace in the model")
    elif case == "no-shots":
        nm.add_quantum_error("X", "depol", 0.1)
        env.check_raises(lambda: get_backend("cirq", n_shots=None, noise_model=nm), "noise without shots is rejected")
    elif case == "unsupported-backend":
        nm.add_quantum_error("X", "depol", 0.1)
        env.check_raises(lambda: get_backend("sympy", n_shots=10, noise_model=nm), "backend without noise support rejects a noise model")
    elif case in ("prob>1", "prob<0", "pauli-sum>1"):
        def run():
            if case == "prob>1":
                nm.add_quantum_error("X", "depol", 1.5)
            elif case == "prob<0":
                nm.add_quantum_error("X", "pauli", [-0.2, 0.1, 0.1])
            else:
                nm.add_quantum_error("X", "pauli", [0.5, 0.4, 0.3])
            b = get_backend("cirq", n_shots=5, noise_model=nm)
            b.simulate(Circuit([Gate("X", 0)]))
        with shim.concrete_mode():
            env.check_raises(run, f"invalid probabilities ({case}) are rejected before any result is produced")
    elif case == "both-ok":
        nm.add_quantum_error("X", "depol", 0.1)
        nm.add_quantum_error("X", "pauli", [0.1, 0.0, 0.2])
        env.check_same(sorted(nm.noisy_gates), ["X"], "both channel types on one gate are accepted")
        env.check_same([t for t, _ in nm._quantum_errors["X"]], ["depol", "pauli"], "stored in the order added")


def shapes(tier, seed):
    rnd = random.Random(seed)
    out = []
    cases = [
        ([("X", [0], [])], 1, [("X", "pauli")]),
        ([("RY", [0], [])], 1, [("RY", "depol")]),
        ([("H", [0], []), ("CNOT", [1], [0])], 2, [("CNOT", "depol")]),
        ([("RY", [0], []), ("CNOT", [1], [0])], 2, [("CNOT", "pauli")]),
        ([("RX", [1], []), ("CNOT", [0], [1]), ("RX", [1], [])], 2, [("RX", "pauli"), ("CNOT", "depol")]),
        ([("H", [0], []), ("H", [1], []), ("CRZ", [2], [0])], 3, [("H", "depol"), ("CRZ", "pauli")]),
        ([("RY", [0], []), ("X", [0], [])], 1, [("X", "depol"), ("X", "pauli")]),
        ([("RY", [1], []), ("XX", [0, 1], [])], 2, [("XX", "depol")]),
        ([("H", [0], []), ("RY", [1], []), ("CSWAP", [1, 2], [0])], 3, [("CSWAP", "depol")]),
        ([("RY", [0], []), ("H", [2], []), ("CX", [1], [0, 2])], 3, [("CX", "pauli")]),
        ([("RY", [2], []), ("SWAP", [0, 2], [])], 3, [("SWAP", "pauli"), ("RY", "depol")]),
        # both channel types on ONE controlled gate, in both registration orders
        ([("RY", [0], []), ("CNOT", [1], [0])], 2, [("CNOT", "depol"), ("CNOT", "pauli")]),
        ([("RY", [0], []), ("CNOT", [1], [0])], 2, [("CNOT", "pauli"), ("CNOT", "depol")]),
        ([("H", [1], []), ("CRZ", [0], [1])], 2, [("CRZ", "depol"), ("CRZ", "pauli")]),
        # one gate NAME occurring with different numbers of qubits (the depolarising channel acts on all of them)
        ([("H", [0], []), ("CRZ", [2], [0]), ("CRZ", [2], [0, 1])], 3, [("CRZ", "depol")]),
        ([("RY", [1], []), ("CX", [0], [1, 2]), ("CX", [2], [1])], 3, [("CX", "depol")]),
    ]
    cases += [
        # a Pauli error with a single non-zero rate, seen through coherences
        ([("H", [0], []), ("RZ", [0], [])], 1, [("RZ", "pauli-z")]),
        ([("RY", [0], []), ("X", [0], [])], 1, [("X", "pauli-x")]),
        ([("RX", [0], []), ("H", [0], [])], 1, [("H", "pauli-y")]),
        ([("H", [0], []), ("CNOT", [1], [0])], 2, [("CNOT", "pauli-z")]),
        # noisy rotation gates whose angle is exactly 0 (a variational circuit at theta = 0) still get their channel
        ([("H", [0], []), ("RZ", [0], [], 0.0), ("RX", [0], [], 0.0)], 1, [("RZ", "pauli"), ("RX", "depol")]),
        ([("RY", [0], []), ("RY", [1], [], 0.0), ("CRZ", [1], [0], 0.0)], 2, [("RY", "depol"), ("CRZ", "pauli")]),
    ]
    if tier == "thorough":
        cases += [
            ([("H", [0], []), ("CNOT", [1], [0]), ("RZ", [1], []), ("CNOT", [1], [0])], 2, [("CNOT", "depol"), ("RZ", "pauli")]),
            ([("RY", [0], []), ("CRY", [1], [0]), ("CZ", [2], [1])], 3, [("CRY", "depol"), ("CZ", "depol"), ("RY", "pauli")]),
            ([("RX", [0], []), ("PHASE", [0], []), ("H", [0], [])], 1, [("PHASE", "pauli"), ("H", "pauli"), ("RX", "depol")]),
        ]
    for i, (spec, n, assign) in enumerate(cases):
        nm = "-".join(s[0] for s in spec) + "/" + "+".join(f"{g}:{k}" for g, k in assign)
        out.append(Shape(f"dm/{i}_{nm}", h_noisy, dict(spec=spec, n=n, assign=assign), modules=MODS, max_paths=32))
    out.append(Shape("dm_init/0", h_noisy_init, dict(spec=[("RY", [0], [])], n=1, assign=[("RY", "depol")]), modules=MODS, max_paths=32))
    out.append(Shape("dm_init/1", h_noisy_init, dict(spec=[("H", [0], []), ("CNOT", [1], [0])], n=2, assign=[("CNOT", "pauli")]), modules=MODS, max_paths=32))
    out.append(Shape("dm_init/zero-rates", h_noisy_init, dict(spec=[("RX", [1], []), ("CZ", [0], [1])], n=2, assign=[]), modules=MODS, max_paths=32))
    out.append(Shape("canary/dm/order", h_noisy, dict(spec=[("RY", [0], []), ("X", [0], [])], n=1, assign=[("X", "pauli")], canary=True),
                     modules=MODS, canary=True, max_paths=32))
    for i, (spec, n, assign) in enumerate(cases[:4] if tier == "quick" else cases[:8]):
        out.append(Shape(f"zero/{i}", h_zero, dict(spec=spec, n=n, assign=assign), modules=MODS, max_paths=32))
    ex = [(cases[2], [(0, "X"), (1, "Z")]), (cases[3], [(1, "Y")]), (cases[0], [(0, "Z")]), (cases[4], [(0, "X"), (1, "Y")])]
    for i, ((spec, n, assign), word) in enumerate(ex):
        out.append(Shape(f"expect/{i}", h_noisy_expect, dict(spec=spec, n=n, assign=assign, word=word), modules=MODS, max_paths=64))
    for i, (ci, ws) in enumerate([(0, [[(0, "Y")], [(0, "X")]]), (3, [[(0, "Y"), (1, "Z")], [(0, "X"), (1, "Y")], [(1, "Z")]]), (4, [[(0, "Y"), (1, "Y")], [(1, "Y")]])]):
        sp_, n_, as_ = cases[ci]
        out.append(Shape(f"prepared/{i}", h_noisy_prepared, dict(spec=sp_, n=n_, assign=as_, words=ws), modules=MODS, max_paths=64))
    out.append(Shape("expect-init/0", h_noisy_expect, dict(spec=cases[3][0], n=2, assign=cases[3][2], word=[(0, "Z")], init_index=2), modules=MODS, max_paths=64))
    out.append(Shape("expect-init/1", h_noisy_expect, dict(spec=cases[2][0], n=2, assign=cases[2][2], word=[(1, "Z")], init_index=1), modules=MODS, max_paths=64))
    for case in ("extend-after-use", "zero-first/pauli-depol", "zero-first/depol-pauli"):
        out.append(Shape(f"model-history/{case}", h_model_history, dict(case=case), modules=MODS, max_paths=32))
    for case in ("type", "pauli-notlist", "pauli-len", "depol-list", "twice", "no-shots", "unsupported-backend", "prob>1", "prob<0",
                 "pauli-sum>1", "both-ok"):
        out.append(Shape(f"reject/{case}", h_reject, dict(case=case), modules=MODS))
    return out
