"""C15  Problem-decomposition energies satisfy their defining identities (PARTIAL: ONIOM, Link.relink single-atom caps,
method-of-increments summation; every DMET clause and functional-group caps are outside)."""
import contextlib
import itertools
import random

from symx.core import Shape
from symx import shim
from symx.num import Sym

PROPERTY = "C15"
HC = "tangelo.problem_decomposition.oniom._helpers.helper_classes"
ONIOM = "tangelo.problem_decomposition.oniom.oniom_problem_decomposition"
INCR = "tangelo.problem_decomposition.incremental.incremental_helper"

META = dict(
    explanation="(a) ONIOM: the real ONIOMProblemDecomposition/Fragment code (atom distribution, link capping, build, simulate) is run "
                "with the electronic-structure layer replaced by an UNINTERPRETED energy: SecondQuantizedMolecule and the six solver "
                "classes bound in helper_classes are stubs whose energy is one fresh solver variable per distinct (method, options, "
                "basis, frozen, charge, spin, multiset of atoms with coordinates). The returned total is then a polynomial in these "
                "variables and is compared by the solver with (i) the defining sum E_low(system) + sum_i [E_high_i(model_i) - "
                "E_low_i(model_i)] where the harness selects model atoms and places caps by its own formulas, (ii) E_low(system) when "
                "every model has identical high and low levels, (iii) E_high(system) when the model is the whole system (selected by "
                "count or by an index list in any order). (b) Link.relink for single-atom caps (element name or custom ghost+atom "
                "group) with SYMBOLIC coordinates of the staying/leaving atoms and SYMBOLIC factor: cap = staying + factor*(leaving - "
                "staying), coordinate-wise, solver-decided (a Link built without factor: the factor attribute it reports). (c) MethodOfIncrementsHelper.mi_summation built "
                "from a result dict with SYMBOLIC total/correlation/fragment energies and corrections, <=4 centres, complete "
                "increment sets up to every order k: the sum equals e_mf + sum_{|S|<=k} eps_S with eps_S given by the closed Moebius "
                "form sum_{T subset S} (-1)^{|S|-|T|} E_c(T) (oracle independent of the code's recursion); at full order (k = n) "
                "it equals the energy of the complete fragment; user-provided energies replace the stored ones (plus the stored "
                "per-fragment correction, as documented).",
    bounds=dict(quick="ONIOM: 7-atom geometry (list and string input), 120 seeded fragment set-ups (selection by count 1..7, sorted / "
                      "permuted / non-contiguous index lists, 0-2 links with factors {0.5,0.709,1.0,1.3} and species H/F/Cl, solver pairs "
                      "from HF/CCSD/FCI/MINDO3/VQE/ADAPT/QITE, 1-2 model fragments) + fixed core; relink: 6 (staying,leaving) pairs x 2 species forms; "
                      "MI: n=1..4 centres, every order k<=n, ~7 override patterns each",
                thorough="ONIOM: 2000 seeded set-ups + every count 1..7 + every permutation of a 4-atom whole-system model; relink: all ordered "
                         "(staying, leaving) pairs of a 4-atom geometry x 4 species forms; MI: n=1..4, every k, every override pattern "
                         "for n<=3 and 150 seeded ones for n=4, shuffled dictionary orders, two centre labelings"),
    outside=["every DMET clause (bath construction, chemical-potential root search, fragment solvers, electron counts, relabelling "
             "invariance): numpy/scipy/PySCF numerics end to end",
             "functional-group link caps (CH3/CF3/NH2/custom multi-atom groups): scipy Rotation.align_vectors",
             "the electronic energies themselves (PySCF / solvers) - replaced by an uninterpreted function; in particular that the real "
             "solvers are invariant under atom order is assumed (the stub energy depends on the multiset of atoms)",
             "ONIOM with symbolic coordinates (the uninterpreted energy is keyed by concrete coordinates rounded to 1e-6)",
             "incomplete increment sets (screened-out fragments), IEEE rounding"],
    stubs=["StubMolecule for SecondQuantizedMolecule (mf_energy = uninterpreted E('HF', ...))",
           "StubSolver classes for CCSDSolver/FCISolver/MINDO3Solver/VQESolver/ADAPTSolver/QITESolver (simulate() = uninterpreted E(method, ...))",
           "get_default_integral_solver -> dummy", "numpy proxy in helper_classes whose np.array allocates object arrays (relink shapes)"],
    trusted_base=["the harness' own atom selection / cap placement / Moebius inversion formulas (oracle)"],
)


def preload():
    import tangelo.problem_decomposition  # noqa
    import tangelo.problem_decomposition.oniom  # noqa


# ---------------------------------------------------------------- uninterpreted energies + stubs
def _geom_key(geometry):
    atoms = sorted((str(el), round(float(x), 6) + 0.0, round(float(y), 6) + 0.0, round(float(z), 6) + 0.0) for el, (x, y, z) in geometry)
    return ";".join(f"{el}:{x:.6f},{y:.6f},{z:.6f}" for el, x, y, z in atoms)


class EnergyTable:
    """E(method, options, basis, frozen, charge, spin, multiset of atoms) -> one input variable each"""

    def __init__(self, env):
        self.env = env
        self.index = {}

    def __call__(self, method, options, basis, frozen, charge, spin, geometry):
        opts = ",".join(f"{k}={options[k]!r}" for k in sorted(options or {}) if k not in ("basis", "frozen_orbitals", "molecule"))
        key = f"{method}/{opts}/{basis}/{frozen!r}/{charge}/{spin}/{_geom_key(geometry)}"
        if key not in self.index:
            self.index[key] = len(self.index)
        # the variable name must be a function of the key only (replay looks values up by name)
        import hashlib
        name = f"U.{method}.{len(geometry)}at.{hashlib.sha1(key.encode()).hexdigest()[:10]}"
        return self.env.real(name, lo=-5, hi=5)


@contextlib.contextmanager
def stubbed(table):
    """replace the electronic-structure layer that helper_classes binds at import time (both engine modes)"""
    import importlib
    hc = importlib.import_module(HC)

    class StubMolecule:
        def __init__(self, xyz, q=0, spin=0, solver=None, basis="sto-3g", frozen_orbitals=None, **kw):
            self.xyz, self.q, self.spin, self.basis, self.frozen_orbitals = list(xyz), q, spin, basis, frozen_orbitals

        @property
        def mf_energy(self):
            return table("HF", {}, self.basis, self.frozen_orbitals, self.q, self.spin, self.xyz)

    def classical(method):
        class StubSolver:
            def __init__(self, molecule, **options):
                self.molecule, self.options = molecule, options

            def simulate(self):
                m = self.molecule
                return table(method, self.options, m.basis, m.frozen_orbitals, m.q, m.spin, m.xyz)
        StubSolver.__name__ = f"Stub{method}"
        return StubSolver

    def quantum(method):
        class StubQSolver:
            def __init__(self, opt_dict):
                self.molecule = opt_dict["molecule"]
                self.options = {k: v for k, v in opt_dict.items() if k != "molecule"}
                self.built = False

            def build(self):
                self.built = True

            def simulate(self):
                assert self.built
                m = self.molecule
                return table(method, self.options, m.basis, m.frozen_orbitals, m.q, m.spin, m.xyz)
        StubQSolver.__name__ = f"Stub{method}"
        return StubQSolver

    repl = {"SecondQuantizedMolecule": StubMolecule, "get_default_integral_solver": (lambda: (lambda: None)),
            "CCSDSolver": classical("CCSD"), "FCISolver": classical("FCI"), "MINDO3Solver": classical("MINDO3"),
            "VQESolver": quantum("VQE"), "ADAPTSolver": quantum("ADAPT"), "QITESolver": quantum("QITE")}
    saved = {k: hc.__dict__[k] for k in repl}
    hc.__dict__.update(repl)
    try:
        yield
    finally:
        hc.__dict__.update(saved)


# ---------------------------------------------------------------- (a) ONIOM
GEOM7 = [("C", (0.0, 0.0, 0.0)), ("H", (0.63, 0.63, 0.63)), ("H", (-0.63, -0.63, 0.63)), ("C", (0.9, -0.9, -0.9)),
         ("O", (2.1, -0.7, -1.3)), ("H", (0.5, -1.9, -0.8)), ("N", (-1.2, 0.4, -1.1))]


def geom_to_string(geom):
    return "\n".join(f"{el} {x!r} {y!r} {z!r}" for el, (x, y, z) in geom)


def oracle_model_geometry(geom, sel, links, canary=None):
    if sel is None:
        atoms = list(geom)
    elif isinstance(sel, int):
        atoms = list(geom[1:sel + 1]) if canary == "selection" else list(geom[:sel])
    else:
        atoms = [geom[i] for i in sel]
    for (st, lv, f, sp) in links or []:
        s, l = geom[st][1], geom[lv][1]
        atoms.append((sp, tuple(s[i] + f * (l[i] - s[i]) for i in range(3))))
    return atoms


def h_oniom(env, geom, frags, as_string=False, canary=None, share=False):
    """frags: list of dict(low, high, olow, ohigh, sel, links, charge, spin); frags[0] is the system (sel None, low only).
    share=True: equal option dictionaries are handed in as ONE dict object (a user writing opts = {...} once and passing it to both
    levels / several fragments); the caller's dictionaries are unchanged afterwards"""
    from tangelo.problem_decomposition import ONIOMProblemDecomposition
    from tangelo.problem_decomposition.oniom import Fragment, Link
    table = EnergyTable(env)
    pool = {}

    def opt(d):
        if not d:
            return None
        if not share:
            return dict(d)
        return pool.setdefault(repr(sorted(d.items(), key=str)), dict(d))
    with stubbed(table):
        fobjs = []
        for f in frags:
            links = [Link(st, lv, fac, sp) if fac is not None else Link(st, lv, species=sp) for (st, lv, fac, sp) in (f.get("links") or [])]
            fobjs.append(Fragment(solver_low=f.get("low"), options_low=opt(f.get("olow")),
                                  solver_high=f.get("high"), options_high=opt(f.get("ohigh")),
                                  selected_atoms=(list(f["sel"]) if isinstance(f.get("sel"), (list, tuple)) else f.get("sel")),
                                  charge=f.get("charge", 0), spin=f.get("spin", 0), broken_links=(links or None)))
        g_in = geom_to_string(geom) if as_string else [(el, tuple(xyz)) for el, xyz in geom]
        oniom = ONIOMProblemDecomposition({"geometry": g_in, "fragments": fobjs})
        snap = {k: dict(v) for k, v in pool.items()}
        total = oniom.simulate()
        for k, v in pool.items():
            env.check_same(v, snap[k], "the option dictionary handed in by the caller is unchanged after simulate()")

        # ---- oracle
        def E(method, opts, f, atoms):
            opts = opts or {"basis": "sto-3g"}
            if method.upper() == "HF":      # mean-field energy: only basis / frozen orbitals / charge / spin / atoms matter
                opts = {k: v for k, v in opts.items() if k in ("basis", "frozen_orbitals")}
            return table(method.upper(), opts, opts["basis"], opts.get("frozen_orbitals"), f.get("charge", 0), f.get("spin", 0), atoms)

        ref = 0
        for f in frags:
            links = [(st, lv, (Link(st, lv, species=sp).factor if fac is None else fac), sp) for (st, lv, fac, sp) in (f.get("links") or [])]
            atoms = oracle_model_geometry(geom, f.get("sel"), links, canary)
            if f.get("high") and f.get("low"):
                lo = E(f["low"], f.get("olow"), f, atoms)
                ref = ref + E(f["high"], f.get("ohigh"), f, atoms) + (lo if canary == "sign" else -lo)
            elif f.get("low"):
                ref = ref + E(f["low"], f.get("olow"), f, atoms)
            else:
                ref = ref + E(f["high"], f.get("ohigh"), f, atoms)
        desc = " | ".join(f"{f.get('low')}/{f.get('high')} sel={f.get('sel')} links={f.get('links')}" for f in frags)
        env.check_eq(total, ref, f"ONIOM total == E_low(system) + sum_i [E_high_i(model_i) - E_low_i(model_i)]  [{desc}]")
        if canary is None:
            # asking the same object again gives the same energy (nothing accumulates between two simulate() calls)
            env.check_eq(oniom.simulate(), ref, f"ONIOM total on a second simulate() of the same object  [{desc}]")
        sysf = frags[0]
        models = frags[1:]
        if not sysf.get("low"):
            return
        e_low_sys = E(sysf["low"], sysf.get("olow"), sysf, list(geom))
        same_level = all(m.get("low") and m.get("high") and m["low"].upper() == m["high"].upper()
                         and (m.get("olow") or {"basis": "sto-3g"}) == (m.get("ohigh") or {"basis": "sto-3g"}) for m in models)
        if models and same_level and sysf.get("sel") is None and not sysf.get("high"):
            env.check_eq(total, e_low_sys, f"ONIOM telescoping: identical high/low level on every model => total == E_low(system)  [{desc}]")
        if len(models) == 1 and sysf.get("sel") is None and not sysf.get("high"):
            m = models[0]
            sel = m.get("sel")
            whole = (sel is None) or (isinstance(sel, int) and sel == len(geom)) or \
                    (isinstance(sel, (list, tuple)) and sorted(sel) == list(range(len(geom))))
            lowsame = m.get("low") and m["low"].upper() == sysf["low"].upper() and \
                (m.get("olow") or {"basis": "sto-3g"}) == (sysf.get("olow") or {"basis": "sto-3g"}) and \
                m.get("charge", 0) == sysf.get("charge", 0) and m.get("spin", 0) == sysf.get("spin", 0)
            if whole and lowsame and not m.get("links"):
                e_high_sys = E(m["high"], m.get("ohigh"), m, list(geom))
                env.check_eq(total, e_high_sys, f"ONIOM: model = whole system => total == E_high(system)  [{desc}]")


def h_oniom_rejects(env):
    """a model fragment without high-level solver would double count atoms: documented to be refused"""
    from tangelo.problem_decomposition import ONIOMProblemDecomposition
    from tangelo.problem_decomposition.oniom import Fragment
    table = EnergyTable(env)
    with stubbed(table):
        env.check_raises(lambda: Fragment(solver_low="HF", selected_atoms=[0, 1]), "Fragment with selected atoms but no solver_high is refused")
        env.check_raises(lambda: Fragment(), "Fragment without any solver is refused")
        env.check_raises(lambda: ONIOMProblemDecomposition({"geometry": GEOM7, "fragments": [
            Fragment(solver_low="HF"), Fragment(solver_low="HF", solver_high="CCSD", selected_atoms=[0.5, 1])]}),
            "non-integer atom selection is refused")
        env.check_raises(lambda: ONIOMProblemDecomposition({"geometry": GEOM7, "fragments": [
            Fragment(solver_low="HF"), Fragment(solver_low="HF", solver_high="CCSD", selected_atoms="01")]}),
            "string atom selection is refused")


# ---------------------------------------------------------------- (b) Link.relink
class ObjNp(shim.NpProxy):
    """numpy proxy for helper_classes in the relink shapes: np.array allocates object arrays so that the in-place
    '+=' of the real code can hold symbolic coordinates"""

    def array(self, x, *a, **k):
        import numpy as _np
        if not a and not k:
            arr = _np.array(x, dtype=object)
            return arr.view(shim.SymArray)
        return shim.NpProxy.array(self, x, *a, **k)


M_RELINK = ((HC, {"np": ObjNp()}),)


def h_relink(env, n_atoms, staying, leaving, species, use_default_factor=False, canary=False):
    from tangelo.problem_decomposition.oniom import Link
    base = [("C", (0.1, -0.2, 0.3)), ("N", (1.4, 0.2, -0.1)), ("O", (-0.9, 1.1, 0.7)), ("C", (0.5, 0.6, -1.2))][:n_atoms]
    geom = [[el, tuple(xyz)] for el, xyz in base]
    s = tuple(env.real(f"s{a}", lo=-4, hi=4) for a in "xyz")
    l = tuple(env.real(f"l{a}", lo=-4, hi=4) for a in "xyz")
    geom[staying][1], geom[leaving][1] = s, l
    if use_default_factor:
        link = Link(staying, leaving, species=species)
        f = link.factor          # whatever default the Link reports is the requested fraction
    else:
        f = env.real("factor", lo=-1, hi=3)
        link = Link(staying, leaving, f, species)
    out = link.relink(geom)
    el_expected = species if isinstance(species, str) else [a[0] for a in species if a[0].upper() != "X"][0]
    env.check_same(len(out), 1, "relink: a single-atom cap yields one atom")
    env.check_same(out[0][0], el_expected, "relink: species of the cap")
    for i, a in enumerate("xyz"):
        ff = f + 1 if (canary and i == 1) else f
        env.check_eq(out[0][1][i], s[i] + ff * (l[i] - s[i]), f"relink: cap {a} == staying + factor*(leaving - staying)")


def h_link_species(env):
    from tangelo.problem_decomposition.oniom import Link
    env.check_raises(lambda: Link(0, 1, species="UNSUPPORTED"), "Link: unknown species string is refused")
    env.check_raises(lambda: Link(0, 1, species=[("H", (0., 0., 0.)), ("C", (1., 0., 0.))]), "Link: custom group without ghost atom is refused")
    for sp in ("H", "F", "Cl", "Br"):
        env.check_same(Link(0, 1, 0.7, sp).species, [(sp, (0., 0., 0.))], f"Link: element cap {sp}")


# ---------------------------------------------------------------- (c) method of increments
def _fid(t):
    return str(tuple(t))


def h_mi(env, centres, order, overrides, shuffle_seed=0, str_keys=True, canary=None):
    """centres: tuple of orbital labels; complete increment sets up to `order`; overrides: list of index tuples (into centres)"""
    from tangelo.problem_decomposition import MethodOfIncrementsHelper
    rnd = random.Random(shuffle_seed)
    n = len(centres)
    e_tot, e_corr = env.real("E_total", lo=-5, hi=5), env.real("E_corr", lo=-5, hi=5)
    E, corr = {}, {}
    sub = {}
    orders = list(range(1, order + 1))
    if shuffle_seed:
        rnd.shuffle(orders)
    for k in orders:
        combos = list(itertools.combinations(range(n), k))
        if shuffle_seed:
            rnd.shuffle(combos)
        d = {}
        for idx in combos:
            S = tuple(centres[i] for i in idx)
            nm = "_".join(str(x) for x in S)
            E[idx] = env.real(f"E_{nm}", lo=-5, hi=5)
            corr[idx] = env.real(f"corr_{nm}", lo=-1, hi=1)
            d[_fid(S)] = {"energy_total": E[idx], "energy_correlation": E[idx] - (e_tot - e_corr), "correction": corr[idx],
                          "problem_handle": 1000 + len(E), "epsilon": 0.0, "frozen_orbitals_truncated": [], "complete_orbital_space": [0, 1]}
        sub[str(k) if str_keys else k] = d
    full_result = {"energy_total": e_tot, "energy_correlation": e_corr, "subproblem_data": sub}
    helper = MethodOfIncrementsHelper(full_result=full_result)
    e_mf = e_tot - e_corr

    def reference(Eeff):
        # closed form: eps_S = sum_{T subseteq S, T != {}} (-1)^{|S|-|T|} (E_T - e_mf)
        tot = e_mf
        for k in range(1, order + 1):
            for idx in itertools.combinations(range(n), k):
                for j in range(1, k + 1):
                    for T in itertools.combinations(idx, j):
                        sgn = (-1) ** (k - j)
                        if canary == "sign" and k - j == 1:
                            sgn = -sgn
                        tot = tot + sgn * (Eeff[T] - e_mf)
        return tot

    got = helper.mi_summation()
    env.check_eq(got, reference(E), f"mi_summation (n={n}, order={order}) == e_mf + sum of Moebius increments")
    full = tuple(range(n))
    if order == n:
        env.check_eq(got, E[full] + (e_mf if canary == "full" else 0), f"mi_summation at full order (n={n}) == energy of the complete fragment")
    if overrides:
        user, Eeff = {}, dict(E)
        for idx in overrides:
            S = tuple(centres[i] for i in idx)
            u = env.real("user_" + "_".join(str(x) for x in S), lo=-5, hi=5)
            user[_fid(S)] = u
            Eeff[idx] = u + corr[idx]
        user_before = dict(user)
        got_u = helper.mi_summation(user_provided_energies=user)
        env.check_eq(got_u, reference(Eeff), f"mi_summation with user energies {sorted(user)} (n={n}, order={order}) == reference with replaced energies")
        if canary is None:
            # the caller keeps the dictionary (e.g. refines one energy in a loop): it is unchanged, and the same call gives the same sum
            env.check_true(set(user) == set(user_before) and all(user[k_] is user_before[k_] or user[k_] == user_before[k_] for k_ in user),
                           "mi_summation leaves the caller's user_provided_energies unchanged")
            env.check_eq(helper.mi_summation(user_provided_energies=user), reference(Eeff),
                         f"mi_summation called a second time with the same user energies (n={n}, order={order}) == the same reference")
        if order == n:
            env.check_eq(got_u, Eeff[full], f"mi_summation with user energies at full order == (replaced) energy of the complete fragment")
        if canary is None:
            # user-provided energies are for that call only: the stored energies answer the next default call
            env.check_eq(helper.mi_summation(), reference(E), f"mi_summation() after a call with user energies (n={n}, order={order}) == summation of the stored energies")


# ---------------------------------------------------------------- shapes
SOLVERS = ["HF", "CCSD", "FCI", "MINDO3", "VQE", "ADAPT", "QITE"]
OPTS = [None, {"basis": "sto-3g"}, {"basis": "6-31g"}, {"basis": "sto-3g", "frozen_orbitals": 1}, {"basis": "6-31g", "frozen_orbitals": [0, 1]}]
Q_OPTS = [None, {"basis": "sto-3g", "qubit_mapping": "jw"}, {"basis": "sto-3g", "qubit_mapping": "bk", "up_then_down": True}]


def _rand_opts(rnd, solver):
    if solver in ("VQE", "ADAPT", "QITE"):
        return rnd.choice(Q_OPTS)
    o = rnd.choice(OPTS)
    if solver == "CCSD" and rnd.random() < 0.3 and o:
        o = dict(o)
    return o


def _rand_model(rnd, n, same_level=False, whole=False, system=None):
    if whole:
        mode = rnd.choice(("count", "perm", "sorted"))
        sel = n if mode == "count" else (list(range(n)) if mode == "sorted" else rnd.sample(range(n), n))
        links = []
    else:
        mode = rnd.choice(("count", "list", "perm"))
        k = rnd.randint(1, n - 1)
        if mode == "count":
            sel = k
            inside = list(range(k))
        else:
            inside = rnd.sample(range(n), k)
            sel = sorted(inside) if mode == "list" else inside
        outside = [i for i in range(n) if i not in inside]
        links = []
        for _ in range(rnd.choice((0, 0, 1, 1, 2))):
            fac = rnd.choice((0.5, 0.709, 1.0, 1.3, None))
            links.append((rnd.choice(inside), rnd.choice(outside), fac, rnd.choice(("H", "F", "Cl"))))
    if whole and system is not None:
        low, olow = system["low"], system.get("olow")
    else:
        low = rnd.choice(SOLVERS)
        olow = _rand_opts(rnd, low)
    if same_level:
        high, ohigh = low, (dict(olow) if olow else None)
    else:
        high = rnd.choice([s for s in SOLVERS if s != low])
        ohigh = _rand_opts(rnd, high)
    m = dict(low=low.lower() if rnd.random() < 0.3 else low, high=high, olow=olow, ohigh=ohigh, sel=sel, links=links)
    if rnd.random() < 0.2 and not whole:
        m["charge"], m["spin"] = rnd.choice(((1, 1), (-1, 1), (0, 2)))
    return m


def _oniom_name(i, frags, tag):
    m = frags[1]
    sel = m["sel"]
    s = f"n{sel}" if isinstance(sel, int) else "i" + "".join(str(x) for x in sel)
    return f"oniom/{tag}/{i}/{m['low'].upper()}-{m['high']}/{s}/L{len(m['links'])}" + (f"+{len(frags) - 2}" if len(frags) > 2 else "")


def h_relink_group(env, species, factor, staying, leaving, canary=False):
    """AUXILIARY concrete shape (no solver role; scipy's align_vectors is numeric): a multi-atom cap is placed as a rigid copy
    of its template, first atom on the broken bond at the requested fraction, template axis (ghost -> first atom) along the bond"""
    import numpy as np
    from symx import shim
    from tangelo.problem_decomposition.oniom._helpers.helper_classes import Link
    geom = [("C", (0.0, 0.0, 0.0)), ("C", (1.1, 0.9, -0.4)), ("H", (-0.7, 0.6, 0.9)), ("N", (2.0, -1.3, 0.8))]
    with shim.concrete_mode():
        import copy as _copy
        from tangelo.problem_decomposition.oniom._helpers.capping_groups import chemical_groups
        # the template the caller named: the library's table entry (deep copy taken BEFORE the call) or the caller's own list
        given = _copy.deepcopy(chemical_groups[species]) if isinstance(species, str) else _copy.deepcopy(list(species))
        link = Link(staying, leaving, factor, species if isinstance(species, str) else _copy.deepcopy(species))
        out = link.relink(geom)
        tmpl = [a for a in given if a[0].upper() != "X"]
        ghost = np.array(given[0][1], dtype=float)
        if isinstance(species, str):
            env.check_true(str(chemical_groups[species]) == str(given), f"{species}: the library's template table is unchanged by the call")
    P = np.array([p for _, p in out], dtype=float)
    T = np.array([t for _, t in tmpl], dtype=float)
    s_, l_ = np.array(geom[staying][1]), np.array(geom[leaving][1])
    want0 = s_ + factor * (l_ - s_)
    if canary:
        want0 = s_ + (1 - factor) * (l_ - s_)
    env.check_true(float(np.abs(P[0] - want0).max()) < 1e-9, f"{species if isinstance(species, str) else 'custom group'}: first atom sits at staying + factor*(leaving - staying)", detail=str(P[0] - want0))
    env.check_same([e for e, _ in out], [e for e, _ in tmpl], "elements of the cap")
    dP = np.linalg.norm(P[:, None, :] - P[None, :, :], axis=-1)
    dT = np.linalg.norm(T[:, None, :] - T[None, :, :], axis=-1)
    env.check_true(float(np.abs(dP - dT).max()) < 1e-9, f"{species}: the cap is a rigid copy of its template")
    u_bond = (l_ - s_) / np.linalg.norm(l_ - s_)
    u_tmpl = (T[0] - ghost) / np.linalg.norm(T[0] - ghost)
    ax_out = (P - P[0]) @ u_bond
    ax_tmpl = (T - T[0]) @ u_tmpl
    env.check_true(float(np.abs(ax_out - ax_tmpl).max()) < 1e-8, f"{species}: template axis (ghost -> first atom) is aligned with the bond direction",
                   detail=str(ax_out - ax_tmpl))


def h_dmet_reorder(env, nested, canary=False, q=0, spin=0):
    """DMET bookkeeping that is pure Python (no claim about DMET energies): nested lists of atom indices are turned into
    fragment sizes and the geometry is reordered so that the k-th fragment consists of exactly the listed atoms, in the
    listed order (enumerated, concrete geometry; the mean field of a small H chain is computed by PySCF)"""
    from tangelo import SecondQuantizedMolecule
    from tangelo.problem_decomposition import DMETProblemDecomposition
    from tangelo.toolboxes.molecular_computation.integral_solver_pyscf import mol_to_pyscf
    from symx import shim
    n = sum(len(f) for f in nested)
    xyz = [("H", (0.0, 0.13 * (i % 2), 0.9 * i + 0.07 * i * i)) for i in range(n)]
    with shim.concrete_mode():
        mol = SecondQuantizedMolecule(xyz, q=q, spin=spin, basis="sto-3g", frozen_orbitals=None, uhf=bool(spin))
        ref = mol_to_pyscf(mol, mol.basis)
        opts = {"molecule": mol, "fragment_atoms": nested, "fragment_solvers": "ccsd", "verbose": False}
        dmet = DMETProblemDecomposition(opts)
    flat = [a for f in nested for a in f]
    if canary:
        flat = flat[::-1]
    env.check_same(list(dmet.fragment_atoms), [len(f) for f in nested], "nested index lists become fragment sizes")
    got = [tuple(round(float(x), 8) for x in dmet.molecule._atom[p][1]) for p in range(n)]
    want = [tuple(round(float(x), 8) for x in ref._atom[a][1]) for a in flat]
    env.check_same(got, want, f"atom at position p of the reordered molecule is the p-th listed atom (fragments {nested})")
    # relabelling must not change WHAT is computed: charge, spin, basis and electron count of the reordered molecule
    env.check_same((int(dmet.molecule.charge), int(dmet.molecule.spin), str(dmet.molecule.basis), int(dmet.molecule.nelectron)),
                   (int(ref.charge), int(ref.spin), str(ref.basis), int(ref.nelectron)),
                   f"reordered molecule keeps charge / spin / basis / electron count (q={q}, spin={spin})")


def h_dmet_exact(env, variants, q=0, spin=0, solver="fci", exact=True, system="H4", loose_optimizer=False):
    """AUXILIARY concrete shape (no solver role; numpy/scipy/PySCF numerics end to end): H4 chain split into two halves - every
    fragment-plus-bath space is the whole orbital space - DMET energy == full-CI energy (1e-6), the fragment electron numbers
    sum to the total (1e-5), and every way of naming the same fragments (sizes, nested index lists, relabelled atoms) gives
    the same energy (1e-7)."""
    from tangelo import SecondQuantizedMolecule
    from tangelo.problem_decomposition import DMETProblemDecomposition
    from tangelo.algorithms.classical import FCISolver
    from symx import shim
    xyz = [("H", (0.0, 0.0, 0.0)), ("H", (0.0, 0.0, 0.9)), ("H", (0.0, 0.1, 1.9)), ("H", (0.0, 0.0, 3.0))]
    mkw, extra = dict(basis="sto-3g"), {}
    if system == "NaH-ecp":
        # a molecule carrying an effective core potential, taken as ONE fragment (the whole orbital space); with a single fragment
        # the electron-number mismatch vanishes for every chemical potential, so the root search is told to accept its start value
        xyz = [("Na", (0.0, 0.0, 0.0)), ("H", (0.0, 0.0, 2.0))]
        mkw = dict(basis="lanl2dz", ecp={"Na": "lanl2dz"})
        extra = {"optimizer": (lambda func, mu0: mu0 if abs(func(mu0)) < 1e-9 else __import__("scipy.optimize").optimize.newton(func, mu0, tol=1e-6))}
    if loose_optimizer:
        # documented `optimizer` option with a root search that returns a point it never evaluated (secant step, loose tolerance):
        # the reported energy is the energy AT the reported chemical potential
        extra = {"optimizer": (lambda func, mu0: __import__("scipy.optimize").optimize.newton(func, mu0, tol=2e-2))}
    es = []
    with shim.concrete_mode():
        mol = SecondQuantizedMolecule(xyz, q=q, spin=spin, uhf=bool(spin), **mkw)
        e_ref = float(FCISolver(SecondQuantizedMolecule(xyz, q=q, spin=spin, **mkw)).simulate()) if exact else None
        for frag in variants:
            d = DMETProblemDecomposition(dict({"molecule": mol, "fragment_atoms": frag, "fragment_solvers": solver, "verbose": False}, **extra))
            d.build()
            e = float(d.simulate())
            dn = float(abs(d._oneshot_loop(d.chemical_potential)))
            es.append(e)
            if loose_optimizer:
                env.check_true(abs(float(d.dmet_energy) - e) < 1e-9 and abs(e - e_ref) < 1e-6,
                               f"DMET[{solver}] fragments {frag}, user optimizer with a loose tolerance: returned energy == energy at the reported chemical potential == full CI",
                               detail=f"{e} / {float(d.dmet_energy)} vs {e_ref}")
                continue
            env.check_true(dn < 1e-5, f"DMET[{solver}] fragments {frag}: fragment electron numbers sum to the total", detail=f"difference {dn}")
            if exact:
                env.check_true(abs(e - e_ref) < 1e-6, f"DMET[{solver}] fragments {frag} (fragment + bath = whole space): energy == full CI", detail=f"{e} vs {e_ref}")
    env.check_true(max(es) - min(es) < 1e-7, f"DMET[{solver}] energy is the same for {variants}", detail=str(es))


def h_dmet_count(env, starts, solver="fci"):
    """AUXILIARY concrete shape (no solver role; numpy/scipy/PySCF numerics end to end): "always ends with fragment electron
    numbers summing to the total" over the documented option initial_chemical_potential - a run that RETURNS reports a
    chemical potential at which the fragment electron numbers sum to the total (1e-4) and the energy found from the default
    start (1e-6); a root search that cannot converge must raise instead of returning"""
    from tangelo import SecondQuantizedMolecule
    from tangelo.problem_decomposition import DMETProblemDecomposition
    from symx import shim
    xyz = [("H", (0., 0., 0.)), ("H", (0., 0., 0.8)), ("H", (0., 0.3, 1.9)), ("H", (0.1, 0., 2.8))]
    with shim.concrete_mode():
        mol = SecondQuantizedMolecule(xyz, q=0, spin=0, basis="sto-3g")
        e_ref = None
        for mu0 in starts:
            d = DMETProblemDecomposition({"molecule": mol, "fragment_atoms": [1, 1, 1, 1], "fragment_solvers": solver, "verbose": False,
                                          "initial_chemical_potential": mu0})
            d.build()
            try:
                e = float(d.simulate())
            except Exception as err:        # an honest refusal
                env.check_true(mu0 != 0.0, f"DMET[{solver}] default start converges", detail=f"{type(err).__name__}: {err}"[:200])
                continue
            dn = float(abs(d._oneshot_loop(d.chemical_potential)))
            env.check_true(dn < 1e-4, f"DMET[{solver}] single-atom fragments, initial_chemical_potential={mu0}: a run that returns has fragment "
                                      f"electron numbers summing to the total", detail=f"difference {dn} at mu={d.chemical_potential}")
            if e_ref is None:
                e_ref = e
            env.check_true(abs(e - e_ref) < 1e-6, f"DMET[{solver}] initial_chemical_potential={mu0}: energy == energy from the default start",
                           detail=f"{e} vs {e_ref}")


def shapes(tier, seed):
    rnd = random.Random(seed)
    thorough = tier == "thorough"
    out = []
    import itertools as _it
    perms = [[[1, 2], [0, 3]], [[0, 1], [2, 3]], [[3, 2], [1, 0]], [[2, 0], [3, 1]], [[1, 2], [0, 3], [5, 4]], [[4], [0, 2, 5], [3, 1]],
             [[2, 3, 1], [0]]]
    if thorough:
        perms += [[list(p[:2]), list(p[2:])] for p in _it.permutations(range(4))][::3]
    for sp in ("CH3", "CF3", "NH2"):
        for (st, lv, fac) in ((0, 1, 0.71), (1, 3, 1.0), (3, 1, 0.5)):
            out.append(Shape(f"aux/relink_group/{sp}/{st}-{lv}/{fac}", h_relink_group, dict(species=sp, factor=fac, staying=st, leaving=lv)))
    # the caller's own groups (documented: a list or tuple whose first entry is the ghost atom 'X'), ghost atom NOT at the origin
    custom = {"CFICl": [("X", (0.3, -0.2, 0.5)), ("C", (0.9, 0.4, 1.1)), ("F", (1.5, 1.3, 0.6)), ("I", (1.9, -0.6, 2.2)), ("Cl", (-0.2, 1.2, 2.0))],
              "OH-tuple": (("x", (-1.0, 2.0, 0.25)), ("O", (-1.0, 2.0, 1.25)), ("H", (-0.2, 2.5, 1.6))),
              "ghost-origin": [("X", (0.0, 0.0, 0.0)), ("N", (0.0, 0.0, 1.0)), ("H", (0.9, 0.0, 1.4)), ("H", (-0.4, 0.8, 1.4))]}
    for nm_, sp_ in custom.items():
        for (st, lv, fac) in ((0, 1, 0.71), (3, 1, 0.5)):
            out.append(Shape(f"aux/relink_group/custom-{nm_}/{st}-{lv}/{fac}", h_relink_group, dict(species=sp_, factor=fac, staying=st, leaving=lv)))
    out.append(Shape("canary/aux/relink_group", h_relink_group, dict(species="CH3", factor=0.71, staying=0, leaving=1, canary=True), canary=True))
    for i, nested in enumerate(perms):
        nm = "_".join("".join(map(str, f)) for f in nested)
        out.append(Shape(f"dmet/reorder/{i}_{nm}", h_dmet_reorder, dict(nested=nested)))
    out.append(Shape("dmet/reorder/triplet_01_23", h_dmet_reorder, dict(nested=[[0, 1], [2, 3]], spin=2)))
    out.append(Shape("dmet/reorder/cation-doublet_21_03", h_dmet_reorder, dict(nested=[[2, 1], [0, 3]], q=1, spin=1)))
    out.append(Shape("dmet/reorder/dication_10_32", h_dmet_reorder, dict(nested=[[1, 0], [3, 2]], q=2, spin=0)))
    halves = [[2, 2], [[0, 1], [2, 3]], [[1, 0], [3, 2]], [[2, 3], [0, 1]]]
    out.append(Shape("aux/dmet_exact/H4/fci", h_dmet_exact, dict(variants=halves)))
    out.append(Shape("aux/dmet_exact/H4/fci/loose-optimizer", h_dmet_exact, dict(variants=halves[:2], loose_optimizer=True)))
    # two electrons only: the bath of a half is one orbital, fragment + bath is NOT the whole space -> relabelling invariance only
    out.append(Shape("aux/dmet_exact/NaH-ecp/fci", h_dmet_exact, dict(variants=[[2], [[0, 1]], [[1, 0]]], system="NaH-ecp")))
    out.append(Shape("aux/dmet_relabel/H4-dication/fci", h_dmet_exact, dict(variants=halves[:3], q=2, exact=False)))
    out.append(Shape("aux/dmet_count/H4-atoms/fci", h_dmet_count, dict(starts=(0.0, 0.5, 2.0, -3.0) if not thorough else (0.0, 0.5, 2.0, -3.0, 0.05, -0.4, 10.0))))
    out.append(Shape("canary/dmet/reorder", h_dmet_reorder, dict(nested=[[1, 2], [0, 3]], canary=True), canary=True))
    n = len(GEOM7)
    # ---- (a) fixed core
    sysHF = dict(low="HF", sel=None)
    core = [
        ("telescoping/count3", [sysHF, dict(low="CCSD", high="CCSD", sel=3, links=[(0, 3, 0.709, "H")])]),
        ("telescoping/list-perm", [dict(low="MINDO3", sel=None), dict(low="HF", high="hf", sel=[4, 3, 5], links=[(3, 0, 0.709, "H")])]),
        ("telescoping/two-models", [sysHF, dict(low="FCI", high="FCI", sel=[0, 1, 2], links=[(0, 3, 0.709, "H"), (0, 6, 1.0, "F")]),
                                    dict(low="VQE", high="VQE", sel=[3, 4, 5], links=[(3, 0, None, "H")])]),
        ("whole/count", [sysHF, dict(low="HF", high="CCSD", sel=n, links=[])]),
        ("whole/sorted", [sysHF, dict(low="HF", high="FCI", sel=list(range(n)), links=[])]),
        ("whole/perm", [dict(low="MINDO3", olow={"basis": "6-31g"}, sel=None),
                        dict(low="MINDO3", olow={"basis": "6-31g"}, high="CCSD", ohigh={"basis": "6-31g", "frozen_orbitals": 1}, sel=[6, 2, 0, 5, 1, 4, 3], links=[])]),
        ("general/list-2links", [sysHF, dict(low="HF", high="CCSD", sel=[3, 4, 5], links=[(3, 0, 0.709, "H"), (4, 6, 1.3, "Cl")])]),
        ("general/three-layer", [sysHF, dict(low="HF", high="CCSD", sel=5, links=[(0, 6, 0.709, "H")], ohigh={"basis": "6-31g"}),
                                 dict(low="CCSD", high="FCI", sel=[0, 1, 2], links=[(0, 3, 0.709, "H"), (0, 6, 0.709, "H")])]),
        ("general/high-only-system", [dict(high="CCSD", sel=None)]),
        ("general/low-only-system", [dict(low="ADAPT", sel=None)]),
    ]
    for nm, frags in core:
        for as_string in (False, True):
            out.append(Shape(f"oniom/core/{nm}/{'str' if as_string else 'list'}", h_oniom, dict(geom=GEOM7, frags=frags, as_string=as_string),
                             modules=(HC, ONIOM)))
    # ---- (a) seeded
    N = 2000 if thorough else 120
    for i in range(N):
        sysf = dict(low=rnd.choice(SOLVERS), sel=None)
        sysf["olow"] = _rand_opts(rnd, sysf["low"])
        kind = rnd.choice(("telescoping", "whole", "general", "general"))
        if kind == "whole":
            frags = [sysf, _rand_model(rnd, n, whole=True, system=sysf)]
        else:
            frags = [sysf] + [_rand_model(rnd, n, same_level=(kind == "telescoping")) for _ in range(rnd.choice((1, 1, 2)))]
        out.append(Shape(_oniom_name(i, frags, kind), h_oniom, dict(geom=GEOM7, frags=frags, as_string=bool(i % 2)), modules=(HC, ONIOM)))
    if thorough:
        for k in range(1, n + 1):
            out.append(Shape(f"oniom/count/{k}", h_oniom, dict(geom=GEOM7, frags=[sysHF, dict(low="HF", high="CCSD", sel=k, links=[])]),
                             modules=(HC, ONIOM)))
        g4 = GEOM7[:4]
        for perm in itertools.permutations(range(4)):
            out.append(Shape(f"oniom/whole-perm4/{''.join(map(str, perm))}", h_oniom,
                             dict(geom=g4, frags=[sysHF, dict(low="HF", high="FCI", sel=list(perm), links=[])]), modules=(HC, ONIOM)))
    out.append(Shape("oniom/rejects", h_oniom_rejects, {}, modules=(HC, ONIOM)))
    b631 = {"basis": "6-31g"}
    shared = {"same-level": [dict(low="HF", olow=b631, sel=None), dict(low="CCSD", high="CCSD", olow=b631, ohigh=b631, sel=[0, 1, 2], links=[(0, 3, None, "H")])],
              "whole-system": [dict(low="HF", olow=b631, sel=None), dict(low="HF", high="CCSD", olow=b631, ohigh=b631, sel=None, links=[])],
              "two-models": [dict(low="HF", olow=b631, sel=None), dict(low="HF", high="FCI", olow=b631, ohigh={"basis": "6-31g", "frozen_orbitals": 1}, sel=[3, 4, 5], links=[(3, 0, 0.7, "H")]),
                             dict(low="HF", high="CCSD", olow=b631, ohigh=b631, sel=[6], links=[(6, 0, None, "H")])]}
    for nm_, frags_ in shared.items():
        out.append(Shape(f"oniom/shared-options/{nm_}", h_oniom, dict(geom=GEOM7, frags=frags_, share=True), modules=(HC, ONIOM)))
    out.append(Shape("canary/oniom/sign", h_oniom, dict(geom=GEOM7, frags=core[0][1], canary="sign"), modules=(HC, ONIOM), canary=True))
    out.append(Shape("canary/oniom/selection", h_oniom, dict(geom=GEOM7, frags=[sysHF, dict(low="HF", high="CCSD", sel=3, links=[])], canary="selection"),
                     modules=(HC, ONIOM), canary=True))
    # ---- (b) relink
    ghost = [("X", (0.3, -0.2, 0.1)), ("H", (1.0, 0.5, -0.4))]
    ghost2 = [["x", [0.0, 0.0, 0.0]], ["Cl", [0.0, 0.0, 1.7]]]
    species_forms = [("H", "H"), ("F", "F"), ("ghostH", ghost), ("ghostCl", ghost2)]
    pairs = list(itertools.permutations(range(4), 2))
    sel_pairs = pairs if thorough else [(0, 1), (1, 0), (2, 3), (3, 0), (1, 2), (3, 1)]
    for (st, lv) in sel_pairs:
        for tag, sp in (species_forms if thorough else species_forms[:1] + species_forms[2:3]):
            out.append(Shape(f"relink/{st}-{lv}/{tag}", h_relink, dict(n_atoms=4, staying=st, leaving=lv, species=sp), modules=M_RELINK))
    for tag, sp in species_forms[:1] + species_forms[3:]:
        out.append(Shape(f"relink/default-factor/{tag}", h_relink, dict(n_atoms=3, staying=2, leaving=0, species=sp, use_default_factor=True), modules=M_RELINK))
    out.append(Shape("relink/species", h_link_species, {}, modules=M_RELINK))
    out.append(Shape("canary/relink/factor", h_relink, dict(n_atoms=3, staying=0, leaving=1, species="H", canary=True), modules=M_RELINK, canary=True))
    # ---- (c) method of increments
    labelings = {1: [(0,), (3,)], 2: [(0, 1), (2, 11)], 3: [(0, 1, 2), (1, 4, 10)], 4: [(0, 1, 2, 3), (0, 2, 5, 11)]}
    for nc in (1, 2, 3, 4):
        for order in range(1, nc + 1):
            subsets = [idx for k in range(1, order + 1) for idx in itertools.combinations(range(nc), k)]
            full = tuple(range(nc))
            patterns = [[]]
            if thorough and nc <= 3:
                patterns = [list(c) for r in range(0, len(subsets) + 1) for c in itertools.combinations(subsets, r)]
            else:
                patterns.append([subsets[-1]])                       # highest one (the complete fragment when order == n)
                patterns.append([subsets[0]])
                patterns.append(list(subsets))
                for _ in range(150 if thorough else 4):
                    patterns.append(sorted(rnd.sample(subsets, rnd.randint(1, len(subsets)))))
            seen = set()
            for pi, pat in enumerate(patterns):
                key = tuple(pat)
                if key in seen:
                    continue
                seen.add(key)
                for li, cen in enumerate(labelings[nc] if thorough else labelings[nc][pi % 2:pi % 2 + 1]):
                    out.append(Shape(f"mi/n{nc}/order{order}/ov{pi}/lab{li}", h_mi,
                                     dict(centres=cen, order=order, overrides=pat, shuffle_seed=(pi * 7 + li) % 5, str_keys=bool((pi + li) % 2)),
                                     modules=(INCR,)))
    out.append(Shape("canary/mi/full", h_mi, dict(centres=(0, 1, 2), order=3, overrides=[], canary="full"), modules=(INCR,), canary=True))
    out.append(Shape("canary/mi/sign", h_mi, dict(centres=(0, 1, 2), order=2, overrides=[(0, 1)], canary="sign"), modules=(INCR,), canary=True))
    return out
