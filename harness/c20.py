"""C20  Fourier transform, state initialisation and phase estimation are exact."""
import itertools
import math
import random
from fractions import Fraction as F

from symx.core import Shape
from symx import fock, refsem as R
from symx.num import Sym, SymEscape

PROPERTY = "C20"
MODS = ("tangelo.toolboxes.ansatz_generator.ansatz_utils", "tangelo.linq.helpers.circuits.statevector",
        "tangelo.toolboxes.unitary_generator.trotter_suzuki", "tangelo.toolboxes.unitary_generator.unitary_circuit")
SHAPE_BUDGET = dict(quick=170, thorough=1100)

META = dict(
    explanation="(1) QFT: the gate list returned by the REAL get_qft_circuit (every ordered qubit list, swap on/off, inverse on/off, "
                "n_qubits given or not) is applied (documented gate matrices, symx.refsem) to a FULLY SYMBOLIC state of the whole "
                "register (2^n complex solver variables); the result equals, entry by entry, the discrete Fourier transform "
                "sum_x w^(+-xy)/sqrt(2^m) of the listed register with the first listed qubit least significant (exact roots of "
                "unity), idle qubits untouched; swap=False gives the same transform with the output register bit-reversed; "
                "inverse o forward = identity. (2) StateVector: amplitude vectors are given in hierarchical polar coordinates "
                "(magnitudes rho*cos/sin(eta_j) products, phases alpha_j; a surjective parameterisation of the non-zero vectors), "
                "the harness registers the exact cancellation rules sqrt(M^2)=M, arccos(cos eta)=eta, angle(M e^{iT})=T that hold "
                "in those coordinates, the REAL StateVector code (np.absolute, sqrt, arccos, np.angle, norm, multiplexor recursion) "
                "runs on the symbolic amplitudes and the solver-explored branches (norm(phis)!=0, norm(thetas)!=0); "
                "initializing_circuit|0..0> * e^{i phase} equals the normalised vector entry-wise and uncomputing_circuit maps the "
                "vector to e^{-i phase}|0..0>, for both qubit orders. Zero amplitudes / equal phases / constant phases are separate "
                "shapes (enumerated patterns, symbolic magnitudes). (3) QPE / iterative QPE: solvers are built through the public "
                "API (QPESolver / IterativeQPESolver .build()) for Hamiltonians whose eigenphase on the chosen eigenvector is "
                "m/2^k; the circuit is evaluated in exact arithmetic on a SYMBOLIC vector of the eigenspace where the eigenspace is "
                "degenerate; the outcome distribution puts probability exactly 1 on the bits of m and the solver's "
                "energy_estimation of that bitstring is m/2^k. For the iterative solver the measurement-controlled feedback is "
                "followed for EVERY outcome string through the real IterativeQPEControl (tangelo.linq.generate_applied_gates) "
                "with exact projections.",
    bounds=dict(
        quick="QFT: all ordered lists of <=3 distinct qubits inside width 4 plus a seeded sample in width 5, int form; "
              "StateVector: 1 qubit (general interior + all boundary cases), 2 qubits (general interior 8 parameters, constant-phase "
              "and zero patterns), 3 qubits sparse/real patterns with <=3 symbolic coordinates; QPE/iQPE: register 1-3 bits, every "
              "m, Z-type / identity-shifted / commuting non-diagonal Hamiltonians on 1-2 state qubits, Trotter (order 1,2, "
              "time/repeat) and CircuitUnitary (all/variational)",
        thorough="QFT: all ordered lists of <=4 distinct qubits inside width 5; StateVector adds 3-qubit families with more symbolic "
                 "coordinates; QPE/iQPE the same families with all (k, m) combinations x options"),
    outside=["IEEE rounding", "vectors with a non-zero amplitude below 2.2e-16 relative scale (the code's eps test; magnitudes are taken in "
             "[1/4, 4])", "phases are taken in (-pi, pi]; magnitudes' mixing angles in (0, pi/2) for 'interior' shapes, boundaries as "
             "separate shapes", "QPE on non-eigenstates / non-representable phases (no certainty claimed by the property)",
             "the simulators (Backend.simulate): the circuits are evaluated by symx.refsem; one concrete end-to-end run per QPE shape "
             "through the installed cirq backend is an auxiliary float check, not part of the solver claim",
             "QPE Hamiltonians are concrete (phases must be exactly representable); only the eigenvector inside a degenerate "
             "eigenspace and nothing else is symbolic there: the QPE part is exhaustive enumeration over (k, m, family) with "
             "exact arithmetic"],
    stubs=[], trusted_base=["documented gate matrices in symx.refsem", "cancellation rules for sqrt/arccos/angle declared by the harness "
                            "(valid in the stated coordinate ranges)", "tangelo.linq.generate_applied_gates for unrolling the "
                            "measurement-controlled iQPE circuit"],
)


def preload():
    import tangelo.toolboxes.ansatz_generator.ansatz_utils  # noqa
    import tangelo.linq.helpers.circuits.statevector  # noqa
    import tangelo.algorithms.projective.qpe  # noqa
    import tangelo.algorithms.projective.iqpe  # noqa


# ------------------------------------------------------------------ exact constants
def root_of_unity(k, M):
    """exp(2 pi i k / M), M a power of two <= 128"""
    if R.EXACT:
        from symx.num import Poly, N
        assert (2 * N) % M == 0
        return Sym(Poly.w((k % M) * (2 * N // M)))
    return complex(math.cos(2 * math.pi * k / M), math.sin(2 * math.pi * k / M))


def inv_sqrt_pow2(m):
    """2^(-m/2)"""
    out = R.C(1)
    for _ in range(m // 2):
        out = out * R.C(F(1, 2)) if R.EXACT else out * 0.5
    if m % 2:
        out = out * R.rsqrt2()
    return out


def _bit(idx, q, n):
    return (idx >> (n - 1 - q)) & 1


# ------------------------------------------------------------------ (1) QFT
def dft_oracle(psi, n, qlist, inverse, bit_reversed_output):
    """discrete Fourier transform of the register qlist (qlist[0] least significant) inside an n-qubit state"""
    m = len(qlist)
    M = 2 ** m
    sgn = -1 if inverse else 1
    norm = inv_sqrt_pow2(m)
    out = [R.ZERO() for _ in psi]
    others_mask = sum(1 << (n - 1 - q) for q in range(n) if q not in qlist)
    for idx_in, a in enumerate(psi):
        x = sum(_bit(idx_in, q, n) << j for j, q in enumerate(qlist))
        base = idx_in & others_mask
        for y in range(M):
            idx_out = base
            for j, q in enumerate(qlist):
                src = j if not bit_reversed_output else m - 1 - j
                # forward transform without swap: value bit j of y sits on the mirrored qubit;
                if (y >> src) & 1:
                    idx_out |= 1 << (n - 1 - q)
            out[idx_out] = out[idx_out] + norm * root_of_unity(sgn * x * y, M) * a
    return out


def h_qft(env, n, qlist, inverse, swap, give_n, as_int=False, canary=False):
    from tangelo.toolboxes.ansatz_generator.ansatz_utils import get_qft_circuit
    arg = len(qlist) if as_int else list(qlist)
    circ = get_qft_circuit(arg, n_qubits=n if give_n else None, inverse=inverse, swap=swap)
    env.check_true(circ.width <= n, "QFT circuit stays inside the register")
    sup = set(qlist)
    env.check_true(all(set(g.target) | set(g.control or []) <= sup for g in circ._gates), "QFT gates act on listed qubits only")
    psi = env.state(n, "psi")
    got = R.run_gates(circ._gates, n, psi)
    ql = list(qlist)
    if canary:
        ql = ql[::-1] if len(ql) > 1 else ql
    # without the swap the forward transform leaves y bit-reversed on the register; the inverse without swap
    # EXPECTS its input bit-reversed (it is the adjoint of the forward no-swap circuit)
    if inverse and not swap:
        # adjoint of (bit reversal o DFT) = DFT^dagger o bit reversal: reverse the input register, then inverse DFT
        rev = list(range(len(psi)))
        src = []
        for idx in range(len(psi)):
            j = idx
            bits = [_bit(idx, q, n) for q in ql]
            for q, b in zip(ql, bits[::-1]):
                j = (j & ~(1 << (n - 1 - q))) | (b << (n - 1 - q))
            src.append(j)
        psi_in = [psi[src[idx]] for idx in range(len(psi))]
        want = dft_oracle(psi_in, n, ql, True, False)
    else:
        want = dft_oracle(psi, n, ql, inverse, bit_reversed_output=not swap)
    if canary and len(ql) == 1:
        want = dft_oracle(psi, n, ql, inverse, False)
        want = [-x for x in want]
    env.check_vec_eq(got, want, f"get_qft_circuit({arg}, inverse={inverse}, swap={swap}) == DFT of the register (first listed qubit least significant)")
    # inverse o forward = identity (same options)
    back = get_qft_circuit(arg, n_qubits=n if give_n else None, inverse=not inverse, swap=swap)
    env.check_vec_eq(R.run_gates(back._gates, n, got), psi, "QFT followed by the opposite transform is the identity")


# ------------------------------------------------------------------ (2) StateVector
class Node:
    """subtree of the amplitude vector in hierarchical polar coordinates: value M * exp(i T) is what remains of the
    subtree once its qubits are disentangled"""
    def __init__(self, M, T, leaves, zero=False):
        self.M, self.T, self.leaves, self.zero = M, T, leaves, zero


def _S(x):
    return x if isinstance(x, Sym) else Sym.of(x)


def _declare(env, node):
    """cancellation rules valid for value = M e^{iT}, M > 0, T in (-pi, pi]"""
    if not env.symbolic or node.zero:
        return
    from symx import path
    M, T = _S(node.M), _S(node.T)
    val = M * R.n_cis(T)
    if M.p.variables():
        path.declare_root((M * M).p, M.p)
        path.declare_root((val * val.conjugate()).p, M.p)
    if T.p.variables() or M.p.variables():
        path.declare_angle(val.p, T.p)


def polar_vector(env, spec, name="v"):
    """spec: nested description of the amplitude tree.
       leaf: ("z",) exact zero | ("c", k) magnitude * exp(i k pi/4) constant phase | ("s",) symbolic phase | ("e", j) phase equal
       to the symbolic phase number j (shared variable);
       internal: (mode, left, right) with mode "g" generic mixing angle in (0, pi/2), "l"/"r" only the left/right child non-zero,
       "h" equal magnitudes (eta = pi/4).
       Returns (amplitudes, rho, root node).  The overall magnitude rho is a symbolic number in [1/4, 4]."""
    counter = {"eta": 0, "ph": 0}
    shared = {}
    rho = env.real(f"{name}.rho", lo=0.25, hi=4)

    def phase_var(tag=None):
        if tag is not None and tag in shared:
            return shared[tag]
        i = counter["ph"]
        counter["ph"] += 1
        a = env.real(f"{name}.ph{i}", lo=-3.14159265, hi=3.14159265)
        if tag is not None:
            shared[tag] = a
        return a

    def n_leaves(sp):
        return 1 if sp[0] in ("z", "c", "s", "e") else n_leaves(sp[1]) + n_leaves(sp[2])

    def build(sp, M):
        kind = sp[0]
        if M is None:
            return Node(0, 0, [R.ZERO() if env.symbolic else 0.0 for _ in range(n_leaves(sp))], zero=True)
        if kind == "z":
            return Node(0, 0, [R.ZERO() if env.symbolic else 0.0], zero=True)
        if kind in ("c", "s", "e"):
            if kind == "c":
                if env.symbolic:
                    from symx import num
                    T = num.sym_pi() * F(sp[1], 4)
                else:
                    T = math.pi * sp[1] / 4
            elif kind == "s":
                T = phase_var()
            else:
                T = phase_var(("e", sp[1]))
            nd = Node(M, T, [M * R.n_cis(T)])
            _declare(env, nd)
            return nd
        mode, lsp, rsp = sp
        if mode == "g":
            i = counter["eta"]
            counter["eta"] += 1
            eta = env.real(f"{name}.eta{i}", lo=1e-6, hi=1.5707953)
            c, s_ = R.n_cos(eta), R.n_sin(eta)
            # facts that follow from 0 < eta < pi/2 (the solver does not link an angle's value to its cosine)
            env.assume(c > 0, "")
            env.assume(s_ > 0, "")
            Ml, Mr = M * c, M * s_
            if env.symbolic:
                from symx import path
                path.declare_arccos(_S(c).p, _S(eta).p)
                path.declare_arccos((_S(Ml) / _S(M)).p, _S(eta).p)      # the ratio as the code forms it (M may be a sum)
        elif mode == "h":
            Ml = Mr = M * R.rsqrt2()
            if env.symbolic:
                from symx import num, path
                path.declare_arccos(_S(R.rsqrt2()).p, (num.sym_pi() * F(1, 4)).p)
                path.declare_arccos((_S(Ml) / _S(M)).p, (num.sym_pi() * F(1, 4)).p)
        elif mode == "l":
            Ml, Mr = M, None
            if env.symbolic and _S(M).p.variables():
                from symx import path
                from symx.num import Poly
                path.declare_arccos((_S(M) / _S(M)).p, Poly())
        elif mode == "r":
            Ml, Mr = None, M
        else:
            raise KeyError(mode)
        L = build(lsp, Ml) if Ml is not None else build(_zero_like(lsp), None)
        Rr = build(rsp, Mr) if Mr is not None else build(_zero_like(rsp), None)
        if L.zero and Rr.zero:
            return Node(0, 0, L.leaves + Rr.leaves, zero=True)
        TL = 0 if L.zero else L.T
        TR = 0 if Rr.zero else Rr.T
        if env.symbolic:
            d = _S(TL) - _S(TR)
            if d.p.variables() - {__import__("symx.num", fromlist=["x"]).ctx().pi}:
                # generic case: the two phases differ (equal phases are separate shapes with a shared variable)
                env.assume(_S(TL) != _S(TR), "")
        nd = Node(M, (TL + TR) / 2, L.leaves + Rr.leaves)
        _declare(env, nd)
        return nd

    root = build(spec, rho)
    return root.leaves, rho, root


def _zero_like(sp):
    if sp[0] in ("z", "c", "s", "e"):
        return ("z",)
    return (sp[0], _zero_like(sp[1]), _zero_like(sp[2]))


def h_statevector(env, spec, order, canary=False):
    from tangelo.linq.helpers.circuits.statevector import StateVector
    amps, rho, root = polar_vector(env, spec)
    nq = int(math.log2(len(amps)))
    coeffs = list(amps)
    sv = StateVector(coeffs, order=order)
    init, ph_i = sv.initializing_circuit(return_phase=True)
    unc, ph_u = sv.uncomputing_circuit(return_phase=True)
    inv_rho = 1 / rho
    target = [a * inv_rho for a in amps]
    # index convention of the vector: msq_first = qubit 0 is the LEAST significant index bit
    if order == "msq_first":
        def conv(i):
            return int(format(i, f"0{nq}b")[::-1], 2)
    else:
        def conv(i):
            return i
    want = [None] * len(target)
    for i, a in enumerate(target):
        want[conv(i)] = a               # refsem index (qubit 0 = most significant bit)
    env.check_true(init.width <= nq and unc.width <= nq, "StateVector circuits stay inside the register")
    got = R.run_gates(init._gates, nq)
    phase = R.n_cis(ph_i)
    if canary:
        phase = phase * R.n_cis(R.C(math.pi) / 2 if env.symbolic else math.pi / 2)
    env.check_vec_eq([phase * g for g in got], want,
                     f"initializing_circuit|0> * exp(i phase) == normalised vector ({order})")
    back = R.run_gates(unc._gates, nq, want)
    e0 = R.basis_state(nq, 0)
    env.check_vec_eq([R.n_cis(ph_u) * b for b in back], e0, f"uncomputing_circuit maps the vector to |0..0> (phase included) ({order})")


# ------------------------------------------------------------------ (3) QPE
def _qop(terms):
    from tangelo.toolboxes.operators import QubitOperator
    op = QubitOperator()
    for w, c in terms:
        op += QubitOperator(w, c)
    return op


def families(k):
    """(name, terms as function of phase phi=m/2^k, n_state, eigenspace basis (list of exact vectors), time) ;
    U = exp(-i H t) has eigenphase exp(2 pi i phi) on the eigenspace"""
    s2 = None
    fams = []
    # Z0 with time -2 pi: eigenvalue +c on |0>
    fams.append(("Z0", lambda phi: [("Z0", phi)], 1, [[1, 0]], -2 * math.pi))
    # identity-shifted: H = phi/2 * (I - Z0): eigenvalue phi on |1>
    fams.append(("I-Z0", lambda phi: [("", phi / 2), ("Z0", -phi / 2)], 1, [[0, 1]], -2 * math.pi))
    # two commuting diagonal terms, degenerate eigenspace span{|00>,|11>} of Z0Z1 (= +1), eigenvalue phi
    fams.append(("Z0Z1", lambda phi: [("Z0 Z1", phi)], 2, [[1, 0, 0, 0], [0, 0, 0, 1]], -2 * math.pi))
    # non-diagonal commuting: H = a X0X1 + b Z0Z1 on Bell state (|00>+|11>)/sqrt2 : eigenvalue a+b ; a = b = phi/2
    fams.append(("X0X1+Z0Z1", lambda phi: [("X0 X1", phi / 2), ("Z0 Z1", phi / 2)], 2, ["bell+"], -2 * math.pi))
    # positive time: eigenphase = -E t / 2 pi ; H = -phi Z0 on |0>, t = +2 pi
    fams.append(("-Z0,t>0", lambda phi: [("Z0", -phi)], 1, [[1, 0]], 2 * math.pi))
    # Y-type (RX basis changes under control): H = phi Y0 on (|0> + i|1>)/sqrt2
    fams.append(("Y0", lambda phi: [("Y0", phi)], 1, ["y+"], -2 * math.pi))
    # two single-qubit terms, eigenvalue phi on |00>, and the same operator on |11> (eigenvalue -phi) with positive time
    fams.append(("Z0+Z1", lambda phi: [("Z0", phi / 2), ("Z1", phi / 2)], 2, [[1, 0, 0, 0]], -2 * math.pi))
    fams.append(("Z0+Z1|11>", lambda phi: [("Z0", phi / 2), ("Z1", phi / 2)], 2, [[0, 0, 0, 1]], 2 * math.pi))
    # degenerate eigenspace of a non-diagonal operator: X0X1 = +1 on span{(|00>+|11>)/sqrt2, (|01>+|10>)/sqrt2}
    fams.append(("X0X1", lambda phi: [("X0 X1", phi)], 2, ["xx+"], -2 * math.pi))
    # Hamiltonians that leave a qubit BELOW their highest index untouched (the state register is still 0 .. highest index):
    # idle qubit 0, eigenspace Z1 = +1 = span{|00>, |10>};  gap at qubit 1, eigenvectors |000>, |010> of Z0 Z2 = +1
    fams.append(("Z1-idle0", lambda phi: [("Z1", phi)], 2, [[1, 0, 0, 0], [0, 0, 1, 0]], -2 * math.pi))
    fams.append(("Z0Z2-gap1", lambda phi: [("Z0 Z2", phi)], 3, [[1, 0, 0, 0, 0, 0, 0, 0], [0, 0, 1, 0, 0, 0, 0, 0]], -2 * math.pi))
    return fams


def eigenvector(env, basis, n_state, tag="c"):
    """symbolic vector of the eigenspace (normalised through the assumption |c|^2 sum = 1)"""
    if basis == ["bell+"]:
        r = R.rsqrt2()
        return [r, R.ZERO(), R.ZERO(), r]
    if basis == ["y+"]:
        r = R.rsqrt2()
        return [r, R.IMAG() * r]
    if basis == ["xx+"]:
        r = R.rsqrt2()
        c0, c1 = env.state(1, tag, normalized=True)
        return [c0 * r, c1 * r, c1 * r, c0 * r]
    if len(basis) == 1:
        return [R.C(x) if env.symbolic else complex(x) for x in basis[0]]
    cs = env.state(int(math.log2(len(basis))) if len(basis) > 1 else 0, tag, normalized=True)
    out = [R.ZERO() if env.symbolic else 0j for _ in basis[0]]
    for c, b in zip(cs, basis):
        out = [o + c * x for o, x in zip(out, b)]
    return out


def _unitary_options(kind):
    if kind == "trotter1":
        return dict(trotter_order=1, n_trotter_steps=1, n_steps_method="time")
    if kind == "trotter2r":
        return dict(trotter_order=2, n_trotter_steps=1, n_steps_method="repeat")
    if kind == "trotter1s2":
        return dict(trotter_order=1, n_trotter_steps=2, n_steps_method="repeat")
    raise KeyError(kind)


def _solver_options(fam_terms, time, ukind, k):
    from tangelo.toolboxes.ansatz_generator.ansatz_utils import trotterize
    ham = _qop(fam_terms)
    opts = {"size_qpe_register": k, "backend_options": {"target": "cirq", "n_shots": None}}
    if ukind.startswith("trotter"):
        uo = _unitary_options(ukind)
        uo["time"] = time
        opts.update({"qubit_hamiltonian": ham, "unitary_options": uo})
    else:
        # user circuit: the (variational-flagged) Trotter circuit of the same evolution
        circ = trotterize(ham, time, 1, 1, True)
        opts.update({"unitary": circ, "unitary_options": {"control_method": "all" if ukind == "circuit-all" else "variational"}})
    return opts


def h_qpe_reuse(env, fam, k, m):
    """ONE TrotterSuzukiUnitary object handed to two QPESolvers with different register sizes (k, then k+1): the second
    solver's read-out is certain and gives the same phase (m/2^k = 2m/2^(k+1))"""
    from tangelo.algorithms.projective.qpe import QPESolver
    from tangelo.toolboxes.unitary_generator import TrotterSuzukiUnitary
    name, terms_of, n_state, basis, time = next(f for f in families(k) if f[0] == fam)
    phi = m / 2 ** k if m else 1.0
    u = TrotterSuzukiUnitary(_qop(terms_of(phi)), time=time, trotter_order=1, n_trotter_steps=1, n_steps_method="repeat")
    vec = eigenvector(env, basis, n_state)
    for kk, want_m in ((k, m), (k + 1, 2 * m)):
        solver = QPESolver({"size_qpe_register": kk, "unitary": u, "backend_options": {"target": "cirq", "n_shots": None}})
        solver.build()
        circ = solver.circuit
        n = max(circ.width, n_state + kk)
        st = [R.ZERO() for _ in range(2 ** n)]
        for i, a in enumerate(vec):
            st[i << (n - n_state)] = a
        out = R.run_gates(circ._gates, n, st)
        probs = {}
        for idx, a in enumerate(out):
            bits = format(idx, f"0{n}b")[n_state:n_state + kk]
            probs[bits] = probs.get(bits, R.ZERO()) + a * R.n_conj(a)
        want_bits = format(want_m, f"0{kk}b")
        for bits, p in sorted(probs.items()):
            env.check_eq(p, 1 if bits == want_bits else 0,
                         f"QPE[{fam}] with a shared TrotterSuzukiUnitary object, register of {kk} qubits: probability of outcome {bits} for phase {m}/2^{k}")


def h_refstate(env, which, mapping, utd, occs):
    """ref_state given as an OCCUPATION LIST (documented alternative to a Circuit) with the documented options qubit_mapping and
    up_then_down: the reference circuit the solver builds prepares the basis state on which, for every spin-orbital p of the
    caller's (alternating) ordering, the mapped number operator n_p has eigenvalue occ[p] - the state whose eigenphase the
    caller asked for. Decided on the real QPESolver / IterativeQPESolver constructors and build(); the operator-side reference is
    fermion_to_qubit_mapping with the same options (its agreement with the state encoders is property C05), plus, for JW, the
    plain re-ordering of the occupation list."""
    from tangelo.algorithms.projective.qpe import QPESolver
    from tangelo.algorithms.projective.iqpe import IterativeQPESolver
    from tangelo.toolboxes.operators import FermionOperator
    from tangelo.toolboxes.qubit_mappings.mapping_transform import fermion_to_qubit_mapping
    cls = QPESolver if which == "qpe" else IterativeQPESolver
    for occ in occs:
        n_so = len(occ)
        ne = sum(occ)
        # a diagonal Hamiltonian with distinct dyadic orbital energies: every occupation pattern has its own eigenphase
        hf = FermionOperator()
        for p_ in range(n_so):
            hf += FermionOperator(((p_, 1), (p_, 0)), 1.0 / 2 ** (p_ + 1))
        qh = fermion_to_qubit_mapping(hf, mapping, n_spinorbitals=n_so, n_electrons=ne, up_then_down=utd, spin=0)
        opts = {"qubit_hamiltonian": qh, "size_qpe_register": 2, "qubit_mapping": mapping, "up_then_down": utd, "ref_state": list(occ),
                "unitary_options": dict(time=-2 * math.pi, trotter_order=1, n_trotter_steps=1, n_steps_method="repeat"),
                "backend_options": {"target": "cirq", "n_shots": None if which == "qpe" else 1}}
        solver = cls(opts)
        solver.build()
        rc = solver.reference_circuit
        n = n_so
        env.check_true(rc.width <= n, f"{which}[{mapping}, up_then_down={utd}] reference circuit for {occ} acts on the state qubits only", detail=str(rc.width))
        st = R.run_gates(rc._gates, n, R.basis_state(n, 0))
        for p_ in range(n_so):
            qn = fermion_to_qubit_mapping(FermionOperator(((p_, 1), (p_, 0)), 1.0), mapping, n_spinorbitals=n_so, n_electrons=ne, up_then_down=utd, spin=0)
            out = R.apply_qubit_operator(st, n, dict(qn.terms))
            env.check_vec_eq(out, [a * occ[p_] for a in st],
                             f"{which}[{mapping}, up_then_down={utd}] ref_state={list(occ)}: prepared state is an eigenstate of mapped n_{p_} with eigenvalue {occ[p_]}")
        if mapping == "jw":
            bits = fock.reorder_vector(list(occ)) if utd else list(occ)
            env.check_vec_eq(st, R.basis_state(n, int("".join(map(str, bits)), 2)),
                             f"{which}[jw, up_then_down={utd}] ref_state={list(occ)}: prepared basis state is |{''.join(map(str, bits))}>")


def h_qft_structure(env, n, swap):
    """registers too long for a state-level comparison (enumerated, structural): the circuit of get_qft_circuit on n qubits
    holds one H per qubit, exactly one controlled phase per qubit pair with |angle| = pi/2^d for list distance d (none dropped,
    however small), n//2 swaps iff requested; the inverse option gives the reversed gate list with negated angles"""
    import math
    from symx import shim
    from tangelo.toolboxes.ansatz_generator.ansatz_utils import get_qft_circuit
    qs = list(range(n))
    with shim.concrete_mode():
        fwd = get_qft_circuit(qs, inverse=False, swap=swap)
        inv = get_qft_circuit(qs, inverse=True, swap=swap)
    names = [g.name for g in fwd._gates]
    env.check_same(names.count("H"), n, f"QFT on {n} qubits: one H per qubit")
    env.check_same(names.count("SWAP"), (n // 2 if swap else 0), f"QFT on {n} qubits: number of swaps")
    pairs = {}
    for g in fwd._gates:
        if g.name == "CPHASE":
            key = tuple(sorted((g.target[0], g.control[0])))
            pairs.setdefault(key, []).append(float(g.parameter))
    want = {(i, j) for i in range(n) for j in range(i + 1, n)}
    env.check_same(sorted(pairs), sorted(want), f"QFT on {n} qubits: exactly one controlled phase for every qubit pair (none dropped)")
    bad = [(k, v) for k, v in pairs.items() if len(v) != 1 or abs(abs(v[0]) - math.pi / 2 ** (k[1] - k[0])) > 1e-15 * math.pi]
    env.check_true(not bad, f"QFT on {n} qubits: |angle| of the pair (i, j) is pi/2^(j-i)", detail=str(bad[:3]))
    sig = lambda c: [(g.name, tuple(g.target), tuple(g.control or ()), (round(float(g.parameter), 15) if g.name == "CPHASE" else None)) for g in c._gates]  # noqa
    neg = [(a, b, c_, (-p if p is not None else None)) for a, b, c_, p in reversed(sig(fwd))]
    rot = lambda L: [x for x in L if x[0] != "SWAP"]  # noqa
    swp = lambda L: sorted(tuple(sorted(x[1])) for x in L if x[0] == "SWAP")  # noqa
    got = sig(inv)
    env.check_same(rot(got), rot(neg), f"QFT on {n} qubits: inverse=True has the reversed rotation list with negated angles")
    env.check_same(swp(got), swp(neg), f"QFT on {n} qubits: inverse=True has the same (mutually commuting) swaps")
    n_sw = len(swp(got))
    env.check_true(all(x[0] == "SWAP" for x in got[:n_sw]) and all(x[0] == "SWAP" for x in sig(fwd)[len(sig(fwd)) - n_sw:]),
                   "swaps come last in the forward and first in the inverse circuit")


def h_sv_order_keyword(env):
    """order keywords other than the two documented spellings: refused, or honoured with the meaning of their lower-case form"""
    from tangelo.linq.helpers.circuits.statevector import StateVector
    v = [0.5, 0.5j, -0.5, 0.5]          # not symmetric under exchanging the two qubits
    ref = {}
    for o in ("lsq_first", "msq_first"):
        c = StateVector(v, order=o).initializing_circuit()
        ref[o] = [R.C(x) for x in R.run_gates(c._gates, 2)]
    for kw_ in ("LSQ_FIRST", "Lsq_first", "MSQ_FIRST", "lsq", "msq_first "):
        try:
            c = StateVector(v, order=kw_).initializing_circuit()
        except Exception:       # noqa
            env.check_true(True, f"order={kw_!r} refused")
            continue
        low = kw_.lower()
        env.check_true(low in ref, f"order={kw_!r} accepted although it is not a documented keyword in any letter case")
        if low in ref:
            env.check_vec_eq_up_to_phase([R.C(x) for x in R.run_gates(c._gates, 2)], ref[low],
                                         f"order={kw_!r} accepted: prepares the state of order={low!r}")


def h_qpe(env, fam, k, m, ukind, canary=False):
    from tangelo.algorithms.projective.qpe import QPESolver
    name, terms_of, n_state, basis, time = next(f for f in families(k) if f[0] == fam)
    phi = m / 2 ** k if m else 1.0          # eigenphase 0 is realised by the eigenvalue 1 (a zero Hamiltonian has no qubits)
    opts = _solver_options(terms_of(phi), time, ukind, k)
    solver = QPESolver(opts)
    solver.build()
    first = [(g.name, tuple(g.target), tuple(g.control or ()), g.parameter) for g in solver.circuit._gates]
    # build() may be called again (e.g. after changing an option): the circuit is rebuilt, not extended
    solver.build()
    circ = solver.circuit
    env.check_same(len(circ._gates), len(first), "QPESolver.build() called a second time gives a circuit of the same size")
    n = max(circ.width, n_state + k)
    env.check_same(sorted(solver.qpe_qubit_list), list(range(n_state, n_state + k)), "QPE register directly above the state qubits")
    vec = eigenvector(env, basis, n_state)
    # |eigenvector> (x) |0..0> register : state qubits are the first n_state qubits = most significant index bits
    st = [R.ZERO() for _ in range(2 ** n)]
    for i, a in enumerate(vec):
        st[i << (n - n_state)] = a
    out = R.run_gates(circ._gates, n, st)
    # marginal distribution of the register (qubits n_state .. n-1, in qubit order = Histogram after removing state qubits)
    probs = {}
    for idx, a in enumerate(out):
        bits = format(idx, f"0{n}b")[n_state:n_state + k]
        probs[bits] = probs.get(bits, R.ZERO()) + a * R.n_conj(a)
    want_m = (m + 1) % 2 ** k if canary else m
    want_bits = format(want_m, f"0{k}b")
    for bits, p in sorted(probs.items()):
        env.check_eq(p, 1 if bits == want_bits else 0, f"QPE[{fam},{ukind}] probability of register outcome {bits} for phase {m}/2^{k}")
    env.check_eq(solver.energy_estimation(want_bits), want_m / 2 ** k, "QPESolver.energy_estimation(bits of m) == m/2^k")
    if hasattr(solver.unitary, "qubit_indices") and ukind.startswith("trotter"):
        sq, anc = solver.unitary.qubit_indices()
        env.check_same((sorted(sq), list(anc)), (list(range(n_state)), []),
                       "the unitary reports qubits 0 .. (highest index of H) as its state register (idle qubits included), no ancilla")
    if not canary and isinstance(basis[0], list):
        # auxiliary concrete end-to-end run through the installed simulator (floats)
        from tangelo.linq import Circuit, Gate
        ref = Circuit([Gate("X", q) for q, b in enumerate(format(basis[0].index(1), f"0{n_state}b")) if b == "1"], n_qubits=n_state)
        s2 = QPESolver(dict(_solver_options(terms_of(phi), time, ukind, k), ref_state=ref))
        s2.build()
        e = s2.simulate()
        env.check_true(abs(e - m / 2 ** k) < 1e-9, "QPESolver.simulate() (cirq backend, floats) returns m/2^k", f"got {e}")


def h_iqpe(env, fam, k, m, ukind, canary=False):
    from tangelo.algorithms.projective.iqpe import IterativeQPESolver
    from tangelo.linq import generate_applied_gates
    name, terms_of, n_state, basis, time = next(f for f in families(k) if f[0] == fam)
    phi = m / 2 ** k if m else 1.0
    opts = _solver_options(terms_of(phi), time, ukind, k)
    opts["backend_options"] = {"target": "cirq", "n_shots": 1}
    solver = IterativeQPESolver(opts)
    solver.build()
    n = n_state + 1
    env.check_same(solver.qft_qubit, n_state, "iQPE ancilla directly above the state qubits")
    vec = eigenvector(env, basis, n_state)
    total = R.ZERO()
    want_m = (m + 1) % 2 ** k if canary else m
    for outcome in itertools.product("01", repeat=k):
        # first CMEASURE is the documented dummy measurement of the fresh ancilla (always 0)
        meas = "0" + "".join(outcome)
        gates = generate_applied_gates(solver.circuit, desired_meas_result=meas)
        st = [R.ZERO() for _ in range(2 ** n)]
        for i, a in enumerate(vec):
            st[i << 1] = a
        for g in gates:
            if g.name in ("CMEASURE", "MEASURE"):
                st, _ = R.project(st, n, g.target[0], int(g.parameter))
            else:
                st = R.apply_gate(st, n, g.name, g.target, g.control, g.parameter if g.parameter != "" else None)
        p = R.ZERO()
        for a in st:
            p = p + a * R.n_conj(a)
        # solver's conversion: measured bits (least significant first) reversed -> bitstring -> energy
        bitstring = "".join(outcome)[::-1]
        val = solver.energy_estimation(bitstring)
        env.check_eq(p, 1 if abs(val - want_m / 2 ** k) < 1e-12 else 0,
                     f"iQPE[{fam},{ukind}] probability of the outcome string {''.join(outcome)} (energy {val}) for phase {m}/2^{k}")
        total = total + p
    env.check_eq(total, 1, "iQPE outcome probabilities sum to 1")
    # several shots reuse ONE classical-control object: after finalize() a run must produce exactly the gates of a fresh object
    import copy as _copy

    def protocol(ctl, bits):
        seq = [ctl.return_gates("0")]
        for b_ in bits:
            seq.append(ctl.return_gates(b_))
        ctl.finalize()
        return [(g.name, tuple(g.target), tuple(g.control or ()), g.parameter if isinstance(g.parameter, str) else round(float(g.parameter), 12))
                for gs in seq for g in gs]
    ctl0 = solver.circuit._cmeasure_control
    for first in ("1" * k, "0" * k):
        for outcome in itertools.product("01", repeat=k):
            bits = "".join(outcome)
            fresh = protocol(_copy.deepcopy(ctl0), bits)
            used_ctl = _copy.deepcopy(ctl0)
            protocol(used_ctl, first)
            env.check_same(protocol(used_ctl, bits), fresh, f"iQPE control: run for outcomes {bits} after a finalized run with outcomes {first} == run of a fresh control object")
            env.check_same(used_ctl.measurements[1], bits, "iQPE control: second run records its own measurements")
    # the dummy first measurement cannot give 1
    gates = generate_applied_gates(solver.circuit, desired_meas_result="1" + "0" * k)
    st = [R.ZERO() for _ in range(2 ** n)]
    for i, a in enumerate(vec):
        st[i << 1] = a
    for g in gates[:next(i for i, g in enumerate(gates) if g.name == "CMEASURE") + 1]:
        if g.name == "CMEASURE":
            st, p1 = R.project(st, n, g.target[0], 1)
        else:
            st = R.apply_gate(st, n, g.name, g.target, g.control, g.parameter if g.parameter != "" else None)
    env.check_eq(p1, 0, "iQPE: the initial measurement of the ancilla gives 0 with certainty")


# ------------------------------------------------------------------ shapes
G, H_, L, RR = "g", "h", "l", "r"
S_, Z_ = ("s",), ("z",)


def c_(k):
    return ("c", k)


def sv_specs(tier):
    """(name, spec)"""
    out = []
    # 1 qubit
    out += [("1q/general", (G, S_, S_)), ("1q/equal-phases", (G, ("e", 0), ("e", 0))), ("1q/real++", (G, c_(0), c_(0))),
            ("1q/real+-", (G, c_(0), c_(4))), ("1q/real-+", (G, c_(4), c_(0))), ("1q/imag", (G, c_(2), c_(-2))),
            ("1q/only-a", (L, S_, Z_)), ("1q/only-b", (RR, Z_, S_)), ("1q/basis0", (L, c_(0), Z_)),
            ("1q/basis1", (RR, Z_, c_(0))), ("1q/minus1", (RR, Z_, c_(4))), ("1q/hadamard", (H_, c_(0), c_(0))),
            ("1q/h-minus", (H_, c_(0), c_(4))), ("1q/h-i", (H_, c_(0), c_(2))), ("1q/h-sym", (H_, S_, c_(1)))]
    # 2 qubits
    g2 = (G, (G, S_, S_), (G, S_, S_))
    out += [("2q/general", g2),
            ("2q/real-positive", (G, (G, c_(0), c_(0)), (G, c_(0), c_(0)))),
            ("2q/real-signs", (G, (G, c_(0), c_(4)), (G, c_(4), c_(0)))),
            ("2q/const-phases", (G, (G, c_(1), c_(-2)), (G, c_(3), c_(4)))),
            ("2q/product-equal-phases", (G, (G, ("e", 0), ("e", 0)), (G, ("e", 1), ("e", 1)))),
            ("2q/left-only", (L, (G, S_, S_), (G, Z_, Z_))),
            ("2q/right-only", (RR, (G, Z_, Z_), (G, S_, S_))),
            ("2q/bell", (H_, (L, c_(0), Z_), (RR, Z_, c_(0)))),
            ("2q/bell-minus", (H_, (L, c_(0), Z_), (RR, Z_, c_(4)))),
            ("2q/sparse-03", (G, (L, S_, Z_), (RR, Z_, S_))),
            ("2q/sparse-12", (G, (RR, Z_, S_), (L, S_, Z_))),
            ("2q/basis-2", (RR, (G, Z_, Z_), (L, c_(0), Z_))),
            ("2q/basis-3-i", (RR, (G, Z_, Z_), (RR, Z_, c_(2)))),
            ("2q/three-nonzero", (G, (G, S_, c_(0)), (L, c_(4), Z_))),
            ("2q/uniform", (H_, (H_, c_(0), c_(0)), (H_, c_(0), c_(0)))),
            ("2q/uniform-phases", (H_, (H_, c_(0), c_(2)), (H_, c_(4), c_(-2))))]
    # 3 qubits: few symbolic coordinates
    z2 = (G, (G, Z_, Z_), (G, Z_, Z_))
    out += [("3q/ghz", (H_, (L, (L, c_(0), Z_), (G, Z_, Z_)), (RR, (G, Z_, Z_), (RR, Z_, c_(0))))),
            ("3q/ghz-sym", (G, (L, (L, S_, Z_), (G, Z_, Z_)), (RR, (G, Z_, Z_), (RR, Z_, S_)))),
            ("3q/basis-5", (RR, z2, (L, (RR, Z_, c_(0)), (G, Z_, Z_)))),
            ("3q/w-like", (G, (L, (RR, Z_, c_(0)), (G, Z_, Z_)), (L, (L, c_(0), Z_), (G, Z_, Z_)))),
            ("3q/uniform", (H_, (H_, (H_, c_(0), c_(0)), (H_, c_(0), c_(0))), (H_, (H_, c_(0), c_(0)), (H_, c_(0), c_(0))))),
            ("3q/real-product", (G, (G, (G, c_(0), c_(0)), (H_, c_(0), c_(0))), (L, (L, c_(0), Z_), (G, Z_, Z_)))),
            ("3q/uniform-1+i", (H_, (H_, (H_, c_(1), c_(1)), (H_, c_(1), c_(1))), (H_, (H_, c_(1), c_(1)), (H_, c_(1), c_(1)))))]
    out += [("3q/general", (G, g2, (G, (G, S_, S_), (G, S_, S_)))), ("3q/left-half-general", (L, g2, z2))]
    # a factor qubit exactly |0> / |1> at the LAST index position with the other amplitudes carrying different phases
    # (levels where every RY angle vanishes but some RZ angle does not, and vice versa)
    out += [("2q/w(x)0-phases", (G, (L, c_(1), Z_), (L, c_(-2), Z_))),
            ("2q/w(x)0-sym", (G, (L, S_, Z_), (L, S_, Z_))),
            ("2q/w(x)1-phases", (G, (RR, Z_, c_(1)), (RR, Z_, c_(3)))),
            ("2q/w(x)plus-phases", (G, (H_, c_(1), c_(1)), (H_, c_(-2), c_(-2)))),
            ("3q/w(x)0-phases", (G, (G, (L, c_(1), Z_), (L, c_(3), Z_)), (G, (L, c_(-2), Z_), (L, c_(4), Z_)))),
            ("3q/w(x)00-phases", (G, (L, (L, c_(1), Z_), (G, Z_, Z_)), (L, (L, c_(-2), Z_), (G, Z_, Z_)))),
            ("3q/0(x)w(x)0-sym", (L, (G, (L, S_, Z_), (L, S_, Z_)), z2))]
    if tier == "thorough":
        out += [("3q/general-consts", (G, (G, (G, S_, c_(4)), (G, c_(2), S_)), (G, (G, c_(-1), S_), (G, S_, c_(3))))),
                ("3q/real-positive", (G, (G, (G, c_(0), c_(0)), (G, c_(0), c_(0))), (G, (G, c_(0), c_(0)), (G, c_(0), c_(0))))),
                ("3q/sparse-sym", (G, (G, (L, S_, Z_), (RR, Z_, S_)), (RR, (G, Z_, Z_), (RR, Z_, S_)))),
                ("2q/general-b", (G, (G, S_, c_(4)), (G, c_(2), S_)))]
    return out


def shapes(tier, seed):
    rnd = random.Random(seed * 104729 + 20)
    out = []
    T = tier == "thorough"
    # ---- QFT
    lists = []
    for n in (4, 5):
        for m in range(1, (3 if not T else 4) + 1):
            for ql in itertools.permutations(range(n), m):
                if n == 5 and 4 not in ql:
                    continue          # lists inside width 4 are already covered with n = 4
                lists.append((n, ql))
    if T:
        lists += [(6, ql) for ql in rnd.sample(list(itertools.permutations(range(6), 5)), 12)]
        lists += [(6, ql) for ql in rnd.sample(list(itertools.permutations(range(6), 4)), 12)]
    for n, ql in lists:
        for inverse in (False, True):
            for swap in (True, False):
                give_n = (sum(ql) + inverse + swap) % 2 == 0
                out.append(Shape(f"qft/n{n}/{'-'.join(map(str, ql))}/inv={int(inverse)}/swap={int(swap)}", h_qft,
                                 dict(n=n, qlist=ql, inverse=inverse, swap=swap, give_n=give_n), modules=MODS, group="qft"))
    for m in (1, 2, 3) + ((4,) if T else ()):
        out.append(Shape(f"qft/int/{m}", h_qft, dict(n=m + 1, qlist=tuple(range(m)), inverse=False, swap=True, give_n=False, as_int=True),
                         modules=MODS, group="qft"))
    for n_ in (8, 13, 16) + ((24,) if T else ()):
        for sw in (True, False):
            out.append(Shape(f"qft/structure/n{n_}/swap={int(sw)}", h_qft_structure, dict(n=n_, swap=sw), modules=()))
    out.append(Shape("canary/qft/order", h_qft, dict(n=3, qlist=(0, 2), inverse=False, swap=True, give_n=True, canary=True),
                     modules=MODS, canary=True, group="canary"))
    out.append(Shape("canary/qft/sign", h_qft, dict(n=2, qlist=(1,), inverse=True, swap=False, give_n=False, canary=True),
                     modules=MODS, canary=True, group="canary"))
    # ---- StateVector
    for nm, spec in sv_specs(tier):
        for order in ("msq_first", "lsq_first"):
            out.append(Shape(f"statevector/{nm}/{order}", h_statevector, dict(spec=spec, order=order), modules=MODS,
                             max_paths=32, group="statevector"))
    out.append(Shape("statevector/order-keyword", h_sv_order_keyword, {}, modules=MODS, group="statevector"))
    out.append(Shape("canary/statevector/phase", h_statevector, dict(spec=(G, S_, S_), order="msq_first", canary=True), modules=MODS,
                     canary=True, max_paths=32, group="canary"))
    out.append(Shape("canary/statevector/phase-2q", h_statevector, dict(spec=(G, (G, c_(0), c_(4)), (G, c_(4), c_(0))), order="lsq_first", canary=True),
                     modules=MODS, canary=True, max_paths=32, group="canary"))
    # ---- QPE / iQPE
    ukinds = ("trotter1", "trotter2r", "trotter1s2", "circuit-all", "circuit-var")
    for k in (1, 2, 3) + ((4,) if T else ()):
        for fam, *_ in families(k):
            if fam in ("Z1-idle0", "Z0Z2-gap1") and k > 2 and not T:
                continue
            for m in range(2 ** k):
                uk = ukinds if (T and k < 4) or k < 3 else [ukinds[(m + k + len(fam)) % len(ukinds)], ukinds[(m + 2 * k + 1) % len(ukinds)],
                                                           ukinds[(m + 3) % len(ukinds)]]
                for u in dict.fromkeys(uk):
                    if fam == "I-Z0" and u.startswith("circuit"):
                        # a user circuit carries no global phase: the identity term of H is not part of that unitary
                        u = "trotter1" if u == "circuit-all" else "trotter2r"
                        if f"qpe/{fam}/k{k}/m{m}/{u}" in {s.name for s in out}:
                            continue
                    out.append(Shape(f"qpe/{fam}/k{k}/m{m}/{u}", h_qpe, dict(fam=fam, k=k, m=m, ukind=u), modules=MODS, group="qpe"))
                    out.append(Shape(f"iqpe/{fam}/k{k}/m{m}/{u}", h_iqpe, dict(fam=fam, k=k, m=m, ukind=u), modules=MODS, group="iqpe"))
    for fam_, k_, m_ in (("Z0", 1, 1), ("Z0Z1", 2, 1), ("X0X1", 2, 3), ("Z0+Z1", 1, 1)):
        out.append(Shape(f"qpe-reuse/{fam_}/k{k_}/m{m_}", h_qpe_reuse, dict(fam=fam_, k=k_, m=m_), modules=MODS, group="qpe"))
    occs = [(1, 1, 0, 0), (0, 1, 0, 0), (1, 0, 1, 1), (1, 0, 0, 1), (0, 0, 1, 0)] + ([(1, 1, 1, 0, 0, 0), (0, 1, 1, 0, 0, 1)] if tier == "thorough" else [])
    for which in ("qpe", "iqpe"):
        for mp in ("jw", "bk", "jkmn"):
            for utd in (False, True):
                out.append(Shape(f"refstate/{which}/{mp}/utd={int(utd)}", h_refstate, dict(which=which, mapping=mp, utd=utd, occs=occs), modules=MODS, group=which))
    out.append(Shape("canary/qpe/off-by-one", h_qpe, dict(fam="Z0Z1", k=2, m=1, ukind="trotter1", canary=True), modules=MODS,
                     canary=True, group="canary"))
    out.append(Shape("canary/iqpe/off-by-one", h_iqpe, dict(fam="Z0", k=2, m=2, ukind="circuit-all", canary=True), modules=MODS,
                     canary=True, group="canary"))
    return out
