"""C01  Backend simulation matches the documented gate semantics."""
import itertools
import random

import numpy as np

from symx.core import Shape
from symx import refsem as R, shim, cirqstub, path
from symx.num import Sym

PROPERTY = "C01"
MODS = ("tangelo.linq.target.backend", "tangelo.linq.target.target_cirq", "tangelo.linq.translator.translate_cirq",
        "tangelo.linq.target.target_sympy")

META = dict(
    explanation="Every supported gate at every placement inside the register (targets/controls, 0-3 controls), and 2-3-gate "
                "compositions, are simulated through the real Backend.simulate -> real translate_c_to_cirq -> exact stub of "
                "cirq.Simulator (applies the real cirq.Circuit operation by operation from cirq's own eigen-decompositions) "
                "with a SYMBOLIC rotation angle and a fully SYMBOLIC initial statevector; the returned statevector and "
                "frequency dictionary are compared with the documented gate matrices (refsem). The sympy backend runs for "
                "real (translate_c_to_sympy + qapply) on string parameters and its symbolic output is converted to the same "
                "exact numbers. Sampling (n_shots): the distribution handed to the sampler and the integer->bitstring "
                "mapping of arbitrary draws are checked.",
    bounds=dict(quick="n<=3 qubits, all placements of every gate kind with <=2 controls, seeded 2-gate compositions, angle in [-6pi,6pi]",
                thorough="n<=4 qubits, <=3 controls, 2- and 3-gate compositions (seeded + fixed non-commuting core)"),
    outside=["IEEE rounding", "backends not installed (qulacs, qiskit, qdk, stim, braket)", "amplitudes whose probability is "
             "non-zero but below freq_threshold=1e-10 (threshold-assume)", "statistical quality of the RNG"],
    stubs=["cirq.Simulator.simulate -> symx.cirqstub.SymSimulator (validated against cirq.unitary and a real cirq run at start-up)",
           "scipy.stats.rv_discrete -> records (xk, pk) and returns a solver-chosen support element"],
    trusted_base=["documented gate matrices in symx.refsem", "cirq's _eigen_components() tables", "sympy qapply"],
)

ONE = ["H", "X", "Y", "Z", "S", "T", "RX", "RY", "RZ", "PHASE"]
CTRL = ["CNOT", "CX", "CY", "CZ", "CH", "CRX", "CRY", "CRZ", "CPHASE"]
PARAM = {"RX", "RY", "RZ", "PHASE", "CRX", "CRY", "CRZ", "CPHASE", "XX"}
SYMPY_OK = {"H", "X", "Y", "Z", "S", "T", "RX", "RY", "RZ", "PHASE", "CNOT", "CX", "CY", "CZ", "CH", "CRX", "CRY", "CRZ", "CPHASE", "SWAP"}


def preload():
    import cirq  # noqa
    import tangelo.linq  # noqa
    from tangelo.linq import get_backend  # noqa
    cirqstub.self_check()


def make_backend(env, n_shots=None, extra=None):
    if env.symbolic:
        b = cirqstub.symbolic_backend(n_shots=n_shots)
    else:
        from tangelo.linq import get_backend
        b = get_backend("cirq", n_shots=n_shots)
    return b


def as_array(env, st):
    if env.symbolic:
        return shim.SymArray(st)
    return np.array([complex(x) for x in st], dtype=complex)


def check_freqs(env, freqs, expected_state, n, label, reverse_keys=False):
    """freqs: dict bitstring -> probability, must equal |amp|^2 keyed by the bitstring with qubit 0 first"""
    seen = set()
    for idx, a in enumerate(expected_state):
        key = R.bitstring(idx, n)
        p = a * R.n_conj(a)
        if key in freqs:
            env.check_eq(freqs[key], p, f"{label}: frequency of {key}")
            seen.add(key)
        else:
            if env.symbolic:
                env.check_eq(0, p, f"{label}: missing key {key} must have probability zero")
            else:
                env.check_le(abs(complex(p)), 1e-9, f"{label}: missing key {key} must have probability ~0")
    extra = set(freqs) - seen
    env.check_true(not extra, f"{label}: no unexpected keys", detail=str(sorted(extra)))


def build_gates(env, spec):
    """spec: list of (name, targets, controls); parameterised gates get symbolic angles th0, th1.."""
    from tangelo.linq import Gate
    gates, params = [], []
    for i, (name, tg, ct) in enumerate(spec):
        th = env.angle(f"th{i}") if name in PARAM else ""
        params.append(th)
        gates.append(Gate(name, tg, control=ct if ct else None, parameter=th))
    return gates, params


def oracle(spec, params, n, state):
    st = list(state)
    for (name, tg, ct), th in zip(spec, params):
        st = R.apply_gate(st, n, name, tg, ct, th if name in PARAM else None)
    return st


def h_cirq(env, spec, n, init, canary=False, fixed=True):
    from tangelo.linq import Circuit
    gates, params = build_gates(env, spec)
    # fixed=False: the width is left to the circuit (highest index + 1; idle qubits BELOW it are part of the register)
    circ = Circuit(gates, n_qubits=n) if fixed else Circuit(gates)
    if not fixed:
        env.check_same(circ.width, n, "harness premise: width of the unfixed circuit")
    b = make_backend(env)
    if init:
        psi = env.state(n, "psi")
        freqs, sv = b.simulate(circ, return_statevector=True, initial_statevector=as_array(env, psi))
    else:
        psi = R.basis_state(n, 0)
        freqs, sv = b.simulate(circ, return_statevector=True)
    ospec = spec if not canary else [(nm, tg[::-1] if len(tg) > 1 else tg, ct) if not ct else (nm, ct[:1], tg[:1] + ct[1:]) for nm, tg, ct in spec]
    exp = oracle(ospec, params, n, psi)
    if canary:
        exp = [-x for x in exp] if exp == oracle(spec, params, n, psi) else exp
    env.check_vec_eq(list(sv), exp, f"statevector after {spec} (index = bitstring with qubit 0 first, as advertised lsq_first)")
    check_freqs(env, freqs, exp, n, f"frequencies after {spec}")
    env.check_same(b.backend_info()["statevector_order"], "lsq_first", "advertised order")


def h_cirq_shot_sv(env, spec, n, desired):
    """measurement-free circuit, n_shots=1 with return_statevector and save_mid_circuit_meas (or desired_meas_result=""): the
    shot-by-shot route of the cirq target; the statevector returned is U|psi> for the SUPPLIED symbolic initial statevector"""
    from tangelo.linq import Circuit
    gates, params = build_gates(env, spec)
    circ = Circuit(gates, n_qubits=n)
    b = make_backend(env, n_shots=1)
    psi = env.state(n, "psi", normalized=True)
    kw = dict(desired_meas_result="") if desired else dict(save_mid_circuit_meas=True)
    freqs, sv = b.simulate(circ, return_statevector=True, initial_statevector=as_array(env, psi), **kw)
    exp = oracle(spec, params, n, psi)
    env.check_vec_eq(list(sv), exp, f"n_shots=1, return_statevector, {'desired_meas_result' if desired else 'save_mid_circuit_meas'}: statevector == U|psi> after {spec}")


def h_empty(env, n, init):
    """Backend.simulate shortcuts: empty circuit"""
    from tangelo.linq import Circuit
    circ = Circuit(n_qubits=n)
    b = make_backend(env)
    if init:
        psi = env.state(n, "psi")
        freqs, sv = b.simulate(circ, return_statevector=True, initial_statevector=as_array(env, psi))
    else:
        psi = R.basis_state(n, 0)
        freqs, sv = b.simulate(circ, return_statevector=True)
    env.check_vec_eq(list(sv), psi, "empty circuit returns the initial state")
    check_freqs(env, freqs, psi, n, "empty circuit frequencies")


class _StatsProxy:
    """scipy.stats stand-in: rv_discrete records the distribution and draws a solver-chosen support element"""

    def __init__(self):
        self.calls = []
        self.draws = []

    def rv_discrete(self, name=None, values=None, **k):
        xk, pk = values
        self.calls.append((list(xk), list(pk)))
        proxy = self

        class D:
            def rvs(self_inner, size=1):
                out = []
                for _ in range(int(size)):
                    alts = [(True, int(x)) for x in xk]
                    out.append(path.decide(alts, "rv_discrete draw") if len(alts) > 1 else alts[0][1])
                proxy.draws.extend(out)
                return out
        return D()


def h_shortcut_sampled(env, n, backend):
    """empty circuit + initial statevector + n_shots (Backend.simulate shortcut -> _statevector_to_frequencies sampling), on a
    backend of either statevector order: whatever support point is drawn, the key returned is the key that the exact mode of
    the same backend gives to the basis state carrying the drawn probability"""
    from tangelo.linq import Circuit, get_backend
    import tangelo.linq.target.backend as bk
    circ = Circuit(n_qubits=n)
    psi = env.state(n, "psi", normalized=True)
    if not env.symbolic:
        with shim.concrete_mode():
            b = get_backend(backend, n_shots=4000)
            f, _ = b.simulate(circ, initial_statevector=as_array(env, psi))
            fe, _ = get_backend(backend).simulate(circ, initial_statevector=as_array(env, psi))
        for k in set(f) | set(fe):
            # replay only: 4000 shots, 5 sigma <= 0.04
            env.check_le(abs(f.get(k, 0.) - fe.get(k, 0.)), 0.04, f"{backend}: sampled frequency of {k} is consistent with the exact frequency of {k}")
        return
    mk = (lambda ns: make_backend(env, n_shots=ns)) if backend == "cirq" else (lambda ns: get_backend("sympy", n_shots=ns))
    fe, _ = mk(None).simulate(circ, initial_statevector=as_array(env, psi))
    sp = _StatsProxy()
    old = bk.__dict__["stats"]
    bk.__dict__["stats"] = sp
    try:
        f1, _ = mk(1).simulate(circ, initial_statevector=as_array(env, psi))
    finally:
        bk.__dict__["stats"] = old
    env.check_true(len(sp.calls) == 1 and len(sp.draws) == 1, "sampler called once, one draw")
    xk, pk = sp.calls[0]
    env.check_true(len(f1) == 1, "one shot -> one key")
    key = list(f1)[0]
    p = pk[xk.index(sp.draws[0])]
    env.check_true(key in fe, f"{backend}: drawn key {key} is a key of the exact distribution")
    if key in fe:
        env.check_eq(p, fe[key], f"{backend}: the drawn support point is reported under the key the exact mode uses for that basis state")


def h_sampled(env, spec, n):
    """n_shots=1: the distribution handed to the sampler is the exact one, and ANY draw maps to the right bitstring"""
    from tangelo.linq import Circuit
    import tangelo.linq.target.backend as bk
    gates, params = build_gates(env, spec)
    circ = Circuit(gates, n_qubits=n)
    exp = oracle(spec, params, n, R.basis_state(n, 0))
    if env.symbolic:
        b = make_backend(env, n_shots=1)
        sp = _StatsProxy()
        old = bk.__dict__["stats"]
        bk.__dict__["stats"] = sp
        try:
            freqs, _ = b.simulate(circ)
        finally:
            bk.__dict__["stats"] = old
        env.check_true(len(sp.calls) == 1, "sampler called once")
        xk, pk = sp.calls[0]
        # every support point x stands for the bitstring whose reversed binary value is x, with its exact probability
        for x, p in zip(xk, pk):
            key = format(int(x), f"0{n}b")[::-1]
            idx = int(key, 2)
            env.check_eq(p, exp[idx] * R.n_conj(exp[idx]), f"probability handed to the sampler for outcome {key}")
        tot = Sym.of(0)
        for p in pk:
            tot = tot + p
        nrm = Sym.of(0)
        for a in exp:
            nrm = nrm + a * R.n_conj(a)
        env.check_eq(tot, nrm, "sampler support carries the whole distribution")
        # the (solver-chosen) draw: exactly one key, frequency 1, and it is a bitstring with non-zero exact probability
        env.check_true(len(freqs) == 1 and abs(list(freqs.values())[0] - 1.0) < 1e-12, "one shot -> one key with frequency 1")
        key = list(freqs)[0]
        env.check_true(len(key) == n, "key width")
        drawn = [x for x in xk if format(int(x), f"0{n}b")[::-1] == key]
        env.check_true(len(drawn) == 1, f"drawn key {key} corresponds to a support point")
    else:
        b = make_backend(env, n_shots=200)
        freqs, _ = b.simulate(circ)
        tot = sum(freqs.values())
        env.check_true(abs(tot - 1) < 1e-9, "sampled frequencies sum to 1")
        for key in freqs:
            p = abs(complex(exp[int(key, 2)])) ** 2
            env.check_true(p > 1e-12, f"sampled key {key} has non-zero exact probability")


def h_sampled_chunks(env):
    """more shots than one sampling chunk (10**7): the number of samples requested from the sampler over all chunks must be
    n_shots and the frequencies must sum to 1 (the draw is deterministic here: a basis state)"""
    from tangelo.linq import Circuit, Gate
    import tangelo.linq.target.backend as bk
    n_shots = 10 ** 7 + 3
    requested = []

    class Rep:
        def __init__(self, v, k):
            self.v, self.k = v, k

        def __iter__(self):
            import itertools as it
            return it.repeat(self.v, self.k)

        def __len__(self):
            return self.k

    class St:
        def rv_discrete(self, name=None, values=None, **k):
            xk, pk = values

            class D:
                def rvs(self_inner, size=1):
                    requested.append(int(size))
                    return Rep(int(xk[0]), int(size))
            return D()
    b = make_backend(env, n_shots=n_shots)
    old = bk.__dict__["stats"]
    bk.__dict__["stats"] = St()
    try:
        freqs, _ = b.simulate(Circuit([Gate("X", 1)], n_qubits=2))
    finally:
        bk.__dict__["stats"] = old
    env.check_same(sum(requested), n_shots, "samples requested over all chunks == n_shots")
    env.check_same(sorted(freqs), ["01"], "sampled key")
    env.check_eq(freqs.get("01", 0), 1, "frequencies sum to 1 when n_shots exceeds one chunk")


def h_sympy(env, spec, n, init_idx, canary=False):
    """real sympy backend on string parameters; output converted to exact numbers"""
    from tangelo.linq import Circuit, Gate, get_backend
    from symx import sympyconv
    gates, params, symmap = [], [], {}
    for i, (name, tg, ct) in enumerate(spec):
        if name in PARAM:
            th = env.angle(f"th{i}")
            symmap[f"th{i}"] = th
            params.append(th)
            gates.append(Gate(name, tg, control=ct if ct else None, parameter=f"th{i}"))
        else:
            params.append("")
            gates.append(Gate(name, tg, control=ct if ct else None))
    circ = Circuit(gates, n_qubits=n)
    b = get_backend("sympy")
    with shim.concrete_mode():
        if init_idx is None:
            try:
                freqs, sv = b.simulate(circ, return_statevector=True)
            except (ValueError, NotImplementedError) as exc:
                if any(len(ct) > 1 for _, _, ct in spec):
                    # a backend may refuse gates it cannot express (more than one control); it must not alter them silently
                    env.check_true(True, f"sympy backend refuses the multi-controlled gate: {type(exc).__name__}")
                    return
                raise
        else:
            from sympy.physics.quantum.qubit import Qubit
            # the documented way to give a basis state: Qubit string; bit order handled below via advertised order
            raise NotImplementedError
    psi = R.basis_state(n, 0)
    exp = oracle(spec, params, n, psi)
    if canary:
        exp = exp[::-1]
    svl = [sympyconv.to_number(x, symmap, env.symbolic) for x in list(sv)]
    order = b.backend_info()["statevector_order"]
    # advertised order: lsq_first = qubit 0 is the first character of the index' bitstring (as for cirq)
    if order == "lsq_first":
        got = svl
    else:
        got = [svl[int(R.bitstring(i, n)[::-1], 2)] for i in range(2 ** n)]
    env.check_vec_eq(got, exp, f"sympy statevector after {spec}, indexed in the advertised order ({order})")
    fr = {k: sympyconv.to_number(v, symmap, env.symbolic) for k, v in freqs.items()}
    seen = set()
    for idx, a in enumerate(exp):
        key = R.bitstring(idx, n)
        p = a * R.n_conj(a)
        if key in fr:
            seen.add(key)
            if env.symbolic:
                # the backend post-processes probabilities with simplify(tolerance=1e-4).evalf(): compare up to 1e-4
                d = Sym.of(fr[key]) - Sym.of(p)
                env.check_le(d.real * d.real, 1e-8, f"sympy frequency of {key} (up to the code's 1e-4 simplification tolerance)")
            else:
                env.check_le(abs(complex(fr[key]) - complex(p)), 1e-4, f"sympy frequency of {key}")
        else:
            if env.symbolic:
                env.check_eq(0, p, f"sympy: missing key {key} must have probability zero")
            else:
                env.check_le(abs(complex(p)), 1e-4, f"sympy: missing key {key}")
    env.check_true(not (set(fr) - seen), "sympy: no unexpected keys")


def h_sympy_shortcut(env, n, k):
    """empty-circuit shortcut and a diagonal one-gate circuit must label the same initial basis state identically,
    and consistently with the advertised statevector order (enumerated, concrete)"""
    from tangelo.linq import Circuit, Gate, get_backend
    b = get_backend("sympy")
    v = np.zeros((2 ** n, 1))
    v[k, 0] = 1
    with shim.concrete_mode():
        f_empty, _ = b.simulate(Circuit(n_qubits=n), initial_statevector=v)
        f_diag, _ = b.simulate(Circuit([Gate("Z", n - 1)], n_qubits=n), initial_statevector=v)
    order = b.backend_info()["statevector_order"]
    want = R.bitstring(k, n) if order == "lsq_first" else R.bitstring(k, n)[::-1]
    env.check_same(sorted(f_empty), [want], f"sympy empty-circuit shortcut labels index {k} as advertised ({order})")
    env.check_same(sorted(f_diag), [want], f"sympy one-gate circuit labels index {k} as advertised ({order})")


def h_sympy_numeric(env, spec, n):
    """ENUMERATED concrete shape: the sympy backend on circuits with ordinary floating-point angles that are no 'nice' multiples
    of pi: frequencies equal |amplitude|^2 of an independent numpy evaluation to 1e-9 and sum to 1 (no simplification step may
    round them)"""
    import cmath
    import math
    from tangelo.linq import Circuit, Gate, get_backend
    I2 = np.eye(2, dtype=complex)
    X = np.array([[0, 1], [1, 0]], dtype=complex)

    def mat(name, th):
        c, s_ = math.cos(th / 2), math.sin(th / 2)
        return {"RX": np.array([[c, -1j * s_], [-1j * s_, c]]), "RY": np.array([[c, -s_], [s_, c]], dtype=complex),
                "RZ": np.array([[cmath.exp(-1j * th / 2), 0], [0, cmath.exp(1j * th / 2)]]), "H": np.array([[1, 1], [1, -1]], dtype=complex) / math.sqrt(2),
                "PHASE": np.array([[1, 0], [0, cmath.exp(1j * th)]]), "X": X}[name]
    st = np.zeros(2 ** n, dtype=complex)
    st[0] = 1
    gates = []
    for name, tg, ct, th in spec:
        gates.append(Gate(name, tg, control=ct, parameter=(th if th is not None else "")))
        base = name[1:] if ct is not None and name not in ("CNOT",) else ("X" if name == "CNOT" else name)
        U = mat(base, th or 0.0)
        new = np.zeros_like(st)
        for idx in range(2 ** n):
            bits = [(idx >> (n - 1 - q)) & 1 for q in range(n)]
            if ct is not None and not all(bits[c] for c in ct):
                new[idx] += st[idx]
                continue
            b = bits[tg[0]]
            for b2 in (0, 1):
                j = idx ^ ((b ^ b2) << (n - 1 - tg[0]))
                new[j] += U[b2, b] * st[idx]
        st = new
    with shim.concrete_mode():
        freqs, _ = get_backend("sympy").simulate(Circuit(gates, n_qubits=n))
    tot = sum(float(v) for v in freqs.values())
    env.check_true(abs(tot - 1) < 1e-9, "sympy backend, numeric angles: frequencies sum to 1", detail=str(tot))
    bad = []
    for idx, a in enumerate(st):
        key = format(idx, f"0{n}b")
        p = abs(a) ** 2
        f = float(freqs.get(key, 0.0))
        if abs(f - p) > 1e-9:
            bad.append((key, f, p))
    env.check_true(not bad, "sympy backend, numeric angles: frequency == |amplitude|^2 of the numpy evaluation (1e-9)", detail=str(bad[:3]))


def h_wide_deterministic(env, n, ones, shots, save_mid, measure):
    """ENUMERATED concrete shape: a register wider than 10 qubits prepared in a basis state with X gates (optionally with a
    mid-circuit MEASURE): every simulation mode of the cirq backend reports exactly that bitstring, qubit 0 first"""
    from tangelo.linq import Circuit, Gate, get_backend
    gates = [Gate("X", q) for q in ones]
    if measure is not None:
        gates.insert(len(gates) // 2, Gate("MEASURE", measure))
    circ = Circuit(gates, n_qubits=n)
    want = "".join("1" if q in ones else "0" for q in range(n))
    with shim.concrete_mode():
        b = get_backend("cirq", n_shots=shots)
        kw = dict(save_mid_circuit_meas=True) if save_mid else {}
        freqs, _ = b.simulate(circ, **kw)
    env.check_same({k: float(v) for k, v in freqs.items()}, {want: 1.0},
                   f"cirq, {n} qubits, n_shots={shots}, save_mid_circuit_meas={save_mid}, MEASURE on {measure}: the prepared basis state, qubit 0 first")
    if save_mid and measure is not None:
        env.check_same(dict(b.mid_circuit_meas_freqs), {("1" if measure in ones[:len(ones) // 2] else "0"): 1.0}, "mid-circuit outcome of the deterministic measurement")


def placements(n, n_t, n_c):
    for qs in itertools.permutations(range(n), n_t + n_c):
        tg, ct = list(qs[:n_t]), list(qs[n_t:])
        if ct != sorted(ct):
            continue        # control order is irrelevant; keep one representative
        if n_t == 2 and False:
            pass
        yield tg, ct


def shapes(tier, seed):
    rnd = random.Random(seed)
    out = []
    numeric = [[("RY", [0], None, 1.0471), ("RX", [1], None, 0.7), ("CNOT", [1], [0], None), ("RZ", [1], None, 2.113)],
               [("H", [0], None, None), ("CRY", [1], [0], 0.31415), ("PHASE", [1], None, 1.234), ("RX", [0], None, -2.5)],
               [("RY", [1], None, 5.0001), ("CRX", [0], [1], 1.0e-3), ("RY", [0], None, 0.123456789)]]
    for n_, ones_ in ((11, (0, 3, 10)), (12, (1, 2, 11)), (13, (12,))):
        for shots_, sm_, me_ in ((None, False, None), (3, False, None), (3, True, None), (3, True, ones_[0]), (1, True, 5)):
            out.append(Shape(f"wide/n{n_}/{'-'.join(map(str, ones_))}/shots={shots_}/save={int(sm_)}/m={me_}", h_wide_deterministic,
                             dict(n=n_, ones=ones_, shots=shots_, save_mid=sm_, measure=me_), modules=()))
    for i, sp_ in enumerate(numeric):
        out.append(Shape(f"sympy/numeric/{i}", h_sympy_numeric, dict(spec=sp_, n=2), modules=()))
    for i_, sp_ in enumerate([[("RY", [0], []), ("CNOT", [1], [0])], [("H", [1], []), ("CRZ", [0], [1]), ("RX", [0], [])]]):
        for des_ in (False, True):
            out.append(Shape(f"cirq/shot-statevector/{i_}/desired={int(des_)}", h_cirq_shot_sv, dict(spec=sp_, n=2, desired=des_), modules=MODS, max_paths=16))
    for i_, (sp_, n_) in enumerate([([("RY", [0], []), ("RX", [2], [])], 3), ([("H", [3], []), ("CRZ", [1], [3])], 4), ([("RY", [2], [])], 3)]):
        for init_ in (False, True):
            out.append(Shape(f"cirq/idle-gap/{i_}/init={int(init_)}", h_cirq, dict(spec=sp_, n=n_, init=init_, fixed=False), modules=MODS))
    for be in ("cirq", "sympy"):
        for nn in ((2,) if tier == "quick" else (2, 3)):
            out.append(Shape(f"shortcut-sampled/{be}/n{nn}", h_shortcut_sampled, dict(n=nn, backend=be), modules=MODS, max_paths=16))
    n = 3 if tier == "quick" else 4
    maxc = 2 if tier == "quick" else 3
    single = []
    for g in ONE:
        for tg, ct in placements(n, 1, 0):
            single.append((g, tg, ct))
    for g in CTRL:
        for nc in range(1, maxc + 1):
            if g == "CNOT" and nc > 1 and tier == "quick" and nc > 2:
                continue
            for tg, ct in placements(n, 1, nc):
                single.append((g, tg, ct))
    for g in ("XX", "SWAP"):
        for tg, ct in placements(n, 2, 0):
            single.append((g, tg, ct))
    for nc in range(1, min(maxc, n - 2) + 1):
        for tg, ct in placements(n, 2, nc):
            single.append(("CSWAP", tg, ct))
    if tier == "quick":
        # every gate kind and control count at least once, placements seeded
        bykind = {}
        for s in single:
            bykind.setdefault((s[0], len(s[2])), []).append(s)
        sel = []
        for k, lst in sorted(bykind.items()):
            rnd.shuffle(lst)
            sel += lst[:3]
        single = sel
    for (g, tg, ct) in single:
        nm = f"{g}/t{''.join(map(str, tg))}" + (f"c{''.join(map(str, ct))}" if ct else "")
        out.append(Shape(f"cirq/single/{nm}", h_cirq, dict(spec=[(g, tg, ct)], n=n, init=True), modules=MODS))
    # from |0..0> (no initial statevector) for a few
    for (g, tg, ct) in rnd.sample(single, 6):
        nm = f"{g}/t{''.join(map(str, tg))}" + (f"c{''.join(map(str, ct))}" if ct else "")
        out.append(Shape(f"cirq/single0/{nm}", h_cirq, dict(spec=[(g, tg, ct)], n=n, init=False), modules=MODS))
    # compositions: order matters
    core2 = [[("H", [0], []), ("CNOT", [1], [0])], [("RX", [0], []), ("RZ", [0], [])], [("RY", [1], []), ("CZ", [2], [1])],
             [("XX", [0, 2], []), ("RZ", [2], [])], [("CRY", [0], [2]), ("H", [0], [])], [("S", [1], []), ("H", [1], [])],
             [("SWAP", [0, 1], []), ("CRX", [1], [0])], [("T", [2], []), ("RY", [2], [])]]
    comps = list(core2)
    pool = [s for s in single]
    for _ in range(8 if tier == "quick" else 60):
        comps.append([rnd.choice(pool) for _ in range(2 if tier == "quick" or rnd.random() < 0.5 else 3)])
    if tier == "thorough":
        comps += [[("H", [0], []), ("CRZ", [1], [0]), ("RX", [1], [])], [("RY", [0], []), ("CNOT", [2], [0]), ("PHASE", [2], [])]]
    for i, spec in enumerate(comps):
        spec = [(g, list(tg), list(ct)) for g, tg, ct in spec]
        out.append(Shape(f"cirq/comp/{i}_" + "-".join(s[0] for s in spec), h_cirq, dict(spec=spec, n=n, init=(i % 2 == 0)), modules=MODS))
    # gates that need a 4-qubit register even in the quick tier: two targets + two controls, three controls
    for (g, tg, ct) in [("CSWAP", [1, 3], [0, 2]), ("CSWAP", [0, 1], [2, 3]), ("CRY", [2], [0, 1, 3]), ("CX", [0], [1, 2, 3]), ("CPHASE", [3], [0, 1, 2])]:
        nm = f"{g}/t{''.join(map(str, tg))}c{''.join(map(str, ct))}"
        out.append(Shape(f"cirq/single4/{nm}", h_cirq, dict(spec=[(g, tg, ct)], n=4, init=True), modules=MODS))
    out.append(Shape("cirq/sampled/chunks", h_sampled_chunks, dict(), modules=MODS))
    out.append(Shape("cirq/width>used/H1", h_cirq, dict(spec=[("RY", [1], [])], n=n + 1 if n < 4 else n, init=True), modules=MODS))
    for nn in (1, 2, 3):
        for init in (False, True):
            out.append(Shape(f"cirq/empty/n{nn}/init={int(init)}", h_empty, dict(n=nn, init=init), modules=MODS))
    out.append(Shape("canary/cirq/control-target-swap", h_cirq, dict(spec=[("CRY", [0], [1])], n=2, init=True, canary=True), modules=MODS, canary=True))
    # sampled mode
    for i, spec in enumerate([[("RY", [0], [])], [("H", [1], []), ("CNOT", [0], [1])], [("RX", [2], []), ("X", [0], [])]]):
        out.append(Shape(f"cirq/sampled/{i}", h_sampled, dict(spec=spec, n=3 if i else 2), modules=MODS, max_paths=64))
    # sympy backend
    sy = [s for s in single if s[0] in SYMPY_OK and len(s[2]) <= 1]
    if tier == "quick":
        bykind = {}
        for s in sy:
            bykind.setdefault(s[0], []).append(s)
        sy = [rnd.choice(v) for k, v in sorted(bykind.items())]
    for (g, tg, ct) in sy:
        nm = f"{g}/t{''.join(map(str, tg))}" + (f"c{''.join(map(str, ct))}" if ct else "")
        # every involved qubit is first put in a superposition with a complex relative phase (H then S), so that phases
        # kicked back on controls and the sense of rotations are visible in the final statevector
        pre = [x for q in (list(tg) + list(ct)) for x in (("H", [q], []), ("S", [q], []))]
        out.append(Shape(f"sympy/single/{nm}", h_sympy, dict(spec=pre + [(g, tg, ct)],
                                                          n=max(3, max(tg + ct) + 1), init_idx=None), modules=MODS))
    for i, spec in enumerate(core2[:3] if tier == "quick" else core2):
        if all(s[0] in SYMPY_OK for s in spec):
            out.append(Shape(f"sympy/comp/{i}", h_sympy, dict(spec=spec, n=3, init_idx=None), modules=MODS))
    for k in range(4):
        out.append(Shape(f"sympy/shortcut/n2k{k}", h_sympy_shortcut, dict(n=2, k=k), modules=MODS))
    for i, spec in enumerate([[("X", [0], []), ("CX", [2], [0, 1])], [("H", [1], []), ("X", [0], []), ("CRY", [2], [0, 1])],
                              [("X", [2], []), ("CZ", [0], [1, 2])]]):
        out.append(Shape(f"sympy/multicontrol/{i}", h_sympy, dict(spec=spec, n=3, init_idx=None), modules=MODS))
    out.append(Shape("canary/sympy/reversed", h_sympy, dict(spec=[("RY", [0], [])], n=2, init_idx=None, canary=True), modules=MODS, canary=True))
    return out
