"""C11  Circuit metadata stays consistent under any operation history (inductive step + index validation)."""
import itertools
import math
import random

from symx.core import Shape
from symx import circ as CU

PROPERTY = "C11"
MODS = ()
SHAPE_BUDGET = dict(quick=100, thorough=400)

META = dict(
    explanation="Inductive step over operation histories: a pre-state circuit (<=3 gates from a representative gate set "
                "incl. parameterised, controlled, multi-controlled, two-target and MEASURE gates; indices within 4 qubits "
                "incl. gaps; with and without n_qubits) is built through the public constructor (base case; the "
                "representation invariant is asserted on it), then ONE operation (or two, for a seeded sample) of the "
                "property's list is applied by the real code, and width, size, counts, counts_n_qubit, is_variational, "
                "is_mixed_state and depth() of every circuit involved are compared with values recomputed from "
                "list(circuit) by an independent reference (symx.circ.ref_metadata); read-only operations must leave a value "
                "snapshot of the receiver (gates, parameters, bookkeeping fields) unchanged. For the simplification passes the "
                "rotation parameters are solver variables, so every path of Gate.__eq__ / the small-rotation test is explored "
                "and the invariant is asserted on each path. Index validation of Gate/Circuit is ENUMERATED over concrete "
                "values (gate.py tests `type(ind) != int`, which a symbolic integer cannot pass): ints in [-3, 9], bool, float, "
                "str, numpy scalars/arrays, lists and tuples. HONEST NOTE: apart from the simplification passes this property "
                "is finite and discrete; the solver only decides path feasibility there, the rest is bounded exhaustive "
                "enumeration routed through the same obligation/replay machinery.",
    bounds=dict(quick="pre-states: 10 fixed + seeded circuits of <=3 gates over qubits {0,1,2,3} (gaps allowed), n_qubits in "
                      "{None, 5}; every operation of the list on every applicable pre-state (fixed core) + 40 seeded pairs of "
                      "operations; index validation: all index tuples in [-3,9] for 1- and 2-index gates, seeded sample for "
                      "3-index gates, n_qubits in 1..4",
                thorough="more seeded pre-states (30), 400 seeded pairs of operations, all 3-index tuples in [-2,5]"),
    outside=["simulate() on each backend (not run: the cirq/sympy translators that simulate() calls are covered as read-only "
             "operations; qulacs/qiskit/qdk simulators are not installed)",
             "translation targets whose packages are absent (qiskit, openqasm, qulacs, braket, stim, pennylane)",
             "histories longer than two operations (covered by induction only as far as every operation preserves the "
             "invariant from EVERY consistent pre-state; pre-states are bounded to 3 gates / 4 qubits)",
             "numpy integer scalars as indices: documented in the type hints but rejected by the code; the property only "
             "demands rejections, so this is recorded as an observation, not asserted",
             "IEEE rounding"],
    stubs=[], trusted_base=["symx.circ.ref_metadata (reference re-computation of the metadata)"],
    assumptions=[],
)

SIMPL = ("remove_small_rotations", "remove_redundant_gates", "merge_rotations", "simplify")
TARGETS = ("cirq", "sympy", "ionq", "projectq", "qdk")


def preload():
    import tangelo.linq  # noqa
    import tangelo.linq.translator  # noqa
    import cirq  # noqa
    import sympy  # noqa


# ------------------------------------------------------------------ building
# gate spec: (name, targets, controls|None, param, variational) ; param: None | float | "t" (string parameter) | "@a" (numeric,
# symbolic angle named a when the shape asks for symbolic parameters, else the float in NUM)
NUM = {"@a": 0.7, "@b": -0.7 + 2 * math.pi, "@c": 2.5, "@z": 0.0004}


def mk_gate(env, gs, sym, angles):
    from tangelo.linq import Gate
    nm, tg, ct, pa, var = gs
    if pa is None:
        p = ""
    elif isinstance(pa, str) and pa.startswith("@"):
        if sym and pa != "@z":
            if pa not in angles:
                angles[pa] = env.angle(pa[1:], -3, 3)
                if not env.symbolic:
                    env.assume(-3 * math.pi <= angles[pa] <= 3 * math.pi, "angle range")
            p = angles[pa]
        else:
            p = NUM[pa]
    else:
        p = pa
    return Gate(nm, list(tg) if len(tg) > 1 else tg[0], None if ct is None else (list(ct) if len(ct) > 1 else ct[0]), p, is_variational=var)


def mk_circuit(env, spec, n_qubits, sym=False, angles=None):
    from tangelo.linq import Circuit
    angles = {} if angles is None else angles
    return Circuit([mk_gate(env, gs, sym, angles) for gs in spec], n_qubits=n_qubits), angles


# ------------------------------------------------------------------ the invariant
def check_invariant(env, c, what, width=None, width_range=None, canary=False):
    """reported metadata == metadata recomputed from list(c)"""
    gts = [CU.gate_tuple(g) for g in list(c)]
    ref = CU.ref_metadata(gts)
    rep = CU.reported_metadata(c)
    if canary:
        ref["depth"] = ref["size"]          # wrong reference: "depth is the number of gates"
    for k in ("size", "counts", "counts_n_qubit", "is_variational", "is_mixed_state", "depth"):
        env.check_same(rep[k], ref[k], f"{what}: {k} equals the value recomputed from the gate list")
    env.check_true(rep["width"] >= ref["width"], f"{what}: width covers the highest qubit index",
                   detail=f"width {rep['width']} but gates use index {ref['width'] - 1}")
    if width is not None:
        env.check_same(rep["width"], width, f"{what}: width equals the documented value")
    if width_range is not None:
        env.check_true(width_range[0] <= rep["width"] <= width_range[1], f"{what}: width within the documented range",
                       detail=f"{rep['width']} not in {width_range}")


def hi_plus_1(c):
    return CU.ref_metadata([CU.gate_tuple(g) for g in list(c)])["width"]


# ------------------------------------------------------------------ one operation
def apply_op(env, c, op, arg, sym, angles, tag, canary=False):
    """apply `op` to circuit c with the real code; assert read-only-ness / invariants; returns the circuit that the
    operation 'produces' (for chaining)"""
    import tangelo.linq.circuit as TC
    from tangelo.linq.translator import translate_circuit
    w0 = c.width
    before = CU.snapshot(c)
    L = f"{tag}{op}"

    def unchanged(cc=c, b=before, who="receiver"):
        CU.check_unchanged(env, b, cc, f"{L} leaves its {who} unchanged")

    if op == "add_gate":
        g = mk_gate(env, arg, sym, angles)
        idx = list(arg[1]) + list(arg[2] or ())
        fixed = c._qubits_simulated
        if fixed and max(idx) >= fixed:
            env.check_raises(lambda: c.add_gate(g), f"{L}: index beyond the fixed number of qubits is rejected")
            check_invariant(env, c, f"{L} (after a rejected gate)", width=w0)
            return c
        c.add_gate(g)
        check_invariant(env, c, L, width=max(w0, max(idx) + 1))
        env.check_true(CU.gates_same(CU.gate_tuples(c), before["gates"] + [CU.gate_tuple(g)]) is None, f"{L}: gate list is extended by the gate")
        return c
    if op in ("add", "stack"):
        c2, _ = mk_circuit(env, arg[0], arg[1], sym, angles)
        b2 = CU.snapshot(c2)
        w2 = c2.width
        if op == "add":
            out = c + c2
            check_invariant(env, out, L, width=max(w0, w2))
        else:
            out = c.stack(c2)
            u1, u2 = len(CU.used_qubits(before["gates"])), len(CU.used_qubits(b2["gates"]))
            check_invariant(env, out, L, width=u1 + u2)
        unchanged()
        unchanged(c2, b2, "second operand")
        check_invariant(env, c, f"{L} (receiver)", width=w0)
        return out
    if op == "mul":
        out = c * arg
        check_invariant(env, out, L, width=w0)
        env.check_same(out.size, c.size * arg, f"{L}: size is multiplied")
        unchanged()
        return out
    if op == "copy":
        out = c.copy()
        check_invariant(env, out, L, width=w0)
        unchanged()
        env.check_true(CU.snapshot_diff(before, CU.snapshot(out)) is None, f"{L}: the copy has the same value",
                       detail=str(CU.snapshot_diff(before, CU.snapshot(out))))
        return out
    if op == "inverse":
        try:
            out = c.inverse()
        except AttributeError:          # documented: non-invertible gate / non-numeric parameter
            unchanged()
            FALLBACK.append(1)
            return c
        check_invariant(env, out, L, width=w0)
        unchanged()
        return out
    if op == "depth":
        d1 = c.depth()
        d2 = c.depth()
        env.check_same(d1, d2, f"{L}: depth() is reproducible")
        if not canary:
            unchanged()
        else:                           # wrong spec for the canary: trim_qubits is claimed to be read-only
            c.trim_qubits()
            unchanged()
        check_invariant(env, c, L, width=None if canary else w0)
        return c
    if op == "trim_qubits":
        out = c.trim_qubits()
        env.check_true(out is c, f"{L}: returns the receiver")
        check_invariant(env, c, L, width=len(CU.used_qubits(before["gates"])))
        return c
    if op == "reindex_qubits":
        k = len(c._qubit_indices)
        perm = list(range(k))
        random.Random(arg).shuffle(perm)
        if arg % 2:
            perm = [p + 1 for p in perm]        # shifted labels are allowed too
        c.reindex_qubits(perm)
        check_invariant(env, c, L, width=(max(perm) + 1 if perm else 0))
        return c
    if op in ("split", "split_notrim"):
        parts = c.split(trim_qubits=(op == "split"))
        for i, pc in enumerate(parts):
            nu = len(CU.used_qubits(CU.gate_tuples(pc)))
            check_invariant(env, pc, f"{L}[part {i}]", width=(nu if op == "split" else hi_plus_1(pc)))
        env.check_same(sum(p.size for p in parts), c.size, f"{L}: every gate goes to exactly one part")
        unchanged()
        if not parts:
            FALLBACK.append(1)
        return parts[0] if parts else c
    if op.split(":")[0] in SIMPL:
        name, form = op.split(":")
        kw = {}
        if name in ("remove_small_rotations", "remove_redundant_gates", "simplify") and arg:
            kw["remove_qubits"] = True
        try:
            if form == "function":
                out = getattr(TC, name)(c, **kw)
            else:
                getattr(c, name)(**kw)
                out = c
        except AttributeError:
            # remove_redundant_gates / simplify call Gate.inverse() on every gate: circuits holding a non-invertible
            # gate (MEASURE) make them raise (observation reported separately); the circuit must stay as it was
            has_meas = any(g[0] in ("MEASURE", "CMEASURE") for g in before["gates"])
            env.check_true(has_meas and name in ("remove_redundant_gates", "simplify"), f"{L}: raises only for non-invertible gates")
            unchanged()
            check_invariant(env, c, f"{L} (after AttributeError)", width=w0)
            FALLBACK.append(1)
            return c
        if name in ("remove_small_rotations", "remove_redundant_gates"):
            check_invariant(env, out, L, width=(hi_plus_1(out) if arg else w0))
        else:
            check_invariant(env, out, L, width_range=(hi_plus_1(out), w0))
        if form == "function":
            unchanged()                # the module-level functions are out-of-place
        return out
    if op == "translate:cirq+noise":
        # translation for a noisy simulation: both channel types on every gate name of the circuit (twice: the first pass must
        # leave nothing behind for the second)
        from tangelo.linq.noisy_simulation import NoiseModel
        from tangelo.linq.translator.translate_cirq import translate_c_to_cirq
        nm = NoiseModel()
        for name in sorted({g[0] for g in before["gates"]} - {"MEASURE", "CMEASURE"}):
            nm.add_quantum_error(name, "depol", 0.125)
            nm.add_quantum_error(name, "pauli", [0.0625, 0.125, 0.03125])
        for _ in range(2):
            try:
                translate_c_to_cirq(c, nm)
            except (ValueError, KeyError, NotImplementedError, TypeError, AttributeError):
                pass
            unchanged()
        check_invariant(env, c, L, width=w0)
        return c
    if op.startswith("translate:"):
        target = op.split(":")[1]
        try:
            translate_circuit(c, target)
        except (ValueError, KeyError, NotImplementedError, TypeError, AttributeError):
            pass                        # gate not supported by the target format: still must not touch the source
        unchanged()
        check_invariant(env, c, L, width=w0)
        return c
    if op.startswith("simulate:"):
        # a read-only operation on the real backend (concrete parameters): MEASURE circuits legitimately record results
        # in the circuit (success probabilities / applied gates), so only unitary circuits are used here
        from tangelo.linq import get_backend
        from symx import shim
        target = op.split(":")[1]
        try:
            with shim.concrete_mode():
                get_backend(target).simulate(c)
        except (ValueError, KeyError, NotImplementedError, TypeError, AttributeError):
            pass
        unchanged()
        check_invariant(env, c, L, width=w0)
        return c
    raise ValueError(op)


OUT_OF_PLACE = ("add", "stack", "mul", "copy", "inverse", "split", "split_notrim")
FALLBACK = []       # apply_op hands back the receiver itself when the operation produced nothing / legitimately raised


def check_result_independent(env, c, out, L):
    """an operation that only READS circuit c hands back a circuit that can be modified without reaching c: building on the
    result (add_gate, re-indexing, changing a gate of the result) is a later, separate step of the history"""
    from tangelo.linq import Gate
    before = CU.snapshot(c)
    try:
        out.add_gate(Gate("H", 0))
        for g in out._gates[:2]:
            g.target = [q + 1 for q in g.target] if not g.control else g.target
        if out._gates and isinstance(out._gates[0].parameter, (int, float)) and not isinstance(out._gates[0].parameter, bool):
            out._gates[0].parameter = 0.125
    except Exception:       # noqa  the result may legitimately refuse the extra gate (fixed width); nothing to compare then
        pass
    CU.check_unchanged(env, before, c, f"{L}: modifying the circuit RETURNED by this read-only operation leaves the circuit it was applied to unchanged")


def h_step(env, spec, n_qubits, op, arg=None, op2=None, arg2=None, sym=False, canary=False):
    c, angles = mk_circuit(env, spec, n_qubits, sym)
    used = CU.ref_metadata([CU.gate_tuple(g) for g in list(c)])["width"]
    check_invariant(env, c, "constructor", width=max(used, n_qubits or 0), canary=(canary == "ref"))
    del FALLBACK[:]
    out = apply_op(env, c, op, arg, sym, angles, "", canary=(canary == "readonly"))
    if op2 is not None:
        del FALLBACK[:]
        out2 = apply_op(env, out, op2, arg2, sym, angles, f"{op} -> ")
        if (op2 in OUT_OF_PLACE or op2.endswith(":function")) and not canary and not FALLBACK:
            check_result_independent(env, out, out2, f"{op} -> {op2}")
    elif (op in OUT_OF_PLACE or op.endswith(":function")) and not canary and not FALLBACK:
        check_result_independent(env, c, out, op)


def h_gate_alias(env):
    """a Gate / Circuit keeps its own copy of the index lists it was given: the caller may reuse and modify them afterwards
    (growing a list of controls, recycling a pair list) without reaching gates that were already built"""
    from tangelo.linq import Gate, Circuit
    tg, ct = [2], [0]
    g = Gate("CRZ", tg, ct, 0.5)
    c = Circuit([g], n_qubits=5)
    c.add_gate(Gate("SWAP", tg + [3]))
    pair = [1, 4]
    c.add_gate(Gate("SWAP", pair))
    before = CU.snapshot(c)
    gt = CU.gate_tuple(g)
    tg.append(1)
    ct[0] = 2
    pair[0] = 4
    pair.append(0)
    env.check_true(CU.gates_same([CU.gate_tuple(g)], [gt]) is None, "Gate: modifying the lists passed as target / control afterwards leaves the gate unchanged")
    CU.check_unchanged(env, before, c, "Circuit: modifying the lists its gates were built from leaves the circuit unchanged")
    check_invariant(env, c, "after the caller modified its own lists", width=5)
    # a gate object that was valid when built and made invalid afterwards by attribute assignment is re-validated by every route
    # that takes gates into a circuit
    for what, mk in (("target == control", lambda g_: setattr(g_, "target", [0])), ("negative index", lambda g_: setattr(g_, "target", [-1])),
                     ("two targets on CNOT", lambda g_: setattr(g_, "target", [1, 2])), ("non-integer index", lambda g_: setattr(g_, "control", [0.5]))):
        bad_gate = Gate("CNOT", 1, 0)
        mk(bad_gate)
        env.check_raises(lambda: Circuit([bad_gate]), f"Circuit([gate made invalid afterwards: {what}]) is rejected")
        ok_c = Circuit([Gate("H", 2)], n_qubits=4)
        env.check_raises(lambda: ok_c.add_gate(bad_gate), f"add_gate(gate made invalid afterwards: {what}) is rejected")
        check_invariant(env, ok_c, "after the rejected add_gate", width=4)
    d = c + Circuit([Gate("X", [0])])
    e = c.inverse()
    f = c * 2
    tg.append(3)
    for nm, x, w in (("sum", d, 5), ("inverse", e, 5), ("repetition", f, 5)):
        check_invariant(env, x, f"{nm} of that circuit", width=w)


# ------------------------------------------------------------------ index validation (enumeration)
def _expect_ok(name, tg, ct):
    import numpy as np
    name = name.upper()
    def flat(x):
        if x is None:
            return []
        if isinstance(x, np.ndarray):
            return x.tolist()
        return list(x) if hasattr(x, "__iter__") and not isinstance(x, str) else [x]
    if isinstance(tg, str) or isinstance(ct, str):
        t = list(tg) if isinstance(tg, str) else flat(tg)       # a str is iterable: its characters are the "indices"
        cc = list(ct) if isinstance(ct, str) else flat(ct)
    else:
        t, cc = flat(tg), flat(ct)
    allq = t + cc
    if any(type(q) is not int or q < 0 for q in allq):
        return False
    if len(set(allq)) != len(allq):
        return False
    from tangelo.linq.gate import ONE_TARGET_GATES, TWO_TARGET_GATES
    need = 1 if name in ONE_TARGET_GATES else (2 if name in TWO_TARGET_GATES else len(t))
    if len(t) != need:
        return False
    if ct is not None and name[0] != "C":
        return False
    return True


def h_index(env, cases, canary=False):
    """cases: list of (name, target, control) with concrete values"""
    import numpy as np
    from tangelo.linq import Gate
    for (name, tg, ct) in cases:
        ok = _expect_ok(name, tg, ct)
        if canary:
            ok = not ok
        desc = f"Gate({name!r}, target={tg!r}, control={ct!r})"
        if ok:
            try:
                g = Gate(name, tg, ct)
                good = all(type(q) is int and q >= 0 for q in g.target + (g.control or []))
                env.check_true(good, f"index validation: valid indices are accepted and stored as ints")
            except Exception as e:
                env.fail("index validation: valid indices are accepted", f"{desc} raised {type(e).__name__}: {e}"[:300])
        else:
            env.check_raises(lambda: Gate(name, tg, ct), "index validation: negative / non-integer / duplicate indices or a wrong "
                                                         f"number of targets are rejected [{desc[:80]}]")


def h_range(env, ns, ks, canary=False):
    """Circuit with n_qubits rejects indices >= n (constructor and add_gate), accepts the others"""
    from tangelo.linq import Gate, Circuit
    for n in ns:
        for (nm, tg, ct) in ks:
            idx = list(tg) + list(ct or ())
            g = Gate(nm, list(tg) if len(tg) > 1 else tg[0], None if ct is None else list(ct))
            bad = max(idx) >= n
            if canary:
                bad = max(idx) > n
            for how in ("constructor", "add_gate"):
                def run():
                    if how == "constructor":
                        return Circuit([Gate("H", 0), g], n_qubits=n)
                    c = Circuit([Gate("H", 0)], n_qubits=n)
                    c.add_gate(g)
                    return c
                if bad:
                    env.check_raises(run, f"Circuit(n_qubits={n}) rejects {nm} on {idx} ({how})")
                else:
                    try:
                        c = run()
                        check_invariant(env, c, f"Circuit(n_qubits={n}) + {nm}{idx} ({how})", width=n)
                    except Exception as e:
                        env.fail(f"Circuit(n_qubits={n}) accepts in-range indices ({how})", f"{nm} {idx}: {type(e).__name__}: {e}"[:200])


# ------------------------------------------------------------------ shape enumeration
def gate_menu(qubits):
    q = list(qubits)
    m = []
    for a in q:
        m += [("H", (a,), None, None, False), ("RX", (a,), None, "@a", True), ("RZ", (a,), None, "@b", False), ("RX", (a,), None, "@z", False),
              ("PHASE", (a,), None, "@c", True), ("T", (a,), None, None, False), ("MEASURE", (a,), None, None, False), ("X", (a,), None, None, False)]
    for a, b in itertools.permutations(q, 2):
        m += [("CNOT", (a,), (b,), None, False), ("CRZ", (a,), (b,), "@a", True), ("CRX", (a,), (b,), "@b", False), ("CZ", (a,), (b,), None, False)]
        if a < b:
            m += [("SWAP", (a, b), None, None, False), ("XX", (a, b), None, "@c", False)]
    for a, b, c in itertools.permutations(q, 3):
        if b < c:
            m += [("CNOT", (a,), (b, c), None, False), ("CPHASE", (a,), (b, c), "@a", False)]
            m += [("CSWAP", (b, c), (a,), None, False)]
    return m


CORE_PRE = [
    ([], None),
    ([("H", (0,), None, None, False)], None),
    ([("RX", (0,), None, "@a", True), ("RX", (0,), None, "@b", False), ("H", (1,), None, None, False)], None),
    ([("H", (0,), None, None, False), ("CNOT", (1,), (0,), None, False), ("RZ", (3,), None, "@a", False)], None),
    ([("CNOT", (2,), (0, 1), None, False), ("RX", (1,), None, "@a", True)], 5),
    ([("H", (1,), None, None, False), ("MEASURE", (1,), None, None, False), ("X", (3,), None, None, False)], None),
    ([("CRZ", (3,), (1,), "@a", True), ("CRZ", (3,), (1,), "@b", False), ("SWAP", (0, 1), None, None, False)], 5),
    ([("RX", (2,), None, "@z", False), ("CSWAP", (0, 3), (2,), None, False), ("XX", (0, 1), None, "@c", False)], None),
    ([("PHASE", (0,), None, "t", False), ("RY", (2,), None, "u", True)], None),                       # string parameters
    ([("H", (0,), None, None, False), ("H", (0,), None, None, False), ("T", (2,), None, None, False)], 5),
]

OPS_PLAIN = (["copy", "inverse", "depth", "trim_qubits", "split", "split_notrim"] + [f"translate:{t}" for t in TARGETS] + ["translate:cirq+noise"])


def _numeric(spec):
    return all(not (isinstance(g[3], str) and not g[3].startswith("@")) for g in spec)


def _op_instances(rnd, spec, n_qubits, full):
    """(op, arg, sym) instances applicable to a pre-state"""
    qs = [0, 1, 2, 3]
    menu = gate_menu(qs)
    out = [(op, None, False) for op in OPS_PLAIN]
    if _numeric(spec) and not any(g[0] in ("MEASURE", "CMEASURE") for g in spec) and not any(isinstance(g[3], str) for g in spec):
        out += [("simulate:cirq", None, False), ("simulate:sympy", None, False)]
    out.append(("mul", 2, False))
    out.append(("reindex_qubits", rnd.randint(0, 9), False))
    adds = rnd.sample(menu, 3 if full else 1) + [("CNOT", (1,), (0, 3), None, False)]
    if n_qubits:
        adds.append(("H", (n_qubits + 1,), None, None, False))             # out of range for the fixed size
        adds.append(("CNOT", (0,), (n_qubits,), None, False))
        adds.append(("RY", (n_qubits,), None, 0.5, True))                   # out of range AND variational: must leave no trace at all
        adds.append(("CRZ", (0,), (n_qubits + 2,), 0.25, True))
    out += [("add_gate", a, False) for a in adds]
    other = [([("RX", (1,), None, "@a", True), ("CNOT", (3,), (1,), None, False)], None), ([("MEASURE", (0,), None, None, False)], 6)]
    for o in (other if full else other[:1]):
        out.append(("add", o, False))
        out.append(("stack", o, False))
    if _numeric(spec):
        for nm in SIMPL:
            for form in ("method", "function"):
                out.append((f"{nm}:{form}", False, True))
        out.append(("remove_redundant_gates:function", True, True))
        out.append(("simplify:method", True, True))
    return out


def _opname(op, arg):
    if op == "add_gate":
        return f"add_gate[{arg[0]}{'_'.join(map(str, arg[1]))}{'c' + '_'.join(map(str, arg[2])) if arg[2] else ''}]"
    if op in ("add", "stack"):
        return f"{op}[{len(arg[0])}g,n={arg[1]}]"
    return f"{op}[{arg}]" if arg not in (None, False) else op


def _specname(spec, n):
    return ".".join(f"{g[0]}{'_'.join(map(str, g[1]))}" + (f"c{'_'.join(map(str, g[2]))}" if g[2] else "") for g in spec) + f"/n={n}"


def shapes(tier, seed):
    rnd = random.Random(seed)
    q = tier == "quick"
    out, seen = [], set()
    pol = dict(mod_range=(-5, 5), threshold="fork")       # sums of up to 3 angles in [-3pi, 3pi]

    def add(name, fn, kw, **skw):
        if name in seen:
            return
        seen.add(name)
        out.append(Shape(name, fn, kw, modules=MODS, policy=pol, max_paths=600, **skw))

    pres = list(CORE_PRE)
    menu = gate_menu([0, 1, 2, 3])
    for _ in range(4 if q else 30):
        k = rnd.randint(1, 3)
        sp = [rnd.choice(menu) for _ in range(k)]
        pres.append((sp, rnd.choice([None, 5])))
    for i, (sp, n) in enumerate(pres):
        core = i < len(CORE_PRE)
        for (op, arg, sym) in _op_instances(rnd, sp, n, full=(core or not q)):
            if q and not core and rnd.random() < 0.5:
                continue
            add(f"step/{_opname(op, arg)}/{_specname(sp, n)}", h_step, dict(spec=sp, n_qubits=n, op=op, arg=arg, sym=sym))
    # two operations in a row (seeded sample)
    for j in range(40 if q else 400):
        sp, n = rnd.choice(pres)
        ops = _op_instances(rnd, sp, n, full=True)
        (o1, a1, s1), (o2, a2, s2) = rnd.choice(ops), rnd.choice(ops)
        if o2.split(":")[0] in SIMPL and not (_numeric(sp) and (o1 != "add_gate" or _numeric([a1]))):
            continue
        sym = (s1 or s2) and not any(o.startswith("translate") for o in (o1, o2))
        if any(o.startswith("translate") for o in (o1, o2)) and (s1 or s2):
            sym = False
        add(f"seq/{_opname(o1, a1)}->{_opname(o2, a2)}/{_specname(sp, n)}", h_step,
            dict(spec=sp, n_qubits=n, op=o1, arg=a1, op2=o2, arg2=a2, sym=sym))
    add("canary/invariant/depth", h_step, dict(spec=CORE_PRE[3][0], n_qubits=None, op="copy", canary="ref"), canary=True)
    add("canary/readonly/trim", h_step, dict(spec=CORE_PRE[3][0], n_qubits=None, op="depth", canary="readonly"), canary=True)

    # ---- index validation
    import numpy as np
    R = list(range(-3, 10))
    add("index/H/int", h_index, dict(cases=[("H", t, None) for t in R]))
    add("index/CNOT/int", h_index, dict(cases=[("CNOT", t, c) for t in R for c in R]))
    add("index/SWAP/int", h_index, dict(cases=[("SWAP", [a, b], None) for a in R for b in R]))
    r3 = list(range(-2, 6))
    trip = [(a, b, c) for a in r3 for b in r3 for c in r3]
    if q:
        trip = rnd.sample(trip, 120)
    add("index/CSWAP+CCNOT/int", h_index, dict(cases=[("CSWAP", [a, b], c) for a, b, c in trip] + [("CNOT", a, [b, c]) for a, b, c in trip]))
    weird = [True, False, 1.0, 2.5, "1", "12", None, np.int64(1), np.float64(1.0), np.array([1]), np.array([0, 2]), np.array([1.0]),
             [1], (2,), [np.int64(1)], [True], [1.0], [0, 0], [], [0, 1], [0, 1, 2], -1, [-1], [2, -1], 1 + 0j]
    cases = []
    for w in weird:
        for nm in ("H", "RX", "SWAP", "CNOT", "MEASURE", "FOO"):
            if w is None:
                continue
            cases.append((nm, w, None))
            if nm == "CNOT":
                cases.append((nm, 5, w))
                cases.append((nm, w, 5))
    cases += [("H", 0, 1), ("X", 0, [1]), ("RX", 1, 0), ("CX", 0, None), ("CNOT", 0, 0), ("CNOT", [0], [0, 1]), ("CSWAP", [0, 1], [1]),
              ("CSWAP", 0, 1), ("XX", 0, None), ("XX", [0, 1, 2], None), ("CPHASE", 1, [0, 2, 3]), ("cnot", 1, 0), ("h", 3, None)]
    # numpy integer scalars / lists of them: documented in the signature, rejected by the code -> not asserted (see META.outside)
    cases = [c for c in cases if not any(isinstance(x, (np.integer,)) or (isinstance(x, list) and any(isinstance(y, np.integer) for y in x))
                                         for x in (c[1], c[2]))]
    add("index/variants", h_index, dict(cases=cases))
    add("canary/index/flipped", h_index, dict(cases=[("H", 1, None)], canary=True), canary=True)
    ks = [("H", (k,), None) for k in range(0, 6)] + [("CNOT", (0,), (k,)) for k in range(1, 6)] + [("CNOT", (k,), (0, 1)) for k in range(2, 6)] + \
         [("SWAP", (1, k), None) for k in range(2, 6)]
    add("index/list-aliasing", h_gate_alias, dict())
    add("index/n_qubits", h_range, dict(ns=[1, 2, 3, 4], ks=[k for k in ks]))
    add("canary/index/n_qubits", h_range, dict(ns=[3], ks=[("H", (3,), None)], canary=True), canary=True)
    return out
